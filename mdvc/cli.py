"""./check <property> --tier quick|thorough      (cwd = /verif)

Runs, for one property:
  1. the deductive layer: every contract registered for the property is executed against the
     CURRENT text of /repo; each obligation is discharged / refuted / undecided;
  2. the bounded contract checks (BCC) of the property in /venv/bin/python against the current
     tree (labelled bounded, never counted as proved); they are also the replay harness;
  3. verdicts: refuted obligations and failing bounded inputs are matched against
     known_findings.txt; unlisted ones print  VIOLATION property=<id> replay=<path>  and exit 1;
  4. evidence/<id>.json.

Exit codes: 0 held / 1 violation / 3 checker broken (never used for a property verdict).
"""
from __future__ import annotations

import argparse
import hashlib
import importlib
import json
import multiprocessing as mp
import os
import subprocess
import sys
import time

VERIF = os.path.dirname(os.path.dirname(os.path.abspath(__file__)))
REPO = os.environ.get("MDVC_REPO", "/repo")
VENV_PY = "/venv/bin/python"

sys.path.insert(0, VERIF)

from mdvc import core, verify  # noqa: E402
from mdvc import props as PROPS  # noqa: E402


# ---------------------------------------------------------------------------------------------
def load_contracts(pid):
    mods = PROPS.PROPS[pid].get("contract_modules", [])
    for m in mods:
        importlib.import_module(m)  # registers on first import only
    return [c for c in verify.REGISTRY if c.prop == pid]


def _run_one(args):
    pid, idx, timeout_ms, repo, workers = args
    from contracts import common

    cons = load_contracts(pid)
    con = cons[idx]
    core.STATS = core.SolverStats()
    runner = verify.Runner(repo=repo, timeout_ms=timeout_ms, setup_interp=common.setup_interp)
    runner.workers = workers
    res = runner.run_contract(con)
    d = res.to_json()
    d["obligations"] = [o.to_json() | ({"model": o.model} if o.status == "refuted" else {}) for o in res.obligations]
    samples = []
    for o in res.obligations[:1]:
        try:
            samples.append({"id": o.oid, "smt2": o.smt2()[:1500]})
        except Exception:
            pass
    d["samples"] = samples
    d["replay"] = con.replay
    d["assumed"] = con.assumed
    d["notes"] = con.notes
    d["solver"] = {
        "z3_queries": core.STATS.z3_queries,
        "z3_time_s": round(core.STATS.z3_time, 3),
        "cvc5_queries": core.STATS.cvc5_queries,
        "cvc5_time_s": round(core.STATS.cvc5_time, 3),
        "by_backend": core.STATS.by_backend,
    }
    return d


def run_deductive(pid, tier, repo, jobs):
    cons = load_contracts(pid)
    timeout_ms = 10000 if tier == "quick" else 60000
    if not cons:
        return []
    outer = max(1, min(jobs, len(cons)))
    inner = max(1, jobs // outer) if jobs > 1 else 1
    if len(cons) <= 4:
        inner = max(inner, min(jobs, 8))
    tasks = [(pid, i, timeout_ms, repo, inner) for i in range(len(cons))]
    if jobs <= 1 or len(tasks) == 1:
        return [_run_one(t) for t in tasks]
    from concurrent.futures import ProcessPoolExecutor

    ctx = mp.get_context("fork")
    with ProcessPoolExecutor(max_workers=outer, mp_context=ctx) as pool:
        return list(pool.map(_run_one, tasks))


# ---------------------------------------------------------------------------------------------
def load_known():
    path = os.path.join(VERIF, "known_findings.txt")
    findings, fixed = {}, []
    if os.path.exists(path):
        for line in open(path):
            line = line.strip()
            if not line or line.startswith("#"):
                continue
            if line.startswith("finding:"):
                parts = line[len("finding:"):].split()
                kv = dict(p.split("=", 1) for p in parts if "=" in p and p.split("=", 1)[0] in ("property", "key"))
                what = line.split("key=" + kv.get("key", ""), 1)[-1].strip()
                findings[(kv.get("property"), kv.get("key"))] = what
            elif line.startswith("fixed:"):
                fixed.append(line)
    return findings, fixed


def run_bcc(pid, tier, seed, repo, hint=None, timeout=None):
    mod = PROPS.PROPS[pid].get("bcc")
    if not mod:
        return None
    out = os.path.join(VERIF, "scratch", f"bcc_{pid}_{os.getpid()}.json")
    os.makedirs(os.path.dirname(out), exist_ok=True)
    cmd = [VENV_PY, os.path.join(VERIF, "bcc", "run.py"), pid, "--tier", tier, "--seed", str(seed), "--out", out,
           "--repo", repo]
    if hint:
        cmd += ["--hint", json.dumps(hint)]
    env = dict(os.environ)
    env.setdefault("OMP_NUM_THREADS", "4")
    env["PYTHONDONTWRITEBYTECODE"] = "1"
    t0 = time.time()
    try:
        p = subprocess.run(cmd, capture_output=True, text=True, timeout=timeout or (900 if tier == "quick" else 3600),
                           env=env, cwd=VERIF)
    except subprocess.TimeoutExpired:
        return {"error": "bcc timeout", "checks": [], "wall_s": time.time() - t0}
    try:
        with open(out) as fh:
            d = json.load(fh)
        os.unlink(out)
    except Exception:
        d = {"error": f"bcc produced no result (exit {p.returncode}): {p.stderr[-2000:]}", "checks": []}
    d["wall_s"] = round(time.time() - t0, 2)
    d["stderr_tail"] = p.stderr[-500:] if p.returncode else ""
    return d


def write_replay(pid, name, payload):
    d = os.path.join(VERIF, "replays", pid)
    os.makedirs(d, exist_ok=True)
    safe = "".join(ch if ch.isalnum() or ch in "-_." else "_" for ch in name)[:150]
    path = os.path.join(d, safe + ".json")
    with open(path, "w") as fh:
        json.dump(payload, fh, indent=1, default=str)
    return path


def main(argv=None):
    ap = argparse.ArgumentParser()
    ap.add_argument("property", nargs="?")
    ap.add_argument("--tier", default=os.environ.get("VERIF_TIER", "quick"), choices=["quick", "thorough"])
    ap.add_argument("--seed", type=int, default=int(os.environ.get("VERIF_SEED", "0") or 0))
    ap.add_argument("--repo", default=REPO)
    ap.add_argument("--jobs", type=int, default=int(os.environ.get("VERIF_JOBS", "16")))
    ap.add_argument("--replay")
    ap.add_argument("--setup", action="store_true")
    ap.add_argument("--no-bcc", action="store_true")
    ap.add_argument("--no-deductive", action="store_true")
    ap.add_argument("--strict", action="store_true", help="exit 2 when anything is undecided (development)")
    ap.add_argument("--verbose", "-v", action="store_true")
    a = ap.parse_args(argv)
    os.environ["MDVC_TIER"] = a.tier  # contract modules may register larger shapes for the thorough tier

    if a.setup:
        from mdvc import setup as S

        return S.main(a)
    pid = a.property
    if pid not in PROPS.PROPS:
        print(f"unknown property {pid}", file=sys.stderr)
        return 3
    if a.replay:
        return do_replay(pid, a)

    t0 = time.time()
    cfg = PROPS.PROPS[pid]
    known, _fixed = load_known()
    violations = []  # (key, what, replay_path)
    known_hits = []
    checker_errors = []

    # 1. deductive
    fun = []
    if not a.no_deductive:
        try:
            fun = run_deductive(pid, a.tier, a.repo, a.jobs)
        except Exception as e:
            checker_errors.append(f"deductive layer crashed: {type(e).__name__}: {e}")
    n_obl = sum(f["n_obligations"] for f in fun)
    n_dis = sum(f["discharged"] for f in fun)
    n_ref = sum(f["refuted"] for f in fun)
    n_und = sum(f["undecided"] for f in fun)
    refuted_groups = {}
    for f in fun:
        if f.get("error"):
            checker_errors.append(f"{f['qualname']}: {f['error'][:300]}")
        for o in f["obligations"]:
            if o["status"] == "refuted":
                g = refuted_groups.setdefault(o["id"], {"function": f, "obls": []})
                g["obls"].append(o)

    # 2. bounded contract checks (+ hints from refuted obligations so that the enumerator looks there first)
    bcc = None
    if not a.no_bcc:
        hint = None
        if refuted_groups:
            hint = {"refuted": [{"id": k, "model": g["obls"][0].get("model")} for k, g in list(refuted_groups.items())[:20]]}
        bcc = run_bcc(pid, a.tier, a.seed, a.repo, hint=hint)
        if bcc and bcc.get("error"):
            checker_errors.append("bcc: " + str(bcc["error"])[:500])

    bcc_fail_by_oblig = {}
    if bcc:
        for chk in bcc.get("checks", []):
            for fl in chk.get("failures", []):
                for oid in fl.get("explains", []) or []:
                    bcc_fail_by_oblig.setdefault(oid, fl)

    # 3. verdicts -- deductive
    for oid, g in refuted_groups.items():
        o = g["obls"][0]
        f = g["function"]
        witness = bcc_fail_by_oblig.get(oid)
        payload = {
            "property": pid,
            "kind": "refuted-obligation",
            "obligation": oid,
            "clause": o["clause"],
            "function": f["qualname"],
            "lines": f.get("lines"),
            "text_sha256": f.get("text_sha256"),
            "solver": o.get("backend"),
            "model": o.get("model"),
            "paths": [x["path_class"] for x in g["obls"]],
            "failing_input": witness.get("input") if witness else None,
            "observed": witness.get("observed") if witness else None,
            "expected": witness.get("expected") if witness else None,
            "bcc_key": witness.get("key") if witness else None,
            "verifier_output": f"z3: sat; counter-model {o.get('model')}",
            "rerun": f"./check {pid} --replay <this file>",
        }
        if witness is None and f.get("replay"):
            # model-driven concretisation
            rp = concretise(pid, f, o, a.repo)
            if rp:
                payload.update(rp)
        key = oid
        what = f"{f['qualname']} violates `{o['clause']}`"
        if (pid, key) in known:
            known_hits.append((key, known[(pid, key)] or what))
            continue
        path = write_replay(pid, oid, payload)
        suffix = "" if payload.get("failing_input") is not None else " no-failing-input-found"
        violations.append((key, what, path, suffix))

    # bounded
    seen_bcc_keys = set()
    if bcc:
        for chk in bcc.get("checks", []):
            for fl in chk.get("failures", []):
                key = fl["key"]
                if key in seen_bcc_keys:
                    continue
                seen_bcc_keys.add(key)
                if (pid, key) in known:
                    known_hits.append((key, known[(pid, key)] or fl.get("what", "")))
                    continue
                # a bounded failure that merely *explains* a refuted obligation already reported
                if any(oid in refuted_groups and (pid, oid) not in known for oid in fl.get("explains", []) or []):
                    continue
                if any((pid, oid) in known for oid in fl.get("explains", []) or []):
                    known_hits.append((key, fl.get("what", "")))
                    continue
                payload = {"property": pid, "kind": "bounded-check-failure", "check": chk["name"], **fl,
                           "rerun": f"./check {pid} --replay <this file>"}
                path = write_replay(pid, key, payload)
                violations.append((key, fl.get("what", key), path, ""))

    # 4. evidence
    wall = time.time() - t0
    ev = build_evidence(pid, cfg, a, fun, bcc, n_obl, n_dis, n_ref, n_und, violations, known_hits, checker_errors, wall)
    # runs against a scratch copy (--repo DIR: mutants, seeded changes) never touch the committed evidence
    evdir = os.path.join(VERIF, "evidence") if os.path.realpath(a.repo) == os.path.realpath(REPO) else os.path.join(VERIF, "scratch", "evidence-other-repo")
    os.makedirs(evdir, exist_ok=True)
    with open(os.path.join(evdir, f"{pid}.json"), "w") as fh:
        json.dump(ev, fh, indent=1, default=str)

    # 5. report
    print(f"[{pid}] tier={a.tier} functions-under-contract={len(fun)} obligations={n_obl} discharged={n_dis} "
          f"refuted={n_ref} undecided={n_und} "
          + (f"bounded-evaluations={sum(c.get('evaluations', 0) for c in bcc.get('checks', []))} " if bcc else "")
          + f"wall={wall:.1f}s")
    if a.verbose:
        for f in fun:
            print(f"   {f['status']:11s} {f['qualname']}  obl={f['n_obligations']} paths={f['n_paths']}"
                  + (f" unsupported={f.get('unsupported')}" if f.get("unsupported") else "")
                  + (f" covers_missing={f.get('covers_missing')}" if f.get("covers_missing") else ""))
            for o in f["obligations"]:
                if o["status"] != "discharged":
                    print(f"        {o['status']}: {o['id']} [{o['path_class']}] {o.get('model', '')} {o.get('note', '')}")
        if bcc:
            for c in bcc.get("checks", []):
                print(f"   bounded {c['name']}: evaluations={c.get('evaluations')} failures={len(c.get('failures', []))}")
    for key, what in known_hits:
        print(f"KNOWN-FINDING: property={pid} {key} {what}")
    for key, what, path, suffix in violations:
        print(f"# {what}")
        print(f"VIOLATION property={pid} replay={path}{suffix}")
    if checker_errors and not violations:
        for e in checker_errors:
            print("checker-error: " + e, file=sys.stderr)
    if violations:
        return 1
    if a.strict and (n_und or checker_errors):
        return 2
    return 0


def concretise(pid, f, o, repo):
    """Ask the property's BCC module to turn a counter-model into a concrete failing run."""
    out = os.path.join(VERIF, "scratch", f"conc_{pid}_{os.getpid()}.json")
    os.makedirs(os.path.dirname(out), exist_ok=True)
    req = {"replay": f.get("replay"), "model": o.get("model"), "obligation": o["id"], "clause": o["clause"]}
    cmd = [VENV_PY, os.path.join(VERIF, "bcc", "run.py"), pid, "--concretise", json.dumps(req), "--out", out, "--repo", repo]
    try:
        subprocess.run(cmd, capture_output=True, text=True, timeout=300, cwd=VERIF)
        with open(out) as fh:
            d = json.load(fh)
        os.unlink(out)
        return d
    except Exception:
        return None


def do_replay(pid, a):
    with open(a.replay) as fh:
        payload = json.load(fh)
    print(json.dumps({k: payload.get(k) for k in ("kind", "obligation", "clause", "function", "model", "failing_input", "key")}, indent=1, default=str))
    if payload.get("failing_input") is None and payload.get("input") is None:
        # re-run the deductive layer for that function and show the verdict of the obligation
        fun = run_deductive(pid, "quick", a.repo, a.jobs)
        st = "not-found"
        for f in fun:
            for o in f["obligations"]:
                if o["id"] == payload.get("obligation") and o["status"] == "refuted":
                    st = "refuted"
                    print("obligation refuted again; counter-model:", o.get("model"))
        if st == "refuted":
            print(f"VIOLATION property={pid} replay={a.replay} no-failing-input-found")
            return 1
        print("obligation is no longer refuted on the current tree")
        return 0
    out = os.path.join(VERIF, "scratch", f"replay_{pid}_{os.getpid()}.json")
    os.makedirs(os.path.dirname(out), exist_ok=True)
    cmd = [VENV_PY, os.path.join(VERIF, "bcc", "run.py"), pid, "--replay", a.replay, "--out", out, "--repo", a.repo]
    p = subprocess.run(cmd, capture_output=True, text=True, cwd=VERIF)
    try:
        d = json.load(open(out))
        os.unlink(out)
    except Exception:
        print(p.stdout[-2000:], p.stderr[-2000:])
        return 3
    print(json.dumps(d, indent=1, default=str))
    if d.get("reproduced"):
        print(f"VIOLATION property={pid} replay={a.replay}")
        return 1
    return 0


def build_evidence(pid, cfg, a, fun, bcc, n_obl, n_dis, n_ref, n_und, violations, known_hits, checker_errors, wall):
    from mdvc import models

    trusted = []
    for name in cfg.get("trusted", []):
        trusted.append(f"{name}: {models.TRUSTED.get(name, '')}" if name in models.TRUSTED else name)
    for f in fun:
        for x in f.get("assumed") or []:
            if x not in trusted:
                trusted.append(x)
    bounded = []
    evals = 0
    distinct = 0
    samples = []
    if bcc:
        for c in bcc.get("checks", []):
            bounded.append({k: c.get(k) for k in ("name", "function", "bound", "evaluations", "distinct_nontrivial", "exhaustive", "rule", "stands_in_for")}
                           | {"failures": len(c.get("failures", [])), "label": "bounded (not proved)"})
            evals += int(c.get("evaluations", 0))
            distinct += int(c.get("distinct_nontrivial", 0))
            samples.extend([{"bounded-input": s} for s in (c.get("samples") or [])[:2]])
    for f in fun[:6]:
        samples.extend([{"obligation": s["id"], "smt2": s["smt2"]} for s in f.get("samples", [])[:1]])
    claimed = cfg.get("level", "other")
    level = claimed
    if claimed == "proof" and (n_obl == 0 or n_dis != n_obl):
        level = "other"
    solver = {"z3_queries": 0, "z3_time_s": 0.0, "cvc5_queries": 0, "cvc5_time_s": 0.0}
    by_backend = {}
    for f in fun:
        for k in solver:
            solver[k] += f["solver"][k]
        for k, v in f["solver"]["by_backend"].items():
            by_backend[k] = by_backend.get(k, 0) + v
    expl = cfg.get("explanation", "")
    status_line = (f"deductive: {len(fun)} functions under contract, {n_obl} obligations, {n_dis} discharged, {n_ref} refuted, "
                   f"{n_und} undecided; bounded stand-ins: {len(bounded)} checks, {evals} evaluations (never counted as proved).")
    cov = {
        "obligations": n_obl,
        "discharged": n_dis,
        "refuted": n_ref,
        "undecided": n_und,
        "checker_cmd": f"./check {pid} --tier {a.tier}  (python3-vt -m mdvc.cli; z3 {core.z3.get_version_string()} API, /usr/bin/cvc5 on unknown)",
        "trusted_base": trusted,
        "by_backend": by_backend,
        "solver_time_s": round(solver["z3_time_s"] + solver["cvc5_time_s"], 3),
        "solver_queries": solver["z3_queries"] + solver["cvc5_queries"],
        "functions_under_contract": [{k: v for k, v in f.items() if k not in ("obligations", "samples", "solver", "assumed")} for f in fun],
        "undecided_obligations": [o["id"] + " :: " + (o.get("note") or "") for f in fun for o in f["obligations"] if o["status"] == "undecided"][:40],
        "bounded": bounded,
        "evaluations": max(evals, 0),
        "distinct_nontrivial": distinct,
        "rule": "bounded stand-ins: see coverage.bounded[*].rule; deductive obligations are per (function, case, path, clause)",
        "samples": samples[:8] or [{"note": "no obligations generated"}],
        "explanation": (expl + " " + status_line).strip(),
        "exhaustive": False,
        "known_findings_reported": [k for k, _ in known_hits],
        "violations_reported": [v[0] for v in violations],
        "checker_errors": checker_errors,
        "encoding_assumptions": cfg.get("encoding", PROPS.ENCODING),
        "repo": a.repo,
    }
    return {
        "property_id": pid,
        "tier": a.tier,
        "seed": a.seed,
        "level": level,
        "coverage": cov,
        "assumptions": list(cfg.get("assumptions", [])) + PROPS.ENCODING,
        "wall_s": round(wall, 2),
        "violations": len(violations),
    }


if __name__ == "__main__":
    sys.exit(main())
