"""mdvc.cinterp -- symbolic interpreter over clang's JSON AST of the real C/C++ kernels.

Front end: `clang++-14 -fsyntax-only -Xclang -ast-dump=json -Xclang -ast-dump-filter=<fn>` with the
include paths of the owning extension (from setup.py), once per source file and function list;
the JSON is cached per source hash under /verif/scratch/ast-cache.  The interpreter walks the
FunctionDecl body: nothing is rewritten.  Dropped (value-preserving) nodes: ImplicitCastExpr between
float/double and NoOp casts, MaterializeTemporaryExpr, ExprWithCleanups, ParenExpr,
CXXBindTemporaryExpr; `#pragma omp` is not seen (parsed without -fopenmp: the sequential body is
what is verified; the frame-locality obligations of C08 carry the parallel claim).

Values: C `int` = mathematical integer (no overflow; side assumption 3*n_frames*n_atoms < 2^31
recorded), float/double = reals.  fvec4 (vectorize_sse.h, trusted) = 4 lanes with lane-wise
arithmetic.  Pointers = (region, offset); a region's contents are a z3 array term updated by
stores, with a log of all writes (for frame conditions).
"""
from __future__ import annotations

import hashlib
import json
import os
import subprocess

import z3

from . import core, npreal
from .core import SBool, SInt, SReal, SNum, Unsupported, is_sym, rterm, term
from .models import trusted

trusted(
    "vectorize_sse.h:fvec4",
    "fvec4(a,b,c,d) has lanes a,b,c,d; fvec4(x) broadcasts; + - * / += -= *= /= unary- act lane-wise; v[i] reads lane i; "
    "store(p) writes the 4 lanes to p[0..3]; dot3(a,b)=a0b0+a1b1+a2b2; dot4 adds lane 3; cross(a,b) is the 3-d cross product of lanes 0..2; "
    "round/floor/abs/sqrt/min/max act lane-wise",
)
trusted("C.int", "C int arithmetic is exact integer arithmetic (assumes no overflow: 3*n_frames*n_atoms < 2^31)")

VERIF = os.path.dirname(os.path.dirname(os.path.abspath(__file__)))

ROUNDF = z3.Function("roundf", z3.RealSort(), z3.RealSort())
FLOORF = z3.Function("floorf", z3.RealSort(), z3.RealSort())
IS_INT = z3.Function("is_int_valued", z3.RealSort(), z3.BoolSort())
TRUNC = z3.Function("truncf", z3.RealSort(), z3.IntSort())


# --------------------------------------------------------------------------------------------
def load_functions(repo, relfile, names, include=(), defines=(), std="c++11"):
    """-> {name: [FunctionDecl json with a body, ...]} (several bodies when a kernel header is compiled twice)"""
    path = os.path.join(repo, relfile)
    h = hashlib.sha256()
    h.update(open(path, "rb").read())
    for inc in include:
        d = os.path.join(repo, inc)
        if os.path.isdir(d):
            for f in sorted(os.listdir(d)):
                if f.endswith((".h", ".hpp")):
                    h.update(open(os.path.join(d, f), "rb").read())
    out = {}
    cache_dir = os.path.join(VERIF, "scratch", "ast-cache")
    os.makedirs(cache_dir, exist_ok=True)
    for name in names:
        key = hashlib.sha256((h.hexdigest() + relfile + name + "|".join(include) + "|".join(defines)).encode()).hexdigest()[:24]
        cpath = os.path.join(cache_dir, key + ".json")
        if os.path.exists(cpath):
            with open(cpath) as fh:
                out[name] = json.load(fh)
            continue
        is_c = relfile.endswith(".c")
        cmd = ["clang-14" if is_c else "clang++-14", "-fsyntax-only", "-Xclang", "-ast-dump=json", "-Xclang", f"-ast-dump-filter={name}", "-msse4.1", "-w"]
        if not is_c:
            cmd.append("-std=" + std)
        cmd += ["-I" + os.path.join(repo, i) for i in include] + ["-D" + d for d in defines] + [path]
        p = subprocess.run(cmd, capture_output=True, text=True)
        if not p.stdout.strip():
            raise Unsupported(f"clang produced no AST for {name} in {relfile}: {p.stderr[-300:]}")
        dec = json.JSONDecoder()
        s, i, objs = p.stdout, 0, []
        while i < len(s):
            while i < len(s) and s[i].isspace():
                i += 1
            if i >= len(s):
                break
            o, i = dec.raw_decode(s, i)
            objs.append(o)
        bodies = [o for o in objs if o.get("kind") in ("FunctionDecl", "CXXMethodDecl") and o.get("name") == name
                  and any(c.get("kind") == "CompoundStmt" for c in o.get("inner", []))]
        tmp = f"{cpath}.{os.getpid()}.tmp"  # unique per process: several contracts load the same function concurrently
        with open(tmp, "w") as fh:
            json.dump(bodies, fh)
        os.replace(tmp, cpath)
        out[name] = bodies
    return out


# --------------------------------------------------------------------------------------------
# values


def load_records(repo, relfile, names, include=(), defines=(), std="c++11"):
    """-> {name: CXXRecordDecl json} for user-defined structs/classes (fields, constructors with their member initialisers,
    methods) of the translation unit"""
    path = os.path.join(repo, relfile)
    hh = hashlib.sha256(open(path, "rb").read()).hexdigest()
    cache_dir = os.path.join(VERIF, "scratch", "ast-cache")
    os.makedirs(cache_dir, exist_ok=True)
    out = {}
    for name in names:
        key = hashlib.sha256((hh + relfile + "record:" + name + "|".join(include)).encode()).hexdigest()[:24]
        cpath = os.path.join(cache_dir, key + ".json")
        if os.path.exists(cpath):
            with open(cpath) as fh:
                out[name] = json.load(fh)
            continue
        cmd = ["clang++-14", "-fsyntax-only", "-Xclang", "-ast-dump=json", "-Xclang", f"-ast-dump-filter={name}", "-msse4.1", "-w", "-std=" + std]
        cmd += ["-I" + os.path.join(repo, i) for i in include] + ["-D" + d for d in defines] + [path]
        p = subprocess.run(cmd, capture_output=True, text=True)
        dec = json.JSONDecoder()
        txt, i, objs = p.stdout, 0, []
        while i < len(txt):
            while i < len(txt) and txt[i].isspace():
                i += 1
            if i >= len(txt):
                break
            o, i = dec.raw_decode(txt, i)
            objs.append(o)
        recs = [o for o in objs if o.get("kind") == "CXXRecordDecl" and o.get("name") == name and o.get("completeDefinition")]
        if not recs:
            raise Unsupported(f"no definition of record {name} in {relfile}")
        tmp = f"{cpath}.{os.getpid()}.tmp"
        with open(tmp, "w") as fh:
            json.dump(recs[0], fh)
        os.replace(tmp, cpath)
        out[name] = recs[0]
    return out


class FV:
    """fvec4"""

    def __init__(self, v):
        self.v = list(v)

    def map2(self, o, f):
        o = o if isinstance(o, FV) else FV([o] * 4)
        return FV([f(a, b) for a, b in zip(self.v, o.v)])

    def __repr__(self):
        return f"fvec4{self.v}"


class Region:
    ALL = []  # every region created on the current path (reset by CInterp.__init__); used by the loop-soundness check

    def __init__(self, name, sort="real", size=None, init=None):
        Region.ALL.append(self)
        self.stale = None
        self.name = name
        self.sort = sort
        self.size = size
        if init is not None:
            self.mem = init
        else:
            self.mem = z3.Array(name, z3.IntSort(), z3.RealSort() if sort == "real" else z3.IntSort())
        self.writes = []  # (index term, value term, path-condition length)
        self.reads = []
        self.local = None  # python list for small local arrays

    def read(self, idx):
        if self.local is not None:
            i = idx if isinstance(idx, int) else core.current().concrete_int(term(idx))
            if i is None:
                raise Unsupported("symbolic index into a local array")
            v = self.local[i]
            if v is None:
                raise Unsupported(f"read of uninitialised local {self.name}[{i}]")
            return v
        if self.stale:
            raise Unsupported(f"read of `{self.name}` after {self.stale}: the loop writes it and its contract says nothing about its contents")
        self.reads.append(term(idx))
        t = z3.simplify(z3.Select(self.mem, term(idx)))
        return SReal(t) if self.sort == "real" else SInt(t)

    def write(self, idx, val):
        if self.local is not None:
            i = idx if isinstance(idx, int) else core.current().concrete_int(term(idx))
            if i is None:
                raise Unsupported("symbolic index into a local array")
            self.local[i] = val
            return
        v = rterm(val) if self.sort == "real" else term(val)
        self.writes.append((term(idx), v))
        self.mem = z3.Store(self.mem, term(idx), v)


class Ptr:
    def __init__(self, region, off=0):
        self.region = region
        self.off = off

    def add(self, k):
        return Ptr(self.region, self.off + k)

    def __repr__(self):
        return f"&{self.region.name}[{self.off}]"


NULL = Ptr(None, 0)


class LRef:
    """assignable location"""

    def __init__(self, get, set_, ptr=None):
        self.get, self.set, self.ptr = get, set_, ptr


class StdVector:
    def __init__(self, items=None):
        self.items = list(items or [])


class StdMap:
    """std::map with concrete keys (ordered by key); values default-constructed on first access"""

    def __init__(self, default):
        self.d = {}
        self.default = default


class MapIter:
    def __init__(self, m, keys, i):
        self.m, self.keys, self.i = m, keys, i


class Poison:
    """value of a pointer/container variable that a loop modifies and the loop contract does not re-establish: any use is refused"""

    def __init__(self, why):
        self.why = why

    def __getattr__(self, name):
        raise Unsupported("use of " + object.__getattribute__(self, "why"))


class CReturn(Exception):
    def __init__(self, v):
        self.v = v


class CBreak(Exception):
    pass


class CContinue(Exception):
    pass


class CAbort(Exception):
    """exit(1) reached"""


ENUM_IDS = {}


def enum_id(name):
    if name not in ENUM_IDS:
        ENUM_IDS[name] = 1000 + len(ENUM_IDS)
    return ENUM_IDS[name]


class CLoopSpec:
    """Loop invariant for a loop with symbolic trip count.
       enter(interp, env) -> ghost ; havoc(interp, env, ghost) sets the loop-carried variables to the arbitrary-iteration
       state and returns list of assumptions ; invariant(interp, env, ghost) -> [(name, z3 Bool)] ;
       at_end(interp, env, ghost): extra obligations after the body of the arbitrary iteration."""

    def __init__(self, havoc, invariant, at_end=None, exit_state=None):
        self.havoc, self.invariant, self.at_end, self.exit_state = havoc, invariant, at_end, exit_state


def _ctrunc_div(a, b):
    """C integer division truncates toward zero"""
    q = a / b
    # z3 div is Euclidean: adjust when a < 0 and remainder != 0
    r = a - b * q
    return z3.If(z3.And(a < 0, r != 0), z3.If(b > 0, q + 1, q - 1), q)


class CInterp:
    def __init__(self, explorer, functions, repo="/repo"):
        self.ex = explorer
        self.repo = repo
        self.functions = functions  # name -> FunctionDecl json (chosen variant)
        Region.ALL.clear()
        self.call_models = {}
        self.records = {}
        self.loop_specs = {}
        self.dropped = set()
        self.depth = 0
        self.unroll_limit = 200
        self.fname = None
        self.loop_counter = {}

    # ---- helpers ---------------------------------------------------------------------
    def getvar(self, env, name):
        return env[env["#names"][name]]

    def setvar(self, env, name, v):
        env[env["#names"][name]] = v

    def truth(self, v):
        if isinstance(v, bool):
            return v
        if isinstance(v, SBool):
            return self.ex.branch(v.t)
        if isinstance(v, Ptr):
            return v.region is not None
        if isinstance(v, StructObj):
            return True
        if isinstance(v, (int, float)):
            return v != 0
        if isinstance(v, SNum):
            return self.ex.branch(v.t != 0)
        raise Unsupported(f"truth of {v!r}")

    def rv(self, x):
        return x.get() if isinstance(x, LRef) else x

    def is_float_type(self, n):
        t = n.get("type", {}).get("qualType", "")
        return "float" in t or "double" in t

    # ---- calls -----------------------------------------------------------------------
    def call_function(self, name, args):
        if name in self.call_models:
            return self.call_models[name](self, args)
        if name not in self.functions:
            raise Unsupported(f"call to function {name} without body or model")
        fd = self.functions[name]
        params = [c for c in fd.get("inner", []) if c.get("kind") == "ParmVarDecl"]
        body = [c for c in fd.get("inner", []) if c.get("kind") == "CompoundStmt"][0]
        env = {"#names": {}}
        for p, a in zip(params, args):
            env[p["id"]] = a
            env["#names"][p.get("name")] = p["id"]
        prev, prevc = self.fname, self.loop_counter
        self.fname, self.loop_counter = name, {}
        self.depth += 1
        if self.depth > 30:
            raise Unsupported("C call depth")
        try:
            self.stmt(body, env)
            return None
        except CReturn as r:
            return r.v
        finally:
            self.depth -= 1
            self.fname, self.loop_counter = prev, prevc

    MATH = {}

    def builtin(self, name, args):
        a = [self.rv(x) for x in args]
        if name in ("sqrtf", "sqrt"):
            if isinstance(a[0], FV):
                return FV([self.builtin(name, [x]) for x in a[0].v])
            if not is_sym(a[0]):
                import math
                return math.sqrt(a[0])
            return npreal.r_sqrt(a[0], require=True)
        if name in ("roundf", "round", "rint", "rintf", "nearbyintf"):
            if isinstance(a[0], FV):
                return FV([self.builtin(name, [x]) for x in a[0].v])
            return self.round_(a[0])
        if name in ("floorf", "floor"):
            if isinstance(a[0], FV):
                return FV([self.builtin(name, [x]) for x in a[0].v])
            return self.floor_(a[0])
        if name in ("ceilf", "ceil"):
            if not is_sym(a[0]):
                import math
                return float(math.ceil(a[0]))
            t = rterm(a[0])
            n = z3.Int(core.fresh_name("ceil"))
            r = z3.ToReal(n)
            self.ex.assume(z3.And(r - 1 < t, t <= r))
            return SReal(r)
        if name in ("fabsf", "fabs", "abs"):
            if isinstance(a[0], FV):
                return FV([abs(x) for x in a[0].v])
            return abs(a[0])
        r = self._sse_builtin(name, a)
        if r is not NotImplemented:
            return r
        if name == "make_pair" and len(a) == 2:
            return StructObj("pair", first=a[0], second=a[1])
        if name == "strlen" and isinstance(a[0], str):
            return len(a[0])
        if name in ("cbrt", "cbrtf"):
            if not is_sym(a[0]):
                import math
                return math.copysign(abs(a[0]) ** (1.0 / 3.0), a[0])
            t = rterm(a[0])
            cb = z3.Function("cbrt", z3.RealSort(), z3.RealSort())(t)
            self.ex.assume(cb * cb * cb == t)  # libm axiom (ground instance): the real cube root
            return SReal(cb)
        if name in ("acosf", "acos"):
            return npreal.r_acos(a[0])
        if name in ("cosf", "cos"):
            return npreal.r_cos(a[0])
        if name in ("sinf", "sin"):
            return npreal.r_sin(a[0])
        if name in ("atan2f", "atan2"):
            return SReal(npreal.ATAN2(rterm(a[0]), rterm(a[1])))
        if name == "dot3":
            return a[0].v[0] * a[1].v[0] + a[0].v[1] * a[1].v[1] + a[0].v[2] * a[1].v[2]
        if name == "dot4":
            return a[0].v[0] * a[1].v[0] + a[0].v[1] * a[1].v[1] + a[0].v[2] * a[1].v[2] + a[0].v[3] * a[1].v[3]
        if name == "cross":
            (x0, x1, x2, _), (y0, y1, y2, _) = a[0].v, a[1].v
            return FV([x1 * y2 - x2 * y1, x2 * y0 - x0 * y2, x0 * y1 - x1 * y0, 0.0])
        if name == "load3":
            p = a[0]
            return FV([p.region.read(p.off + k) for k in range(3)] + [0.0])
        if name == "store3":
            p = a[1]
            for k in range(3):
                p.region.write(p.off + k, a[0].v[k])
            return 0
        if name in ("min", "fminf", "fmin"):
            if isinstance(a[0], FV):
                return a[0].map2(a[1], core.smin)
            return core.smin(a[0], a[1])
        if name in ("max", "fmaxf", "fmax"):
            if isinstance(a[0], FV):
                return a[0].map2(a[1], core.smax)
            return core.smax(a[0], a[1])
        if name == "sort" and len(a) == 2 and all(isinstance(x, VecIter) for x in a) and a[0].vec is a[1].vec:
            # std::sort on a range of records, ordered by the record's own operator<.  Equal elements: libstdc++ sorts ranges of at
            # most 16 elements by insertion sort, which keeps their order -- assumed (recorded) for the small ranges met here
            import functools

            vec = a[0].vec
            seg = vec.items[a[0].i:a[1].i]
            if len(seg) > 16:
                raise Unsupported("std::sort of more than 16 elements (order of equal elements unspecified)")

            def cmp(x, y):
                if self.truth(self.call_record_method(x, "operator<", [y])):
                    return -1
                if self.truth(self.call_record_method(y, "operator<", [x])):
                    return 1
                return 0
            seg.sort(key=functools.cmp_to_key(cmp))
            vec.items[a[0].i:a[1].i] = seg
            return 0
        if name in ("printf", "fprintf", "puts"):
            self.dropped.add(name)
            return 0
        if name == "exit":
            raise CAbort()
        if name in ("malloc", "calloc"):
            # fresh allocation: arbitrary contents (malloc) or all zero (calloc); the element sort is fixed by the cast
            self.alloc_counter = getattr(self, "alloc_counter", 0) + 1
            return ("alloc", name, a, self.alloc_counter)
        if name == "free":
            p = a[0]
            if isinstance(p, Ptr) and p.region is not None:
                p.region.freed = True
            return 0
        if name in ("isnan", "__isnanf", "__builtin_isnan"):
            nan = getattr(self, "nan_value", None)
            if nan is not None and isinstance(a[0], SReal):
                return SBool(z3.simplify(rterm(a[0]) == nan))  # the contract's NaN token (a distinguished value of the cell)
            return False  # reals: no NaN unless a contract says so
        return None

    # ---- SSE intrinsics on __m128 = four float lanes (trusted: Intel's documented lane semantics) ------------------------------------
    def _sse_imm(self, name):
        """immediate of a named shuffle/swizzle helper, read from the REAL header text (mdtraj/rmsd/include/sse_swizzle.h)"""
        tbl = getattr(self, "_sse_imm_tbl", None)
        if tbl is None:
            import re
            tbl = {}
            path = os.path.join(self.repo, "mdtraj/rmsd/include/sse_swizzle.h")
            if os.path.exists(path):
                for m in re.finditer(r"(_mm_(?:shuffle|swizzle)_ps_[xyzw]{4})\s*\([^)]*\)\s*\{\s*return[^;]*?(0x[0-9A-Fa-f]+)\s*\)", open(path).read()):
                    tbl[m.group(1)] = int(m.group(2), 16)
            self._sse_imm_tbl = tbl
        return tbl.get(name)

    def _sse_builtin(self, name, a):
        if name == "__builtin_ia32_shufps":
            imm = a[2] if isinstance(a[2], int) else self.ex.concrete_int(term(a[2]))
            if imm is None:
                raise Unsupported("shufps with a symbolic immediate")
            x, y = a[0].v, a[1].v
            return FV([x[imm & 3], x[(imm >> 2) & 3], y[(imm >> 4) & 3], y[(imm >> 6) & 3]])
        if not name.startswith("_mm_"):
            return NotImplemented
        lanes = lambda v: v.v if isinstance(v, FV) else None
        if name in ("_mm_setzero_ps", "_mm_setzero_pd"):
            return FV([0.0, 0.0, 0.0, 0.0])
        # __m128d (two doubles) is kept in lanes 0 and 1 of the same four-lane value; lanes 2, 3 are unused
        if name == "_mm_cvtps_pd":
            x = lanes(a[0])
            return FV([x[0], x[1], 0.0, 0.0])
        if name == "_mm_add_pd":
            x, y = lanes(a[0]), lanes(a[1])
            return FV([x[0] + y[0], x[1] + y[1], 0.0, 0.0])
        if name in ("_mm_storeu_pd", "_mm_store_pd"):
            p = a[0]
            for k in range(2):
                p.region.write(p.off + k, a[1].v[k])
            return 0
        if name == "_mm_set_ps":  # _mm_set_ps(e3, e2, e1, e0): lane 0 = last argument
            return FV([a[3], a[2], a[1], a[0]])
        if name in ("_mm_set1_ps", "_mm_load1_ps", "_mm_load_ps1"):
            v = a[0].region.read(a[0].off) if isinstance(a[0], Ptr) else (a[0].read(0) if isinstance(a[0], AddrOf) else a[0])
            return FV([v, v, v, v])
        if name in ("_mm_load_ps", "_mm_loadu_ps"):
            p = a[0]
            return FV([p.region.read(p.off + k) for k in range(4)])
        if name in ("_mm_store_ps", "_mm_storeu_ps"):
            p = a[0]
            for k in range(4):
                p.region.write(p.off + k, a[1].v[k])
            return 0
        if name == "_mm_store_ss":
            a[0].region.write(a[0].off, a[1].v[0])
            return 0
        import operator as o
        two = {"_mm_add_ps": o.add, "_mm_sub_ps": o.sub, "_mm_mul_ps": o.mul}
        if name in two:
            return FV([two[name](x, y) for x, y in zip(lanes(a[0]), lanes(a[1]))])
        if name == "_mm_div_ps":
            return FV([self.arith("/", x, y, True) for x, y in zip(lanes(a[0]), lanes(a[1]))])
        if name == "_mm_hadd_ps":
            x, y = lanes(a[0]), lanes(a[1])
            return FV([x[0] + x[1], x[2] + x[3], y[0] + y[1], y[2] + y[3]])
        if name == "_mm_unpacklo_ps":
            x, y = lanes(a[0]), lanes(a[1])
            return FV([x[0], y[0], x[1], y[1]])
        if name == "_mm_unpackhi_ps":
            x, y = lanes(a[0]), lanes(a[1])
            return FV([x[2], y[2], x[3], y[3]])
        if name == "_mm_movehl_ps":
            x, y = lanes(a[0]), lanes(a[1])
            return FV([y[2], y[3], x[2], x[3]])
        if name == "_mm_movelh_ps":
            x, y = lanes(a[0]), lanes(a[1])
            return FV([x[0], x[1], y[0], y[1]])
        if name.startswith("_mm_shuffle_ps_"):
            imm = self._sse_imm(name)
            if imm is None:
                raise Unsupported(f"shuffle helper {name} not found in sse_swizzle.h")
            x, y = lanes(a[0]), lanes(a[1])
            return FV([x[imm & 3], x[(imm >> 2) & 3], y[(imm >> 4) & 3], y[(imm >> 6) & 3]])
        if name.startswith("_mm_swizzle_ps_"):
            imm = self._sse_imm(name)
            if imm is None:
                raise Unsupported(f"swizzle helper {name} not found in sse_swizzle.h")
            x = lanes(a[0])
            return FV([x[(imm >> (2 * k)) & 3] for k in range(4)])
        if name == "_mm_add3_ps":
            return NotImplemented
        raise Unsupported(f"SSE intrinsic {name}")

    def round_(self, x):
        if not is_sym(x):
            import math
            return float(math.floor(abs(x) + 0.5) * (1 if x >= 0 else -1))
        t = rterm(x)
        n = z3.Int(core.fresh_name("rnd"))
        r = z3.ToReal(n)
        # libm axiom, ground instance: roundf(y) is an integer n with |n - y| <= 1/2 (the result IS the witness term)
        self.ex.assume(z3.And(r - t <= z3.RealVal("1/2"), t - r <= z3.RealVal("1/2")))
        self.ex.path.ghost.setdefault("round_witness", []).append((t, n))
        return SReal(r)

    def floor_(self, x):
        if not is_sym(x):
            import math
            return float(math.floor(x))
        t = rterm(x)
        n = z3.Int(core.fresh_name("flr"))
        r = z3.ToReal(n)
        self.ex.assume(z3.And(r <= t, t < r + 1))
        self.ex.path.ghost.setdefault("floor_witness", []).append((t, n))
        return SReal(r)

    # ---- statements ------------------------------------------------------------------
    def stmt(self, n, env):
        k = n.get("kind")
        if k is None:
            return
        m = getattr(self, "s_" + k, None)
        if m is None:
            # expression statement
            self.expr(n, env)
            return
        return m(n, env)

    def s_CompoundStmt(self, n, env):
        for c in n.get("inner", []):
            self.stmt(c, env)

    def s_NullStmt(self, n, env):
        pass

    def s_SwitchStmt(self, n, env):
        inner = [c for c in n.get("inner", []) if c.get("kind")]
        cond = self.rv(self.expr(inner[0], env))
        body = inner[-1]
        stmts = body.get("inner", []) if body.get("kind") == "CompoundStmt" else [body]
        # flatten `case A: case B: stmt` chains into (labels, statement) entries, keeping statement order for fall-through
        flat = []
        for st in stmts:
            labels = []
            while st.get("kind") in ("CaseStmt", "DefaultStmt"):
                if st["kind"] == "CaseStmt":
                    labels.append(self.rv(self.expr(st["inner"][0], env)))
                    st = st["inner"][-1]
                else:
                    labels.append("default")
                    st = st["inner"][-1]
            flat.append((labels, st))
        start = None
        for k, (labels, _st) in enumerate(flat):
            for lab in labels:
                if lab == "default":
                    continue
                if self.truth(cond == lab):
                    start = k
                    break
            if start is not None:
                break
        if start is None:
            for k, (labels, _st) in enumerate(flat):
                if "default" in labels:
                    start = k
                    break
        if start is None:
            return
        try:
            for _labels, st in flat[start:]:
                self.stmt(st, env)
        except CBreak:
            pass

    def e_CharacterLiteral(self, n, env):
        return int(n["value"])

    def s_DeclStmt(self, n, env):
        for d in n.get("inner", []):
            if d.get("kind") != "VarDecl":
                continue
            qt = d.get("type", {}).get("qualType", "")
            if d.get("storageClass") == "static" and not qt.strip().startswith("const ") and " const" not in qt:
                # state that persists across calls: needs a contract-supplied invariant for the value on entry
                st = getattr(self, "static_state", {})
                if d.get("name") not in st:
                    raise Unsupported(f"static local variable `{d.get('name')}` (state persisting across calls; no invariant supplied by the contract)")
                env.setdefault("#names", {})[d.get("name")] = d["id"]
                env[d["id"]] = st[d.get("name")]
                continue
            env.setdefault("#names", {})[d.get("name")] = d["id"]
            init = d.get("inner", [])
            init = [c for c in init if c.get("kind") not in (None,)]
            if "[" in qt and qt.rstrip().endswith("]"):
                size = int(qt[qt.index("[") + 1: qt.index("]")])  # outermost dimension
                r = Region(d["name"], "real" if ("float" in qt or "double" in qt) else "int", size)
                r.local = [None] * size
                elem = qt[: qt.index("[")].replace("struct ", "").strip()
                if elem in getattr(self, "struct_types", {}):
                    r.local = [StructObj(elem, **{f: None for f in self.struct_types[elem]}) for _ in range(size)]
                if init and init[0].get("kind") == "InitListExpr":
                    vals = [self.rv(self.expr(c, env)) for c in init[0].get("inner", [])]
                    for i, v in enumerate(vals):
                        if isinstance(v, list):  # a row of a two-dimensional array: its own region, the outer cell decays to a pointer to it
                            row = Region(f"{d['name']}[{i}]", r.sort, len(v))
                            row.local = list(v)
                            v = Ptr(row, 0)
                        r.local[i] = v
                    for i in range(len(vals), size):
                        r.local[i] = 0
                env[d["id"]] = Ptr(r, 0)
                continue
            if init:
                v = self.rv(self.expr(init[0], env))
                if isinstance(v, FV):
                    v = FV(v.v)
                v = self.coerce(v, qt)
            else:
                v = FV([None] * 4) if "fvec4" in qt else (StdVector() if ("vector" in qt and "iterator" not in qt) else None)
                plain = qt.replace("struct ", "").strip()
                if plain in getattr(self, "struct_types", {}):
                    # an uninitialised local C struct: fields hold nothing until assigned
                    v = StructObj(plain, **{f: None for f in self.struct_types[plain]})
            if self.decl_hook:
                v = self.decl_hook(self, env, d.get("name"), v)
            env[d["id"]] = v

    def _trunc(self, v):
        if isinstance(v, (float, int)):
            return int(v)
        if isinstance(v, SNum):
            # C conversion truncates toward zero (the value is assumed to fit the integer type): witness n
            t = rterm(v)
            n = z3.Int(core.fresh_name("trunc"))
            r = z3.ToReal(n)
            self.ex.assume(z3.If(t >= 0, z3.And(r <= t, t < r + 1), z3.And(r - 1 < t, t <= r)))
            self.ex.path.ghost.setdefault("trunc_witness", []).append((t, n))
            return SInt(n)
        raise Unsupported("float to int conversion of this value")

    def coerce(self, v, qt):
        base = qt.replace("const", "").strip()
        if base in ("int", "unsigned int", "long", "size_t") and isinstance(v, (float, SReal)):
            return self._trunc(v)
        if base == "bool" and isinstance(v, Ptr):
            return v.region is not None
        return v

    def s_ReturnStmt(self, n, env):
        inner = n.get("inner", [])
        raise CReturn(self.rv(self.expr(inner[0], env)) if inner else None)

    def s_BreakStmt(self, n, env):
        raise CBreak()

    def s_ContinueStmt(self, n, env):
        raise CContinue()

    def s_IfStmt(self, n, env):
        inner = n.get("inner", [])
        cond = self.rv(self.expr(inner[0], env))
        if isinstance(cond, SBool) and self._mergeable(inner[1]) and (len(inner) < 3 or self._mergeable(inner[2])):
            c = z3.simplify(cond.t)
            if not (z3.is_true(c) or z3.is_false(c)):
                return self._merge_if(c, inner, env)
        if self.truth(cond):
            self.stmt(inner[1], env)
        elif len(inner) > 2:
            self.stmt(inner[2], env)

    def _mergeable(self, n):
        """straight-line scalar/fvec4 assignments only: both branches are executed and joined with If-terms
        (state merging; avoids 2^27 paths in the 27-image minimum search)"""
        k = n.get("kind")
        if k in ("ForStmt", "WhileStmt", "DoStmt", "ReturnStmt", "BreakStmt", "ContinueStmt", "CallExpr", "CXXMemberCallExpr",
                 "IfStmt", "DeclStmt"):
            return False
        if k == "UnaryOperator" and n.get("opcode") in ("*", "++", "--"):
            return False
        if k == "ArraySubscriptExpr":
            return False
        # SOUNDNESS: the merge joins the *variables* of the two branches; a store through anything else (a struct field, `this->x`,
        # an fvec4 member) would survive the branch that does not execute it, so such branches are explored as separate paths
        assign_ops = ("=", "+=", "-=", "*=", "/=", "%=", "&=", "|=", "^=", "<<=", ">>=")
        opname = ""
        if k == "CXXOperatorCallExpr" and n.get("inner"):
            cal = n["inner"][0]
            while cal.get("kind") in ("ParenExpr", "ImplicitCastExpr") and cal.get("inner"):
                cal = cal["inner"][0]
            opname = cal.get("referencedDecl", {}).get("name", "")
        if (k in ("BinaryOperator", "CompoundAssignOperator") and n.get("opcode") in assign_ops) or \
                (opname.startswith("operator") and opname[len("operator"):] in assign_ops):
            tgt = n["inner"][0] if k != "CXXOperatorCallExpr" else n["inner"][1]
            while tgt.get("kind") in ("ParenExpr", "ImplicitCastExpr") and tgt.get("inner"):
                tgt = tgt["inner"][0]
            if tgt.get("kind") != "DeclRefExpr":
                return False
        return all(self._mergeable(c) for c in n.get("inner", []))

    def _merge_if(self, c, inner, env):
        def snap():
            return {k: (FV(v.v) if isinstance(v, FV) else v) for k, v in env.items() if k != "#names"}
        before = snap()
        self.stmt(inner[1], env)
        then_env = snap()
        for k, v in before.items():
            env[k] = FV(v.v) if isinstance(v, FV) else v
        if len(inner) > 2:
            self.stmt(inner[2], env)
        else_env = snap()

        def ite(a, b):
            if a is b:
                return a
            if isinstance(a, FV) and isinstance(b, FV):
                return FV([ite(x, y) for x, y in zip(a.v, b.v)])
            if isinstance(a, (int, float, SNum)) and isinstance(b, (int, float, SNum)):
                if not is_sym(a) and not is_sym(b) and a == b:
                    return a
                ta, tb = term(a), term(b)
                if z3.is_real(ta) or z3.is_real(tb):
                    ta, tb = rterm(a), rterm(b)
                    return SReal(z3.If(c, ta, tb))
                return SInt(z3.If(c, ta, tb))
            if isinstance(a, (bool, SBool)) and isinstance(b, (bool, SBool)):
                return SBool(z3.If(c, core.as_bool_term(a), core.as_bool_term(b)))
            raise Unsupported("cannot merge branch values")
        for k in set(then_env) | set(else_env):
            if k in then_env and k in else_env:
                v = ite(then_env[k], else_env[k])
                if self.relational_merge and v is not then_env[k]:
                    v = self._name_merged(v)
                env[k] = v
        if self.merge_hook:
            self.merge_hook(self, env, c, inner)

    relational_merge = False
    merge_pure = True  # side-effect-free &&, ||, ?: become one term instead of two paths (a contract that needs polynomial terms turns it off)
    merge_hook = None
    decl_hook = None
    assign_hook = None  # assign_hook(interp, env, variable name, value) -> value | None, for `name = expr;` on a named variable

    def name_value(self, v, stem):
        """cut: replace a value by fresh constants defined equal to it (keeps later terms small)"""
        if isinstance(v, FV):
            return FV([self.name_value(x, f"{stem}{i}") for i, x in enumerate(v.v)])
        if isinstance(v, SReal):
            k = z3.Real(core.fresh_name(stem))
            self.ex.assume(k == v.t)
            return SReal(k)
        return v

    def _name_merged(self, v):
        """relational encoding of a join: the merged value becomes a fresh constant defined by the If-term
        (keeps terms small: 27 nested joins stay 27 small definitions instead of one term of depth 27)"""
        if isinstance(v, FV):
            return FV([self._name_merged(x) for x in v.v])
        if isinstance(v, SReal) and z3.is_app_of(v.t, z3.Z3_OP_ITE):
            k = z3.Real(core.fresh_name("join"))
            self.ex.assume(k == v.t)
            return SReal(k)
        if isinstance(v, SInt) and z3.is_app_of(v.t, z3.Z3_OP_ITE):
            k = z3.Int(core.fresh_name("join"))
            self.ex.assume(k == v.t)
            return SInt(k)
        return v

    def _loop_key(self):
        i = self.loop_counter.get("n", 0)
        self.loop_counter["n"] = i + 1
        return (self.fname, i)

    def s_ForStmt(self, n, env):
        init, condvar, cond, inc, body = (n.get("inner", []) + [{}] * 5)[:5]
        key = self._loop_key()
        if init.get("kind"):
            self.stmt(init, env)
        spec = self.loop_specs.get(key)
        if spec is not None:
            return self._loop_inv(key, spec, cond, inc, body, env)
        saved = dict(self.loop_counter)
        count = 0
        while True:
            if cond.get("kind"):
                c = self.rv(self.expr(cond, env))
                if is_sym(c) and self.ex.concrete_int(z3.If(core.as_bool_term(c), z3.IntVal(1), z3.IntVal(0))) is None:
                    # a condition such as `k < n % 4` with n = 4q + r is symbolic as a term but DETERMINED by the path condition
                    d = self.ex.determined_int(z3.If(core.as_bool_term(c), z3.IntVal(1), z3.IntVal(0)))
                    if d is None:
                        raise Unsupported(f"loop {key} has a symbolic bound and no invariant")
                    c = bool(d)
                if not self.truth(c):
                    break
            count += 1
            if count > self.unroll_limit:
                raise Unsupported(f"loop {key} exceeds the unroll limit")
            inner_counter = dict(saved)
            self.loop_counter = inner_counter
            try:
                self.stmt(body, env)
            except CBreak:
                break
            except CContinue:
                pass
            finally:
                saved_after = self.loop_counter
            if inc.get("kind"):
                self.expr(inc, env)
        self.loop_counter = saved_after if count else self._skip_loops(body, saved)

    def _skip_loops(self, body, counter):
        # a loop that executes zero times still numbers the loops nested in its body
        def count(n):
            c = 1 if n.get("kind") in ("ForStmt", "WhileStmt", "DoStmt") else 0
            return c + sum(count(x) for x in n.get("inner", []))
        d = dict(counter)
        d["n"] = d.get("n", 0) + count(body)
        return d

    def s_WhileStmt(self, n, env):
        cond, body = n.get("inner", [])[:2]
        key = self._loop_key()
        spec = self.loop_specs.get(key)
        if spec is not None:
            return self._loop_inv(key, spec, cond, {}, body, env)
        saved = dict(self.loop_counter)
        count = 0
        saved_after = None
        while True:
            c = self.rv(self.expr(cond, env))
            if not self.truth(c):
                break
            count += 1
            if count > self.unroll_limit:
                raise Unsupported(f"loop {key} exceeds the unroll limit")
            self.loop_counter = dict(saved)
            try:
                self.stmt(body, env)
            except CBreak:
                saved_after = self.loop_counter
                break
            except CContinue:
                pass
            saved_after = self.loop_counter
        self.loop_counter = saved_after if saved_after is not None else self._skip_loops(body, saved)

    def _assigned_vars(self, node, declared, out):
        """ids (with declared type) of the variables assigned anywhere in `node`; variables declared inside it are skipped"""
        if not isinstance(node, dict):
            return
        k = node.get("kind")
        if k == "VarDecl":
            declared.add(node.get("id"))
        tgt = None
        if k == "BinaryOperator" and node.get("opcode") == "=":
            tgt = node["inner"][0]
        elif k == "CompoundAssignOperator":
            tgt = node["inner"][0]
        elif k == "UnaryOperator" and node.get("opcode") in ("++", "--"):
            tgt = node["inner"][0]
        elif k == "CXXOperatorCallExpr":
            inner = node.get("inner", [])
            callee = inner[0] if inner else {}
            nm = ""
            c = callee
            while isinstance(c, dict) and not nm:
                nm = (c.get("referencedDecl") or {}).get("name", "")
                c = (c.get("inner") or [None])[0]
            if nm in ("operator=", "operator+=", "operator-=", "operator*=", "operator/=", "operator++", "operator--") and len(inner) > 1:
                tgt = inner[1]
        while isinstance(tgt, dict) and tgt.get("kind") in ("ParenExpr", "ImplicitCastExpr"):
            tgt = (tgt.get("inner") or [None])[0]
        if isinstance(tgt, dict) and tgt.get("kind") == "DeclRefExpr":
            rd = tgt.get("referencedDecl", {})
            out[rd.get("id")] = (rd.get("name"), rd.get("type", {}).get("qualType", ""))
        for c in node.get("inner", []) or []:
            self._assigned_vars(c, declared, out)

    def _auto_havoc(self, body, inc, env, where):
        declared, assigned = set(), {}
        self._assigned_vars(body, declared, assigned)
        self._assigned_vars(inc, declared, assigned)
        for vid, (name, qt) in assigned.items():
            if vid in declared or vid not in env:
                continue
            base = qt.replace("const", "").strip()
            tag = f"{name}@{where}"
            if base == "bool":
                env[vid] = SBool(z3.Bool(core.fresh_name(tag)))
            elif base in ("int", "unsigned int", "long", "size_t", "unsigned long", "short", "char"):
                env[vid] = SInt(z3.Int(core.fresh_name(tag)))
            elif base in ("float", "double"):
                env[vid] = SReal(z3.Real(core.fresh_name(tag)))
            elif "fvec4" in base:
                env[vid] = FV([SReal(z3.Real(core.fresh_name(f"{tag}.{k}"))) for k in range(4)])
            else:
                env[vid] = Poison(f"{name} (modified in {where}; its value at an arbitrary iteration is not given by the loop contract)")

    def _loop_inv(self, key, spec, cond, inc, body, env):
        ex = self.ex
        where = f"{key[0]}:loop#{key[1]}"
        ghost = {"entry": True}
        for name, c in spec.invariant(self, env, ghost):
            ex.require(f"{where}:inv-entry:{name}", c, kind="loop-inv")
        saved = dict(self.loop_counter)
        pres = ex.branch(z3.Bool(core.fresh_name(f"explore-body-of-{where}")))
        ghost = {"entry": False}
        # SOUNDNESS: every variable the loop assigns (body, increment) is set to an arbitrary value of its type BEFORE the contract's
        # own havoc runs, so a variable the contract does not know about (e.g. introduced by a code change) is not silently kept at its
        # pre-loop value.  Pointers and containers get a poison value whose use is refused.
        self._auto_havoc(body, inc, env, where)
        snap = [(r, r.mem) for r in Region.ALL if r.local is None]
        for a in spec.havoc(self, env, ghost) or []:
            ex.assume(a)
        kept = [r for (r, m) in snap if r.mem is m]  # regions whose contents the contract left as they were before the loop
        marks = [(r, len(r.writes), len(r.reads)) for r in kept]
        shared = ex.__dict__.setdefault("loop_written", {})
        for name, c in spec.invariant(self, env, ghost):
            ex.assume(c)
        if pres:
            if cond.get("kind"):
                if not self.truth(self.rv(self.expr(cond, env))):
                    raise core.Infeasible()
            try:
                self.stmt(body, env)
            except CContinue:
                pass
            except CBreak:
                ex.path.tags["loop-exit-by-break"] = where
                self.loop_counter = self._skip_loops(body, saved)
                return
            # SOUNDNESS: a region the body writes must have been given arbitrary (or invariant-described) contents by the contract
            # at the loop head if the body also reads it; reads after the loop are refused on the exit path (see below)
            for r, nw, nr in marks:
                if len(r.writes) > nw or (r.writes and nw and r.mem is not dict((id(x), m) for x, m in snap).get(id(r))):
                    shared.setdefault(where, set()).add(r.name)
                    if len(r.reads) > nr:
                        raise Unsupported(f"{where} both reads and writes `{r.name}` but its contract does not describe that region's contents at an arbitrary iteration")
            if spec.at_end:
                spec.at_end(self, env, ghost)
            if inc.get("kind"):
                self.expr(inc, env)
            ghost["after"] = True
            for name, c in spec.invariant(self, env, ghost):
                ex.require(f"{where}:inv-preserved:{name}", c, kind="loop-inv")
            ex.path.tags["loop-preservation-path"] = where
            raise core.PathEnd()
        else:
            if cond.get("kind"):
                if self.truth(self.rv(self.expr(cond, env))):
                    raise core.Infeasible()
            for r in kept:
                if r.name in shared.get(where, ()):
                    r.stale = where  # written by the loop, contents after it not described: later reads are refused
            if spec.exit_state:
                spec.exit_state(self, env, ghost)
            self.loop_counter = self._skip_loops(body, saved)

    # ---- expressions -----------------------------------------------------------------
    def expr(self, n, env):
        k = n.get("kind")
        m = getattr(self, "e_" + k, None)
        if m is None:
            raise Unsupported(f"C expression kind {k}")
        return m(n, env)

    def _pass(self, n, env):
        self.dropped.add(n["kind"])
        return self.expr(n["inner"][0], env)

    e_ParenExpr = e_MaterializeTemporaryExpr = e_ExprWithCleanups = e_CXXBindTemporaryExpr = e_ConstantExpr = _pass

    def e_StringLiteral(self, n, env):
        return str(n.get("value", ""))

    def e_IntegerLiteral(self, n, env):
        return int(n["value"])

    def e_FloatingLiteral(self, n, env):
        return float(n["value"])

    def e_CXXBoolLiteralExpr(self, n, env):
        return bool(n["value"])

    def e_GNUNullExpr(self, n, env):
        return NULL

    def e_CXXNullPtrLiteralExpr(self, n, env):
        return NULL

    def e_DeclRefExpr(self, n, env):
        rd = n.get("referencedDecl", {})
        if rd.get("kind") == "FunctionDecl" or rd.get("kind") == "CXXMethodDecl":
            return ("function", rd.get("name"))
        vid = rd.get("id")
        if vid not in env:
            if rd.get("kind") == "EnumConstantDecl":
                # enumerators are only ever compared for equality in the code under contract: an injective numbering
                # (order of first use, offset so that it cannot be confused with small literal integers) is a sound model
                tbl = ENUM_IDS
                if rd.get("name") not in tbl:
                    tbl[rd.get("name")] = 1000 + len(tbl)
                return tbl[rd.get("name")]
            if rd.get("name") in ("stderr", "stdout"):
                return ("stream", rd.get("name"))
            raise Unsupported(f"reference to unknown variable {rd.get('name')}")

        def setter(v, vid=vid):
            env[vid] = v
        return LRef(lambda vid=vid: env[vid], setter)

    def e_ImplicitCastExpr(self, n, env):
        ck = n.get("castKind")
        x = self.expr(n["inner"][0], env)
        if ck == "LValueToRValue":
            v = self.rv(x)
            return v
        if ck in ("NoOp", "FloatingCast", "IntegralToFloating", "ArrayToPointerDecay", "FunctionToPointerDecay", "BuiltinFnToFnPtr",
                  "ConstructorConversion", "UserDefinedConversion", "BitCast", "DerivedToBase", "UncheckedDerivedToBase"):
            self.dropped.add("cast:" + ck)
            v = self.rv(x) if ck in ("FloatingCast", "IntegralToFloating") else x
            if ck == "IntegralToFloating" and isinstance(v, int) and not isinstance(v, bool):
                return float(v)
            if ck == "IntegralToFloating" and isinstance(v, SInt):
                return SReal(z3.ToReal(v.t))
            return v
        if ck == "IntegralCast":
            return self.rv(x)
        if ck in ("PointerToBoolean",):
            return self.rv(x).region is not None
        if ck in ("IntegralToBoolean", "FloatingToBoolean"):
            v = self.rv(x)
            return v != 0
        if ck == "NullToPointer":
            return NULL
        if ck == "FloatingToIntegral":
            return self._trunc(self.rv(x))
        raise Unsupported(f"cast kind {ck}")

    def e_CStyleCastExpr(self, n, env):
        x = self.rv(self.expr(n["inner"][0], env))
        qt = n.get("type", {}).get("qualType", "")
        if isinstance(x, tuple) and x and x[0] == "alloc":
            pointee = qt.replace("*", "").replace("struct ", "").strip()
            if pointee in getattr(self, "struct_types", {}):
                fill = 0 if x[1] == "calloc" else None
                return StructObj(pointee, **{f: fill for f in self.struct_types[pointee]})
            sort = "real" if ("float" in qt or "double" in qt) else "int"
            nm = core.fresh_name(f"{x[1]}#{x[3]}")
            if x[1] == "calloc":
                r = Region(nm, sort, init=z3.K(z3.IntSort(), z3.RealVal(0) if sort == "real" else z3.IntVal(0)))
            else:
                r = Region(nm, sort)
            r.alloc = (x[1], x[2])
            self.allocs = getattr(self, "allocs", [])
            self.allocs.append(r)
            return Ptr(r, 0)
        if qt.rstrip().endswith("*") and isinstance(x, int) and not isinstance(x, bool) and x == 0:
            return NULL  # ((void *) 0)
        return self.coerce(x, qt) if qt in ("int", "float", "double") else x

    e_CXXFunctionalCastExpr = e_CStyleCastExpr
    e_CXXStaticCastExpr = e_CStyleCastExpr

    def _sizeof_type(self, qt):
        import re
        sizes = {"float": 4, "int": 4, "double": 8, "char": 1, "unsigned int": 4, "long": 8, "size_t": 8, "unsigned long": 8, "mybool": 4}
        sizes.update(getattr(self, "type_sizes", {}))  # typedef'd array types declared by the contract (e.g. rvec = float[3])
        qt = qt.replace("const ", "").strip()
        if qt in sizes:
            return sizes[qt]
        m = re.match(r"^(\w[\w ]*?)\s*((?:\[\d+\])+)$", qt)
        if m and m.group(1).strip() in sizes:
            nel = 1
            for d in re.findall(r"\[(\d+)\]", m.group(2)):
                nel *= int(d)
            return sizes[m.group(1).strip()] * nel
        if qt in getattr(self, "struct_types", {}):
            return ("sizeof-struct", qt)  # only meaningful as an allocation size
        return None

    def e_UnaryExprOrTypeTraitExpr(self, n, env):
        if n.get("name") == "sizeof":
            qt = (n.get("argType") or {}).get("qualType", "")
            if not qt and n.get("inner"):
                t = n["inner"][0].get("type", {})
                qt = t.get("desugaredQualType") or t.get("qualType", "")
                while n["inner"][0].get("kind") == "ParenExpr" and not qt:
                    n = n["inner"][0]
            r = self._sizeof_type(qt)
            if r is None and n.get("inner"):
                t = n["inner"][0].get("type", {})
                r = self._sizeof_type(t.get("qualType", ""))
            if r is not None:
                return r
        raise Unsupported(f"sizeof/alignof of {n.get('argType') or (n.get('inner') or [{}])[0].get('type')}")

    # ---- user-defined records (struct Bridge ...) -----------------------------------------------------------------------
    def copy_value(self, v):
        """C++ value semantics for what the interpreter stores by reference"""
        if isinstance(v, StructObj) and getattr(v, "record", None):
            o = StructObj(v.name, **{k: self.copy_value(x) for k, x in v.fields.items()})
            o.record = v.record
            return o
        if isinstance(v, StdVector):
            return StdVector([self.copy_value(x) for x in v.items])
        if isinstance(v, FV):
            return FV(v.v)
        return v

    def construct_record(self, rname, args, preset=None):
        rec = self.records[rname]
        if len(args) == 1 and isinstance(args[0], StructObj) and getattr(args[0], "record", None) == rname:
            return self.copy_value(args[0])  # copy construction
        ctors = [c for c in rec.get("inner", []) if c.get("kind") == "CXXConstructorDecl" and not c.get("isImplicit")]
        ctors = [c for c in ctors if len([p for p in c.get("inner", []) if p.get("kind") == "ParmVarDecl"]) == len(args)]
        if len(ctors) != 1:
            raise Unsupported(f"no unique constructor of {rname} with {len(args)} arguments")
        cd = ctors[0]
        obj = StructObj(rname)
        obj.record = rname
        for f in rec.get("inner", []):
            if f.get("kind") == "FieldDecl":
                fq = f.get("type", {}).get("qualType", "")
                obj.fields[f["name"]] = StdVector() if ("deque" in fq or "vector" in fq) else None
                if "[" in fq and fq.rstrip().endswith("]") and "(" not in fq:
                    size = int(fq[fq.index("[") + 1: fq.index("]")])  # member array: a small local region, elements unset
                    r = Region(f"{rname}.{f['name']}", "real" if ("float" in fq or "double" in fq) else "int", size)
                    r.local = [None] * size
                    obj.fields[f["name"]] = Ptr(r, 0)
        obj.fields.update(preset or {})  # abstract views of container fields, supplied by the contract
        env = {"#names": {}, "#this": obj}
        params = [c for c in cd.get("inner", []) if c.get("kind") == "ParmVarDecl"]
        for p_, a in zip(params, args):
            env[p_["id"]] = a
            env["#names"][p_.get("name")] = p_["id"]
        for ini in [c for c in cd.get("inner", []) if c.get("kind") == "CXXCtorInitializer"]:
            fld = ini.get("anyInit", {}).get("name")
            if fld is None:
                raise Unsupported("base-class initialiser")
            if fld in (preset or {}):
                continue  # the contract's abstract view stands for this (default-constructed) container
            obj.fields[fld] = self.copy_value(self.rv(self.expr(ini["inner"][0], env)))
        body = [c for c in cd.get("inner", []) if c.get("kind") == "CompoundStmt"]
        if body:
            prev, prevc = self.fname, self.loop_counter
            self.fname, self.loop_counter = rname + "::" + rname, {}
            try:
                self.stmt(body[0], env)
            finally:
                self.fname, self.loop_counter = prev, prevc
        return obj

    def call_record_method(self, obj, mname, args):
        rec = self.records[obj.record]
        ms = [c for c in rec.get("inner", []) if c.get("kind") == "CXXMethodDecl" and c.get("name") == mname and not c.get("isImplicit")]
        if len(ms) != 1:
            raise Unsupported(f"method {obj.record}::{mname}")
        md = ms[0]
        env = {"#names": {}, "#this": obj}
        for p_, a in zip([c for c in md.get("inner", []) if c.get("kind") == "ParmVarDecl"], args):
            env[p_["id"]] = a
            env["#names"][p_.get("name")] = p_["id"]
        body = [c for c in md.get("inner", []) if c.get("kind") == "CompoundStmt"][0]
        prev, prevc = self.fname, self.loop_counter
        self.fname, self.loop_counter = obj.record + "::" + mname, {}
        try:
            self.stmt(body, env)
        except CReturn as r:
            return r.v
        finally:
            self.fname, self.loop_counter = prev, prevc
        return None

    def e_CXXThisExpr(self, n, env):
        return env["#this"]

    def e_InitListExpr(self, n, env):
        return [self.rv(self.expr(c, env)) for c in n.get("inner", [])]

    def mem_ref(self, p, idx):
        if isinstance(p, AddrOf) and (idx == 0 or (isinstance(idx, int) and idx == 0)):
            return p.ref  # *(&lvalue) is the lvalue itself (out-parameters)
        if not isinstance(p, Ptr) or p.region is None:
            raise Unsupported("dereference of a non-pointer / NULL")
        i = p.off + idx
        return LRef(lambda: p.region.read(i), lambda v: p.region.write(i, v), ptr=Ptr(p.region, i))

    def e_ArraySubscriptExpr(self, n, env):
        base = self.rv(self.expr(n["inner"][0], env))
        idx = self.rv(self.expr(n["inner"][1], env))
        if isinstance(base, StdVector):
            i = idx if isinstance(idx, int) else core.current().concrete_int(term(idx))
            return LRef(lambda: base.items[i], lambda v: base.items.__setitem__(i, v))
        # element type that is itself an array (float (*x)[3], matrix rows): the element has a stride and decays to a pointer
        t = n.get("type", {})
        et = (t.get("desugaredQualType") or t.get("qualType", "")).replace("const ", "").strip()
        et = getattr(self, "type_arrays", {}).get(et, et)
        import re as _re
        m = _re.match(r"^\w+\s*\[(\d+)\]$", et)
        if isinstance(base, Ptr) and base.region is not None and base.region.local is not None and is_sym(idx):
            # a small local table indexed by an expression the path condition determines (masks[n % 4])
            v = self.ex.determined_int(term(idx))
            if v is not None:
                idx = v
        flat = isinstance(base, Ptr) and base.region is not None and (base.region.local is None or not any(isinstance(x, (Region, Ptr)) for x in base.region.local))
        if m and flat:
            stride = int(m.group(1))
            return Ptr(base.region, base.off + idx * stride)
        return self.mem_ref(base, idx)

    def e_UnaryOperator(self, n, env):
        op = n["opcode"]
        x = self.expr(n["inner"][0], env)
        if op == "*":
            return self.mem_ref(self.rv(x), 0)
        if op == "&":
            if isinstance(x, LRef):
                if x.ptr is not None:
                    return x.ptr
                return AddrOf(x)
            raise Unsupported("address-of")
        if op in ("++", "--"):
            old = x.get()
            d = 1 if op == "++" else -1
            new = old.add(d) if isinstance(old, Ptr) else old + d
            x.set(new)
            return old if n.get("isPostfix") else new
        v = self.rv(x)
        if op == "-":
            return -v if not isinstance(v, FV) else FV([-a for a in v.v])
        if op == "+":
            return v
        if op == "!":
            if isinstance(v, SBool):
                return ~v
            return not self.truth(v)
        raise Unsupported(f"unary {op}")

    def arith(self, op, a, b, is_float):
        if a is None or b is None:
            raise Unsupported("arithmetic on an uninitialised variable (undefined behaviour in C)")
        if isinstance(a, Ptr) or isinstance(b, Ptr):
            if op == "+":
                return a.add(b) if isinstance(a, Ptr) else b.add(a)
            if op == "-" and isinstance(a, Ptr) and not isinstance(b, Ptr):
                return a.add(-b)
            if op in ("==", "!="):
                same = (a.region is b.region) and (a.region is None or a.off is b.off or a.off == b.off)
                return same if op == "==" else not same
            raise Unsupported("pointer arithmetic " + op)
        if op == "+":
            return a + b
        if op == "-":
            return a - b
        if op == "*":
            return a * b
        if op == "/":
            if is_float or isinstance(a, (float, SReal)) or isinstance(b, (float, SReal)):
                if not is_sym(a) and not is_sym(b):
                    return a / b
                return (SReal(rterm(a)) if not isinstance(a, SReal) else a) / b
            if isinstance(a, int) and isinstance(b, int):
                q = abs(a) // abs(b)
                return q if (a >= 0) == (b >= 0) else -q
            self.ex.require_nonzero(term(b))
            return SInt(z3.simplify(_ctrunc_div(term(a), term(b))))
        if op == "%":
            if isinstance(a, int) and isinstance(b, int):
                r = abs(a) % abs(b)
                return r if a >= 0 else -r
            self.ex.require_nonzero(term(b))
            q = _ctrunc_div(term(a), term(b))
            return SInt(z3.simplify(term(a) - term(b) * q))
        if op in ("&", "|", "^", "<<", ">>"):
            if isinstance(a, bool):
                a = int(a)
            if isinstance(b, bool):
                b = int(b)
            if isinstance(a, int) and isinstance(b, int):
                import operator as _o2
                return {"&": _o2.and_, "|": _o2.or_, "^": _o2.xor, "<<": _o2.lshift, ">>": _o2.rshift}[op](a, b)
            raise Unsupported(f"bitwise {op} on a symbolic integer (flags are concrete per case in the contracts)")
        nan = getattr(self, "nan_value", None)
        if nan is not None and op in ("<", "<=", ">", ">=", "==", "!=") and (isinstance(a, SReal) or isinstance(b, SReal)):
            # IEEE comparisons with the contract's NaN token: every ordered comparison and == is false, != is true
            import operator as _o
            f = {"<": _o.lt, "<=": _o.le, ">": _o.gt, ">=": _o.ge, "==": _o.eq, "!=": _o.ne}[op]
            res = core.as_bool_term(f(a, b))
            isn = z3.Or(*[rterm(x) == nan for x in (a, b) if isinstance(x, SReal)])
            return SBool(z3.simplify(z3.Or(res, isn) if op == "!=" else z3.And(res, z3.Not(isn))))
        if op == "<":
            return a < b
        if op == "<=":
            return a <= b
        if op == ">":
            return a > b
        if op == ">=":
            return a >= b
        if op == "==":
            return a == b
        if op == "!=":
            return a != b
        raise Unsupported(f"binary {op}")

    def e_BinaryOperator(self, n, env):
        op = n["opcode"]
        if op == "=":
            lhs = self.expr(n["inner"][0], env)
            v = self.rv(self.expr(n["inner"][1], env))
            if isinstance(v, FV):
                v = FV(v.v)
            v = self.coerce(v, n.get("type", {}).get("qualType", ""))
            if self.assign_hook:
                tgt = n["inner"][0]
                if tgt.get("kind") == "DeclRefExpr":
                    v2 = self.assign_hook(self, env, tgt.get("referencedDecl", {}).get("name"), v)
                    v = v if v2 is None else v2
            lhs.set(v)
            return v
        if op in ("&&", "||"):
            a = self.rv(self.expr(n["inner"][0], env))
            if self.merge_pure and isinstance(a, (SBool, SNum)) and self._pure(n["inner"][1]):
                # both operands free of side effects and traps: one Boolean term instead of two paths (falls back to forking if the
                # right operand cannot be evaluated in the current state)
                at = core.as_bool_term(a)
                if not (z3.is_true(z3.simplify(at)) or z3.is_false(z3.simplify(at))):
                    try:
                        b = self.rv(self.expr(n["inner"][1], env))
                        bt = z3.BoolVal(b) if isinstance(b, bool) else core.as_bool_term(b)
                        return SBool(z3.simplify(z3.And(at, bt) if op == "&&" else z3.Or(at, bt)))
                    except Unsupported:
                        pass
            if op == "&&":
                if not self.truth(a):
                    return False
                return self.truth(self.rv(self.expr(n["inner"][1], env)))
            if self.truth(a):
                return True
            return self.truth(self.rv(self.expr(n["inner"][1], env)))
        if op == ",":
            self.expr(n["inner"][0], env)
            return self.expr(n["inner"][1], env)
        a = self.rv(self.expr(n["inner"][0], env))
        b = self.rv(self.expr(n["inner"][1], env))
        return self.arith(op, a, b, self.is_float_type(n))

    def e_CompoundAssignOperator(self, n, env):
        op = n["opcode"][:-1]
        lhs = self.expr(n["inner"][0], env)
        b = self.rv(self.expr(n["inner"][1], env))
        v = self.arith(op, lhs.get(), b, self.is_float_type(n))
        lhs.set(v)
        return v

    _PURE_WRAP = ("ParenExpr", "ImplicitCastExpr", "MemberExpr", "CStyleCastExpr", "CXXFunctionalCastExpr", "CXXStaticCastExpr", "MaterializeTemporaryExpr",
                  "ArraySubscriptExpr", "ConditionalOperator", "ExprWithCleanups")
    _PURE_BIN = ("+", "-", "*", "<", "<=", ">", ">=", "==", "!=", "&&", "||")

    def _pure(self, n):
        """expression without side effects, calls or operations that can trap (no division)"""
        k = n.get("kind")
        if k in ("IntegerLiteral", "FloatingLiteral", "CXXBoolLiteralExpr", "DeclRefExpr", "CXXThisExpr"):
            return True
        if k in self._PURE_WRAP:
            return all(self._pure(c) for c in n.get("inner", []))
        if k == "UnaryOperator" and n.get("opcode") in ("-", "!", "+"):
            return all(self._pure(c) for c in n.get("inner", []))
        if k == "BinaryOperator" and n.get("opcode") in self._PURE_BIN:
            return all(self._pure(c) for c in n.get("inner", []))
        return False

    def e_ConditionalOperator(self, n, env):
        c = self.rv(self.expr(n["inner"][0], env))
        if self.merge_pure and isinstance(c, (SBool, SNum)) and self._pure(n["inner"][1]) and self._pure(n["inner"][2]):
            ct = core.as_bool_term(c)
            if not (z3.is_true(z3.simplify(ct)) or z3.is_false(z3.simplify(ct))):
                try:
                    a = self.rv(self.expr(n["inner"][1], env))
                    b = self.rv(self.expr(n["inner"][2], env))
                    if isinstance(a, (bool, SBool)) and isinstance(b, (bool, SBool)):
                        return SBool(z3.If(ct, core.as_bool_term(a), core.as_bool_term(b)))
                    if isinstance(a, (int, float, SNum)) and isinstance(b, (int, float, SNum)) and not isinstance(a, bool) and not isinstance(b, bool):
                        ta, tb = term(a), term(b)
                        if z3.is_real(ta) or z3.is_real(tb):
                            return SReal(z3.If(ct, rterm(a), rterm(b)))
                        return SInt(z3.If(ct, ta, tb))
                except Unsupported:
                    pass
        if self.truth(c):
            return self.rv(self.expr(n["inner"][1], env))
        return self.rv(self.expr(n["inner"][2], env))

    def e_CallExpr(self, n, env):
        callee = self.expr(n["inner"][0], env)
        name = callee[1] if isinstance(callee, tuple) else None
        args = [self.expr(a, env) for a in n["inner"][1:]]
        if name is None:
            raise Unsupported("indirect call")
        if name not in self.functions and name not in self.call_models:
            r = self.builtin(name, args)
            if r is not None or name in ("printf", "fprintf", "puts"):
                return r
        return self.call_function(name, [self.rv(a) if not isinstance(a, AddrOf) else a for a in args])

    def e_CXXConstructExpr(self, n, env):
        qt = n.get("type", {}).get("qualType", "")
        args = [self.rv(self.expr(a, env)) for a in n.get("inner", []) if a.get("kind") != "CXXDefaultArgExpr"]
        if "fvec4" in qt:
            if len(args) == 4:
                return FV(args)
            if len(args) == 1:
                if isinstance(args[0], FV):
                    return FV(args[0].v)
                if isinstance(args[0], Ptr):
                    p = args[0]
                    return FV([p.region.read(p.off + k) for k in range(4)])
                return FV([args[0]] * 4)
            if not args:
                return FV([None] * 4)
        rname = qt.replace("const ", "").replace("struct ", "").strip()
        if rname in getattr(self, "records", {}):
            return self.construct_record(rname, args)
        if rname in getattr(self, "struct_types", {}) and not args:
            return StructObj(rname, **{f: None for f in self.struct_types[rname]})  # trivial default construction of a C struct
        if "deque" in qt and not args:
            return StdVector()
        if "iterator" in qt and len(args) == 1 and isinstance(args[0], (MapIter, VecIter)):
            a = args[0]
            return MapIter(a.m, a.keys, a.i) if isinstance(a, MapIter) else VecIter(a.vec, a.i)
        if qt.replace("const ", "").strip().startswith(("std::map<", "map<")):
            if not args:
                return StdMap((lambda: StdVector()) if "vector" in qt else (lambda: 0))
            raise Unsupported(f"constructor of {qt} with arguments")
        if "vector" in qt:
            if not args:
                return StdVector()
            if len(args) == 2 and isinstance(args[0], int) and isinstance(args[1], StdVector):
                return StdVector([StdVector(list(args[1].items)) for _ in range(args[0])])
            if len(args) == 1 and isinstance(args[0], StdVector):
                return StdVector(args[0].items)
            if len(args) == 1 and isinstance(args[0], VecRegion):
                # copy / move construction of a region-backed vector: a new region with the same contents
                src = args[0].region
                r = Region(core.fresh_name("vec"), src.sort, init=src.mem)
                r.vsize = getattr(src, "vsize", None)
                return VecRegion(r)
            if len(args) >= 1 and isinstance(args[0], int):
                return StdVector([args[1] if len(args) > 1 else 0] * args[0])
            if len(args) in (1, 2) and isinstance(args[0], SInt):
                # std::vector<T> v(n[, fill]) with symbolic n: a heap region, value-initialised (all zero) or filled with `fill`
                real = "float" in qt or "double" in qt
                fill = args[1] if len(args) == 2 else 0
                fillv = rterm(fill) if real else term(fill)
                r = Region(core.fresh_name("vec"), "real" if real else "int", init=z3.K(z3.IntSort(), fillv))
                r.vsize = args[0]
                return VecRegion(r)
        raise Unsupported(f"constructor of {qt} with {len(args)} arguments")

    e_CXXTemporaryObjectExpr = e_CXXConstructExpr

    def e_CXXOperatorCallExpr(self, n, env):
        callee = self.expr(n["inner"][0], env)
        op = callee[1]
        args = [self.expr(a, env) for a in n["inner"][1:]]
        if op == "operator=" and isinstance(args[0], LRef):
            try:
                a0 = self.rv(args[0])
            except Unsupported:
                a0 = None  # assignment to a not yet initialised element of a local array of objects
        else:
            a0 = self.rv(args[0])
        if op == "operator[]":
            idx = self.rv(args[1])
            if hasattr(a0, "c_index"):  # abstract container supplied by a contract (a view of a data structure)
                return a0.c_index(self, idx)
            if isinstance(a0, FV):
                i = idx if isinstance(idx, int) else core.current().concrete_int(term(idx))
                if i is None:
                    raise Unsupported("symbolic lane index")
                return a0.v[i]
            if isinstance(a0, StdVector):
                i = idx if isinstance(idx, int) else core.current().concrete_int(term(idx))
                if i is None:
                    raise Unsupported("symbolic vector index")
                return LRef(lambda: a0.items[i], lambda v: a0.items.__setitem__(i, v))
            if isinstance(a0, VecRegion):
                return self.mem_ref(Ptr(a0.region, 0), idx)
            if isinstance(a0, StdMap):
                k = idx if isinstance(idx, int) else core.current().concrete_int(term(idx))
                if k is None:
                    raise Unsupported("symbolic std::map key")
                if k not in a0.d:
                    a0.d[k] = a0.default()
                return LRef(lambda: a0.d[k], lambda v: a0.d.__setitem__(k, v))
            raise Unsupported("operator[] on " + type(a0).__name__)
        if isinstance(a0, MapIter):
            if op in ("operator->", "operator*"):
                k = a0.keys[a0.i]
                return StructObj("pair", first=k, second=a0.m.d[k])
            if op == "operator++":
                new = MapIter(a0.m, a0.keys, a0.i + 1)
                args[0].set(new)
                return a0 if len(args) > 1 else new  # postfix returns the old iterator
            if op in ("operator!=", "operator=="):
                b = self.rv(args[1])
                same = a0.m is b.m and a0.i == b.i
                return same if op == "operator==" else not same
        if isinstance(a0, VecIter):
            if op in ("operator*", "operator->"):
                return a0.vec.items[a0.i]
            if op == "operator+" and len(args) == 2:
                k = self.rv(args[1])
                k = k if isinstance(k, int) else core.current().concrete_int(term(k))
                if k is None:
                    raise Unsupported("symbolic iterator offset")
                return VecIter(a0.vec, a0.i + k)
            if op == "operator++":
                new = VecIter(a0.vec, a0.i + 1)
                args[0].set(new)
                return new
            if op in ("operator!=", "operator=="):
                b = self.rv(args[1])
                same = a0.vec is b.vec and a0.i == b.i
                return same if op == "operator==" else not same
        if op == "operator=":
            v = self.rv(args[1])
            if isinstance(v, FV):
                v = FV(v.v)
            if isinstance(v, StdVector):
                v = StdVector(v.items)
            args[0].set(v)
            return v
        if op == "operator-" and len(args) == 1:
            return FV([-x for x in a0.v])
        b = self.rv(args[1]) if len(args) > 1 else None
        import operator as o
        tbl = {"operator+": o.add, "operator-": o.sub, "operator*": o.mul}
        if op in tbl or op == "operator/":
            f = tbl.get(op) or (lambda x, y: self.arith("/", x, y, True))
            if isinstance(a0, FV):
                return a0.map2(b, f)
            if isinstance(b, FV):
                return FV([a0] * 4).map2(b, f)
        itbl = {"operator+=": o.add, "operator-=": o.sub, "operator*=": o.mul}
        if op in itbl or op == "operator/=":
            f = itbl.get(op) or (lambda x, y: self.arith("/", x, y, True))
            v = a0.map2(b, f)
            args[0].set(v)
            return v
        raise Unsupported(f"operator {op}")

    def e_MemberExpr(self, n, env):
        obj = self.expr(n["inner"][0], env)
        base = self.rv(obj) if isinstance(obj, LRef) else obj
        if isinstance(base, StructObj):
            name = n.get("name")
            if "<bound member function type>" in n.get("type", {}).get("qualType", ""):
                return ("member", name, base)  # obj.method / this->method as the callee of a member call

            def setter(v, base=base, name=name):
                base.fields[name] = v
                base.writes.append(name)
            return LRef(lambda base=base, name=name: base.fields[name], setter)
        return ("member", n.get("name"), obj)

    def e_CXXMemberCallExpr(self, n, env):
        m = self.expr(n["inner"][0], env)
        _, name, objref = m
        obj = self.rv(objref)
        args = [self.rv(self.expr(a, env)) for a in n["inner"][1:]]
        if hasattr(obj, "c_method"):  # abstract container supplied by a contract
            return obj.c_method(self, name, args)
        if isinstance(obj, StructObj) and getattr(obj, "record", None) in self.records:
            key = f"{obj.record}::{name}"
            if key in self.call_models:  # callee contract at the call site
                return self.call_models[key](self, [obj] + args)
            return self.call_record_method(obj, name, args)
        if isinstance(obj, FV):
            if name == "store":
                p = args[0]
                for k in range(4):
                    p.region.write(p.off + k, obj.v[k])
                return None
        if isinstance(obj, StdMap):
            keys = sorted(obj.d)
            if name in ("begin", "cbegin"):
                return MapIter(obj, keys, 0)
            if name in ("end", "cend"):
                return MapIter(obj, keys, len(keys))
            if name == "size":
                return len(keys)
        if isinstance(obj, StdVector):
            if name == "size":
                return len(obj.items)
            if name == "push_back":
                obj.items.append(self.copy_value(args[0]))
                return None
            if name == "push_front":
                obj.items.insert(0, self.copy_value(args[0]))
                return None
            if name == "front":
                return LRef(lambda: obj.items[0], lambda v: obj.items.__setitem__(0, v))
            if name == "erase" and len(args) == 1 and isinstance(args[0], VecIter) and args[0].vec is obj:
                del obj.items[args[0].i]
                return VecIter(obj, args[0].i)
            if name == "insert" and len(args) == 3 and all(isinstance(a, VecIter) for a in args) and args[0].vec is obj and args[1].vec is args[2].vec:
                new = [self.copy_value(x) for x in args[1].vec.items[args[1].i:args[2].i]]
                obj.items[args[0].i:args[0].i] = new
                return VecIter(obj, args[0].i)
            if name == "clear":
                obj.items.clear()
                return None
            if name == "resize":
                k = args[0]
                fill = args[1] if len(args) > 1 else 0
                obj.items[:] = (obj.items + [fill] * k)[:k]
                return None
            if name == "empty":
                return not obj.items
            if name in ("begin", "cbegin"):
                return VecIter(obj, 0)
            if name in ("end", "cend"):
                return VecIter(obj, len(obj.items))
            if name == "back":
                return LRef(lambda: obj.items[-1], lambda v: obj.items.__setitem__(-1, v))
        raise Unsupported(f"member call {name} on {type(obj).__name__}")


class StructObj:
    """a C struct reached through a pointer: named fields, log of the fields written"""

    def __init__(self, name, **fields):
        self.name = name
        self.fields = dict(fields)
        self.writes = []
        self.region = self  # so that `if (ptr)` is true
        self.off = 0


class VecIter:
    """std::vector<T>::const_iterator"""

    def __init__(self, vec, i):
        self.vec, self.i = vec, i


class VecRegion:
    """std::vector with a symbolic size, backed by a memory region"""

    def __init__(self, region):
        self.region = region


class AddrOf:
    """&lvalue passed to a callee (out-parameters)"""

    def __init__(self, ref):
        self.ref = ref
        self.region = self  # behaves like a one-cell region
        self.off = 0

    def read(self, idx):
        return self.ref.get()

    def write(self, idx, v):
        self.ref.set(v)

    def add(self, k):
        if k == 0:
            return self
        raise Unsupported("pointer arithmetic on the address of a scalar")
