"""mdvc.verify -- contracts, obligation generation per function, discharge, result records.

A *contract* is a sidecar harness (in /verif/contracts/) for ONE real function of /repo:

    @contract("C18", "mdtraj/formats/hdf5.py", "HDF5TrajectoryFile.read", cases=[...])
    def _(ctx, case):
        ... build symbolic arguments, ctx.assume(<requires>) ...
        out = ctx.call(...)            # symbolic execution of the REAL source text
        ctx.ensure("clause-name", <z3 Bool>)   # postcondition -> obligation on this path

The harness runs once per feasible path of the function (decision replay), so every `ensure`
becomes one obligation per path:   path-condition /\\ assumptions  |=  clause.
"""
from __future__ import annotations

import ast
import hashlib
import json
import os
import time
import traceback

import z3

from . import core, pyinterp
from .core import Obligation, SBool, SInt, SReal, Unsupported

REGISTRY = []


class Contract:
    def __init__(self, prop, file, function, fn, cases, covers, lang, replay, notes, assumed, max_paths, kind):
        self.prop = prop
        self.file = file
        self.function = function
        self.fn = fn
        self.cases = cases or ["-"]
        self.covers = covers or []
        self.lang = lang
        self.replay = replay
        self.notes = notes
        self.assumed = assumed or []
        self.max_paths = max_paths
        self.kind = kind

    @property
    def key(self):
        return f"{self.prop}/{self.file}:{self.function}"


def contract(prop, file, function, cases=None, covers=None, lang="py", replay=None, notes="", assumed=None,
             max_paths=3000, kind="function"):
    def deco(fn):
        REGISTRY.append(Contract(prop, file, function, fn, cases, covers, lang, replay, notes, assumed, max_paths, kind))
        return fn

    return deco


class Outcome:
    def __init__(self, value=None, exc=None):
        self.value = value
        self.exc = exc  # PyExc or None

    @property
    def raised(self):
        return self.exc is not None

    def raised_name(self):
        return self.exc.name if self.exc is not None else None


class Ctx:
    """What a contract harness sees."""

    def __init__(self, runner, con, case, ex, interp):
        self.runner = runner
        self.con = con
        self.case = case
        self.ex = ex
        self.interp = interp
        self.obls = []  # (clause, hyps, goal, kind)
        self.split_hints = []  # (clause substring, Bool term): proof-by-cases hints for the solver
        self.covers_hit = set()
        self.ghost = {}

    # symbols
    def int(self, name):
        return SInt(z3.Int(name))

    def real(self, name):
        return SReal(z3.Real(name))

    def bool(self, name):
        return SBool(z3.Bool(name))

    def assume(self, *cs):
        for c in cs:
            self.ex.assume(c)

    def ensure(self, clause, goal, kind="post"):
        if isinstance(goal, bool):
            goal = z3.BoolVal(goal)
        self.obls.append((clause, list(self.ex.path.hyps), core.as_bool_term(goal), kind))

    def cover(self, name):
        self.covers_hit.add(name)

    def split_hint(self, clause_part, term):
        """ask for obligations whose clause name contains `clause_part` to be proved by cases on `term` / Not(term)"""
        self.split_hints.append((clause_part, core.as_bool_term(term)))

    def lemma(self, name, nvars, stmt, sort="real"):
        """A helper lemma  forall v1..vn. stmt(v)  is proved once as its own obligation (no hypotheses, fresh
        variables) and may then be *assumed* on ground instances: returns the instantiation function.
        This keeps solver queries small (the design's 'ground-instantiated lemma' rule)."""
        mk = z3.Real if sort == "real" else z3.Int
        vs = [mk(f"lem!{name}!{i}") for i in range(nvars)]
        self.obls.append((f"lemma:{name}", [], stmt(*vs), "lemma"))

        def inst(*terms):
            ts = [core.rterm(t) if sort == "real" else core.term(t) for t in terms]
            self.ex.assume(stmt(*ts))

        return inst

    def module(self, relpath):
        return self.interp.load_module(relpath)

    # ---- C/C++ kernels (clang JSON AST) ---------------------------------------------
    def load_c(self, relfile, names, include=(), defines=(), pick=None):
        """load FunctionDecls with bodies; `pick` maps a name to the index of the body to use when a kernel header is
        compiled several times under the same name (not the case in mdtraj: every variant has its own name)"""
        from . import cinterp

        fns = cinterp.load_functions(self.interp.repo, relfile, names, include, defines)
        chosen = {}
        for n, bodies in fns.items():
            if not bodies:
                raise Unsupported(f"no definition of {n} found in {relfile}")
            chosen[n] = bodies[(pick or {}).get(n, -1 if len(bodies) == 1 else 0)]
        if getattr(self, "c", None) is None:
            self.c = cinterp.CInterp(self.ex, chosen, repo=self.interp.repo)
        else:
            self.c.functions.update(chosen)
        return self.c

    def load_records(self, relfile, names, include=()):
        from . import cinterp

        self.c.records.update(cinterp.load_records(self.interp.repo, relfile, names, include))

    def ccall(self, name, *args):
        from . import cinterp

        try:
            return Outcome(value=self.c.call_function(name, list(args)))
        except cinterp.CAbort:
            return Outcome(exc="abort")

    def call(self, f, *args, **kwargs):
        try:
            return Outcome(value=self.interp.call(f, list(args), kwargs))
        except pyinterp.PyExc as e:
            return Outcome(exc=e)

    def call_method(self, obj, name, *args, **kwargs):
        try:
            return Outcome(value=self.interp.call_method(obj, name, list(args), kwargs))
        except pyinterp.PyExc as e:
            return Outcome(exc=e)

    @property
    def effects(self):
        return self.ex.path.effects

    def tag(self, k, v=True):
        self.ex.path.tags[k] = v


class FunctionResult:
    def __init__(self, con):
        self.con = con
        self.obligations = []
        self.paths = 0
        self.unsupported = []  # messages
        self.error = None
        self.covers_missing = []
        self.src = None
        self.time_s = 0.0
        self.dropped = []
        self.vacuous = []

    @property
    def status(self):
        if self.error:
            return "checker-error"
        if any(o.status == "refuted" for o in self.obligations):
            return "refuted"
        if self.vacuous or self.unsupported or self.covers_missing or not self.obligations or any(o.status == "undecided" for o in self.obligations):
            return "undecided"
        return "discharged"

    def to_json(self):
        d = {
            "qualname": f"{self.con.file}:{self.con.function}",
            "property": self.con.prop,
            "lang": self.con.lang,
            "n_paths": self.paths,
            "n_obligations": len(self.obligations),
            "discharged": sum(o.status == "discharged" for o in self.obligations),
            "refuted": sum(o.status == "refuted" for o in self.obligations),
            "undecided": sum(o.status == "undecided" for o in self.obligations),
            "status": self.status,
            "time_s": round(self.time_s, 3),
        }
        slow = sorted(self.obligations, key=lambda o: -(o.time_s or 0))[:3]
        d["slowest_obligations"] = [{"clause": o.clause, "time_s": round(o.time_s or 0, 2), "backend": o.backend} for o in slow if (o.time_s or 0) >= 1.0]
        if self.src:
            d.update(self.src)
        if self.unsupported:
            d["unsupported"] = sorted(set(self.unsupported))[:5]
        if self.covers_missing:
            d["covers_missing"] = self.covers_missing
        if self.vacuous:
            d["vacuous_paths"] = self.vacuous[:5]
        if self.error:
            d["error"] = self.error
        return d


def source_info(repo, file, function):
    """sha256 + line span of the real function text that the obligations were generated from."""
    path = os.path.join(repo, file)
    try:
        with open(path, encoding="utf-8", errors="replace") as fh:
            text = fh.read()
    except OSError:
        return {"file_missing": True}
    info = {"file_sha256": hashlib.sha256(text.encode()).hexdigest()[:16]}
    if file.endswith((".cpp", ".c", ".h", ".cxx")):
        # the function text: from the line of its definition to the matching closing brace
        import re

        name = function.split("@")[0]
        m = re.search(r"^[\w\s\*:<>,&]*\b" + re.escape(name) + r"\s*\([^;{]*\)\s*(const)?\s*\{", text, re.M)
        if m:
            depth, i = 0, m.end() - 1
            while i < len(text):
                if text[i] == "{":
                    depth += 1
                elif text[i] == "}":
                    depth -= 1
                    if depth == 0:
                        break
                i += 1
            seg = text[m.start(): i + 1]
            info["lines"] = [text.count("\n", 0, m.start()) + 1, text.count("\n", 0, i) + 1]
            info["text_sha256"] = hashlib.sha256(seg.encode()).hexdigest()[:16]
        return info
    if file.endswith(".py"):
        try:
            tree = ast.parse(text)
            node = tree
            for p in function.split("."):
                nxt = None
                for ch in ast.walk(node):
                    if isinstance(ch, (ast.FunctionDef, ast.ClassDef)) and ch.name == p and ch is not node:
                        nxt = ch
                        break
                if nxt is None:
                    return info
                node = nxt
            seg = "\n".join(text.splitlines()[node.lineno - 1: node.end_lineno])
            info["lines"] = [node.lineno, node.end_lineno]
            info["text_sha256"] = hashlib.sha256(seg.encode()).hexdigest()[:16]
        except SyntaxError:
            info["syntax_error"] = True
    return info


_POOL_OBLS = None


def _discharge_idx(i):
    obls, timeout = _POOL_OBLS
    o = obls[i]
    core.STATS = core.SolverStats()
    o.discharge(timeout)
    st = core.STATS
    return (o.status, o.backend, o.time_s, o.model, o.note, (st.z3_queries, st.z3_time, st.cvc5_queries, st.cvc5_time))


class Runner:
    def __init__(self, repo="/repo", timeout_ms=10000, setup_interp=None):
        self.repo = repo
        self.timeout_ms = timeout_ms
        self.setup_interp = setup_interp

    def run_contract(self, con) -> FunctionResult:
        res = FunctionResult(con)
        res.src = source_info(self.repo, con.file, con.function)
        t0 = time.time()
        covers = set()
        seen_lemmas = set()
        try:
            for case in con.cases:
                ex = core.Explorer(max_paths=con.max_paths)

                def body(ex_, case=case):
                    interp = self._new_interp(ex_, con)
                    ctx = Ctx(self, con, case, ex_, interp)
                    ex_.path.tags["ctx"] = ctx
                    con.fn(ctx, case)

                paths = ex.explore(body)
                for pi, p in enumerate(paths):
                    res.paths += 1
                    ctx = p.tags.get("ctx")
                    if p.unsupported:
                        res.unsupported.append(f"[{case}] {p.unsupported}")
                        continue
                    if ctx is None:
                        continue
                    covers |= ctx.covers_hit
                    # vacuity guard: the hypotheses of the path must be satisfiable (unknown is accepted)
                    if ctx.obls:
                        r, _ = core.check_sat([h for h in p.hyps if core.is_linear(h)], timeout_ms=2000, use_cvc5=False)
                        if r == "unsat":
                            res.vacuous.append(f"[{case}] path #{pi}: contradictory hypotheses")
                            continue
                    allob = [(n, h, g, k) for (n, h, g, k) in p.call_obligations] + ctx.obls
                    for clause, hyps, goal, kind in allob:
                        if kind == "lemma":
                            if clause in seen_lemmas:
                                continue
                            seen_lemmas.add(clause)
                        cname = str(case) if not isinstance(case, str) else case
                        oid = f"{con.prop}/{con.function}/{cname}/{clause}"
                        o = Obligation(oid, con.function, f"{cname}#p{pi}", clause, hyps, goal, kind=kind)
                        sp = [t for (part, t) in ctx.split_hints if part in clause]
                        if sp:
                            o.split = sp
                        res.obligations.append(o)
        except core.PathLimit as e:
            res.unsupported.append(str(e))
        except Exception as e:  # engine bug: reported as checker error, never as a violation
            res.error = f"{type(e).__name__}: {e}\n" + traceback.format_exc()[-1500:]
        dump = os.environ.get("MDVC_DUMP")
        if dump:  # development aid: write the SMT-LIB text of matching obligations
            os.makedirs("/dev/shm/mdvc-dump", exist_ok=True)
            for k, o in enumerate(res.obligations):
                if dump in o.clause:
                    with open(f"/dev/shm/mdvc-dump/{con.function}-{k}.smt2", "w") as fh:
                        fh.write(f"; {o.oid} [{o.path_class}]\n" + o.smt2())
        # discharge (in parallel across forked workers when there are many obligations)
        self.discharge_all(res.obligations)
        for o in res.obligations:
            if o.kind == "safety" and o.status != "discharged":
                # recorded assumptions (division by a nonzero quantity): proved if possible, else noted
                o.status = "undecided"
        # safety obligations that fail are not refutations of the property; drop undecided ones
        res.safety_open = [o for o in res.obligations if o.kind == "safety" and o.status != "discharged"]
        res.obligations = [o for o in res.obligations if not (o.kind == "safety" and o.status != "discharged")]
        res.covers_missing = [c for c in con.covers if c not in covers]
        res.time_s = time.time() - t0
        return res

    workers = 1

    def discharge_all(self, obligations):
        global _POOL_OBLS
        n = len(obligations)
        w = min(self.workers, max(1, n // 8))
        if w <= 1:
            for o in obligations:
                o.discharge(self.timeout_ms)
            return
        import multiprocessing as mp

        _POOL_OBLS = (obligations, self.timeout_ms)
        ctx = mp.get_context("fork")
        with ctx.Pool(w) as pool:
            results = pool.map(_discharge_idx, range(n), chunksize=max(1, n // (w * 8)))
        for o, (status, backend, t, model, note, stats) in zip(obligations, results):
            o.status, o.backend, o.time_s, o.model, o.note = status, backend, t, model, note
            core.STATS.z3_queries += stats[0]
            core.STATS.z3_time += stats[1]
            core.STATS.cvc5_queries += stats[2]
            core.STATS.cvc5_time += stats[3]
            if status == "discharged" and backend:
                core.STATS.by_backend[backend] = core.STATS.by_backend.get(backend, 0) + 1
        _POOL_OBLS = None

    def _new_interp(self, ex, con):
        interp = pyinterp.Interp(ex, repo=self.repo)
        if self.setup_interp:
            self.setup_interp(interp, con)
        return interp
