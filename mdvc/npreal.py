"""NumPy model over *symbolic reals*: one frame's worth of an elementwise (vectorised) computation.

The vectorised NumPy code under contract (unit-cell conversions, reference distance/angle paths,
descriptors) applies the same scalar formula to every frame, so executing it on scalars/3-vectors
of symbolic reals is complete in the values (assumption: elementwise NumPy operations act per
element; reductions are sums over the named axis).  Transcendental functions are uninterpreted
with the libm axioms of DESIGN 2.6 asserted *ground-instantiated* at each use.
"""
from __future__ import annotations

import math

import z3

from . import core, models
from .core import SBool, SReal, SInt, SNum, Unsupported, rterm
from .models import trusted
from .pyinterp import OpaqueModule

trusted(
    "libm.axioms",
    "cos^2 x + sin^2 x = 1; sqrt(x) >= 0 and sqrt(x)^2 = x for x >= 0; acos: [-1,1] -> [0,pi] with cos(acos x) = x and "
    "acos(cos t) = t for t in [0,pi]; atan2(-p,q) = -atan2(p,q); round(y) integer with |round(y)-y| <= 1/2; floor(y) integer with 0 <= y-floor(y) < 1",
)
trusted("numpy.elementwise", "NumPy arithmetic, comparisons, np.cos/sin/sqrt/arccos and masked assignment act elementwise; "
        "np.sum/np.einsum('...i,...i') are sums over the last axis; float = real")

R = z3.RealSort()
COS = z3.Function("cos", R, R)
SIN = z3.Function("sin", R, R)
ACOS = z3.Function("acos", R, R)
SQRT = z3.Function("sqrt", R, R)
ATAN2 = z3.Function("atan2", R, R, R)
PI = z3.RealVal(repr(math.pi))


def _ex():
    return core.current()


def r_cos(x):
    t = rterm(x)
    c, s = COS(t), SIN(t)
    _ex().assume(c * c + s * s == 1)
    return SReal(c)


def r_sin(x):
    t = rterm(x)
    c, s = COS(t), SIN(t)
    _ex().assume(c * c + s * s == 1)
    return SReal(s)


def _nonneg_by_form(t):
    """sum of squares / non-negative numerals: non-negative for syntactic reasons (no solver query needed)"""
    if z3.is_rational_value(t) or z3.is_int_value(t):
        return t.numerator_as_long() >= 0 if z3.is_rational_value(t) else t.as_long() >= 0
    if z3.is_add(t):
        return all(_nonneg_by_form(c) for c in t.children())
    if z3.is_mul(t):
        ch = t.children()
        if len(ch) == 2 and z3.eq(ch[0], ch[1]):
            return True
        return all(_nonneg_by_form(c) for c in ch) if all(z3.is_rational_value(c) or (z3.is_mul(c)) for c in ch) else False
    if z3.is_app_of(t, z3.Z3_OP_POWER):
        e = t.arg(1)
        return (z3.is_int_value(e) or z3.is_rational_value(e)) and str(e) in ("2", "2.0", "4")
    return False


CANON_SQRT = [False]  # contracts may ask for the argument of sqrt to be put in canonical polynomial form (mdvc/polyid.py)


def r_sqrt(x, require=True):
    t = rterm(x)
    if CANON_SQRT[0]:
        from . import polyid

        nonneg = _nonneg_by_form(t)
        try:
            t2 = polyid.canonical(t)
        except Exception:
            t2 = t
        if nonneg and t2 is not t:
            _ex().assume(t2 >= 0)  # the canonical form of a sum of squares
        t = t2
    s = SQRT(t)
    if require and _nonneg_by_form(t):
        require = False
        _ex().assume(t >= 0)  # a sum of squares
    if require:
        _ex().require("sqrt-argument-nonnegative", t >= 0, kind="call-pre")
    _ex().assume(z3.Implies(t >= 0, z3.And(s >= 0, s * s == t)))
    return SReal(s)


def r_acos(x):
    t = rterm(x)
    a = ACOS(t)
    _ex().require("acos-argument-in-[-1,1]", z3.And(t >= -1, t <= 1), kind="call-pre")
    _ex().assume(z3.Implies(z3.And(t >= -1, t <= 1), z3.And(a >= 0, a <= PI, COS(a) == t)))
    return SReal(a)


class RVec:
    """1-d vector (or list of rows for 2-d) of symbolic reals"""

    is_ndarray = True

    def __init__(self, elems):
        self.e = list(elems)
        self.presnap = None

    # -- structure
    def sym_len(self, interp):
        return len(self.e)

    def sym_iter(self, interp):
        return list(self.e)

    def sym_getattr(self, interp, name):
        if name == "shape":
            return self.shape()
        if name == "ndim":
            return len(self.shape())
        if name == "T":
            return self if len(self.shape()) == 1 else RVec([RVec(list(col)) for col in zip(*[r.e for r in self.e])])
        if name == "copy":
            return lambda: RVec(list(self.e))
        if name == "dtype":
            return ("dtype", "float64")
        raise Unsupported("RVec." + name)

    def shape(self):
        if self.e and isinstance(self.e[0], RVec):
            return (len(self.e),) + self.e[0].shape()
        return (len(self.e),)

    def sym_getitem(self, interp, k):
        if isinstance(k, int):
            return self.e[k]
        if isinstance(k, slice):
            return RVec(self.e[k])
        if isinstance(k, tuple) and len(k) == 2 and isinstance(self.e[0], RVec):
            rows = self.e[k[0]] if isinstance(k[0], slice) else [self.e[k[0]]]
            out = [r.sym_getitem(interp, k[1]) for r in rows]
            return RVec(out) if isinstance(k[0], slice) else out[0]
        raise Unsupported("RVec index")

    def sym_setitem(self, interp, k, v):
        if isinstance(k, RMask):
            if self.presnap is None:
                self.presnap = list(self.e)
            self.e = [SReal(z3.If(m.t if isinstance(m, SBool) else z3.BoolVal(bool(m)), rterm(v), rterm(x)))
                      for m, x in zip(k.m, self.e)]
            return
        if isinstance(k, int):
            self.e[k] = v
            return
        raise Unsupported("RVec setitem")

    # -- arithmetic
    def _zip(self, other, f):
        if isinstance(other, RVec):
            if len(other.e) != len(self.e):
                raise Unsupported("RVec length mismatch")
            return RVec([f(a, b) for a, b in zip(self.e, other.e)])
        return RVec([f(a, other) for a in self.e])

    def sym_binop(self, interp, op, other, reflected):
        import operator as o

        f = {"Add": o.add, "Sub": o.sub, "Mult": o.mul, "Div": o.truediv}.get(op)
        if op == "Pow" and other == 2 and not reflected:
            return self._zip(self, lambda a, b: a * b)
        if f is None:
            raise Unsupported("RVec op " + op)
        if reflected:
            return self._zip(other, lambda a, b: f(b, a))
        return self._zip(other, f)

    def sym_unop(self, interp, op):
        if op == "USub":
            return RVec([-a for a in self.e])
        raise Unsupported("RVec unop")

    def sym_compare(self, interp, op, other, reflected):
        import operator as o

        f = {"Lt": o.lt, "LtE": o.le, "Gt": o.gt, "GtE": o.ge, "Eq": o.eq, "NotEq": o.ne}[op]
        if reflected:
            f = {"Lt": o.gt, "LtE": o.ge, "Gt": o.lt, "GtE": o.le, "Eq": o.eq, "NotEq": o.ne}[op]
        v = self._zip(other, f)
        return RMask(v.e)

    def __repr__(self):
        return f"RVec{self.e}"


class RMask:
    def __init__(self, m):
        self.m = list(m)

    def all(self):
        t = [core.as_bool_term(x) for x in self.m]
        return SBool(z3.And(*t)) if t else True

    def any(self):
        t = [core.as_bool_term(x) for x in self.m]
        return SBool(z3.Or(*t)) if t else False


def _map(f, x):
    if isinstance(x, RVec):
        return RVec([_map(f, a) for a in x.e])
    return f(x)


class NumpyR(models.NumpyModel):
    def sym_getattr(self, interp, name):
        if name == "pi":
            return SReal(PI)
        return super().sym_getattr(interp, name)

    def np_cos(self, interp, x):
        return _map(r_cos, x)

    def np_sin(self, interp, x):
        return _map(r_sin, x)

    def np_sqrt(self, interp, x):
        return _map(r_sqrt, x)

    def np_arccos(self, interp, x, **k):
        return _map(r_acos, x)

    def np_deg2rad(self, interp, x):
        return _map(lambda v: v * SReal(PI) / 180, x)

    np_radians = np_deg2rad

    def np_rad2deg(self, interp, x):
        return _map(lambda v: v * 180 / SReal(PI), x)

    np_degrees = np_rad2deg

    def np_zeros_like(self, interp, x):
        return _map(lambda v: 0.0, x)

    def np_array(self, interp, x, *a, **k):
        if isinstance(x, (list, tuple)):
            return RVec(list(x))
        if isinstance(x, RVec):
            return RVec(list(x.e))
        return super().np_array(interp, x)

    def np_all(self, interp, x, *a, **k):
        if isinstance(x, RMask):
            return x.all()
        return super().np_all(interp, x)

    def np_any(self, interp, x, *a, **k):
        if isinstance(x, RMask):
            return x.any()
        if isinstance(x, (bool, SBool)):
            return x
        raise Unsupported("np.any")

    def np_logical_and(self, interp, a, b):
        if isinstance(a, RMask) and isinstance(b, RMask):
            return RMask([SBool(z3.And(core.as_bool_term(x), core.as_bool_term(y))) for x, y in zip(a.m, b.m)])
        return SBool(z3.And(core.as_bool_term(a), core.as_bool_term(b)))

    def np_abs(self, interp, x):
        return _map(abs, x)

    def np_sum(self, interp, x, axis=None, **k):
        if isinstance(x, RVec):
            tot = 0.0
            for a in x.e:
                tot = a + tot
            return tot
        return x

    def np_einsum(self, interp, spec, a, b):
        if spec.replace(" ", "") in ("...i,...i", "i,i"):
            tot = 0.0
            for x, y in zip(a.e, b.e):
                tot = x * y + tot
            return tot
        raise Unsupported("einsum " + spec)

    def np_dot(self, interp, a, b):
        return self.np_einsum(interp, "i,i", a, b)

    def np_cross(self, interp, a, b):
        (a0, a1, a2), (b0, b1, b2) = a.e, b.e
        return RVec([a1 * b2 - a2 * b1, a2 * b0 - a0 * b2, a0 * b1 - a1 * b0])
