"""Per-property configuration of the checks (which contract modules, which bounded module,
claimed level, trusted base, assumptions)."""

ENCODING = [
    "Python int = mathematical integer; Python/NumPy/C floating point = mathematical reals in every deductive obligation "
    "(float32 effects are only seen by the bounded layer, with stated tolerances)",
    "the VC generator (mdvc: Python-ast / clang-JSON-AST symbolic executor written for this task) and its models of "
    "numpy, the standard library and third-party I/O are trusted; they are listed in coverage.trusted_base",
    "Cython translation of .pyx, the C/C++ compiler and CPython are trusted",
]

PROPS = {}


def prop(pid, **kw):
    PROPS[pid] = kw


prop(
    "C18",
    contract_modules=["contracts.c18"],
    bcc="c18",
    level="proof",
    claimed=True,
    technique="contract-based deductive verification: symbolic execution of the real Python source against sidecar contracts, VCs to z3/cvc5; bounded contract check on real files as labelled stand-in for C-backed readers",
    level_text="Cursor representation invariant and read/seek/tell/len postconditions proved for the pure-Python file classes for symbolic "
    "N, pos, n (all finite operation sequences by induction). C/Cython-backed readers are covered only by the bounded check (all op "
    "sequences up to length 3/4), which is labelled bounded in evidence.",
    level_note="Trusted: the VC generator and its models of numpy slicing, PyTables/netCDF4 nodes, text-file line readers; reals/ints mathematical; Cython/C readers not proved.",
    trusted=["numpy.basic-slicing", "mdtraj.utils.in_units_of"],
    assumptions=[
        "PyTables / netCDF4 variables index like numpy arrays along the frame axis; len(node) is the number of stored frames",
        "text and C readers (readline, read_next_timestep, read_xtc) deliver frames sequentially and signal EOF as their assumed contracts state",
    ],
    explanation="Representation invariant of every file class (position field == abstract cursor position, 0<=pos<=N) is shown "
    "established/preserved by read/seek/tell/len for symbolic N, pos, n: covers every finite operation sequence by induction. "
    "C-backed readers (xtc/trr/dcd/dtr) are bounded-only.",
)

prop(
    "C20",
    contract_modules=["contracts.c20"],
    bcc="c20",
    level="proof",
    claimed=True,
    technique="contract-based deductive verification: path property (existence test dominates every write effect) by symbolic execution of every writer constructor with symbolic exists/force_overwrite; bounded sha256 check on real files as labelled stand-in for the Cython writers",
    level_text="For every pure-Python writer constructor and open_maybe_zipped: with symbolic `exists` and `force_overwrite`, every path that "
    "reaches a write effect has (not exists or force_overwrite), refusal raises OSError before any effect, and the first write effect "
    "truncates. save_* propagate their own force_overwrite to every (numbered) file. Cython constructors (xtc/trr/dcd/dtr) bounded only.",
    level_note="Trusted: table of which library calls have write effects (fs.effects); single process (no TOCTOU claim); VC generator.",
    trusted=["fs.effects"],
    assumptions=["effects of open modes and of the third-party open functions are as listed in fs.effects", "no concurrent process changes the path between the existence test and the open"],
    explanation="Existence-check-dominates-write-effects proved per constructor for symbolic exists/force_overwrite.",
)

prop(
    "C01",
    contract_modules=["contracts.c01"],
    bcc="c01",
    level="other",
    claimed=False,
    trusted=["numpy.array-model", "mdtraj.utils.in_units_of"],
    assumptions=[],
    explanation="",
)

prop(
    "C03",
    contract_modules=["contracts.c03"],
    bcc="c03",
    level="proof",
    claimed=False,
    trusted=["numpy.array-model"],
    assumptions=[],
    explanation="",
)

prop(
    "C17",
    contract_modules=["contracts.c17"],
    bcc="c17",
    level="proof",
    claimed=False,
    trusted=["libm.axioms", "numpy.elementwise"],
    assumptions=[],
    explanation="",
)

prop(
    "C19",
    contract_modules=["contracts.c19"],
    bcc="c19",
    level="proof",
    claimed=False,
    trusted=["numpy.array-model"],
    assumptions=[],
    explanation="",
)

# ---- stubs (filled in as the contracts are written) -------------------------------------------
for _pid in ["C01", "C02", "C03", "C04", "C05", "C06", "C07", "C08", "C09", "C10", "C11", "C12", "C13", "C14",
             "C15", "C16", "C17", "C19", "C20"]:
    if _pid not in PROPS:
        prop(_pid, contract_modules=[], bcc=_pid.lower(), level="other", trusted=[], assumptions=[],
             explanation="")
