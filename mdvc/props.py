"""Per-property configuration of the checks (which contract modules, which bounded module,
claimed level, trusted base, assumptions)."""

ENCODING = [
    "Python int = mathematical integer; Python/NumPy/C floating point = mathematical reals in every deductive obligation "
    "(float32 effects are only seen by the bounded layer, with stated tolerances)",
    "the VC generator (mdvc: Python-ast / clang-JSON-AST symbolic executor written for this task) and its models of "
    "numpy, the standard library and third-party I/O are trusted; they are listed in coverage.trusted_base",
    "Cython translation of .pyx, the C/C++ compiler and CPython are trusted",
]

PROPS = {}


def prop(pid, **kw):
    PROPS[pid] = kw


prop(
    "C18",
    contract_modules=["contracts.c18", "contracts.c18t"],
    bcc="c18",
    level="other",
    claimed=True,
    technique="contract-based deductive verification: symbolic execution of the real Python source against sidecar contracts, VCs to z3/cvc5; bounded contract check on real files as labelled stand-in for C-backed readers",
    level_text="Cursor representation invariant and read/seek/tell/len postconditions proved for the pure-Python file classes for symbolic "
    "N, pos, n (all finite operation sequences by induction); for DCD the two C functions every seek goes through: dcd_rewind (position 0, frame count untouched) "
    "and skip_dcdstep (skips exactly one frame for every flag combination). The cursor layer of the text readers xyz / lammpstrj / mdcrd (read(n), read(), stride 2, "
    "absolute and relative seek forwards and backwards, tell, xyz len) is proved over the contract of their one-frame parser _read (returns frame p and advances, or raises _EOF and "
    "changes nothing): loops cut by invariants, trip counts taken from the real iterables; the one-frame parsers of xyz and lammpstrj satisfy that contract on a line stream with symbolic numbers "
    "(complete / end of file / truncated frame; atoms stored by id; cell = hi - lo). The Cython file classes themselves (xtc/trr/dcd/dtr), the fixed-width mdcrd parser and the "
    "arc reader are covered only by the bounded check (all op sequences up to length 3/4), which is labelled bounded in evidence.",
    level_note="Level other (not proof): part of the scope of the property is only bounded-checked, as the text says. Trusted: the VC generator and its models of numpy slicing, PyTables/netCDF4 nodes, text-file line readers; reals/ints mathematical; Cython/C readers not proved.",
    trusted=["numpy.basic-slicing", "mdtraj.utils.in_units_of"],
    assumptions=[
        "PyTables / netCDF4 variables index like numpy arrays along the frame axis; len(node) is the number of stored frames",
        "the one-frame mdcrd parser (_read) and the C readers (read_next_timestep, read_xtc) deliver frames sequentially and signal EOF as their assumed contracts state",
    ],
    explanation="Representation invariant of every file class (position field == abstract cursor position, 0<=pos<=N) is shown "
    "established/preserved by read/seek/tell/len for symbolic N, pos, n: covers every finite operation sequence by induction. "
    "C-backed readers (xtc/trr/dcd/dtr) are bounded-only.",
)

prop(
    "C20",
    contract_modules=["contracts.c20"],
    bcc="c20",
    level="other",
    claimed=True,
    technique="contract-based deductive verification: path property (existence test dominates every write effect) by symbolic execution of every writer constructor with symbolic exists/force_overwrite; bounded sha256 check on real files as labelled stand-in for the Cython writers",
    level_text="For every pure-Python writer constructor and open_maybe_zipped: with symbolic `exists` and `force_overwrite`, every path that "
    "reaches a write effect has (not exists or force_overwrite), refusal raises OSError before any effect, and the first write effect "
    "truncates. save_* propagate their own force_overwrite to every (numbered) file. Cython constructors (xtc/trr/dcd/dtr) bounded only.",
    level_note="Level other (not proof): part of the scope of the property is only bounded-checked, as the text says. Trusted: table of which library calls have write effects (fs.effects); single process (no TOCTOU claim); VC generator.",
    trusted=["fs.effects"],
    assumptions=["effects of open modes and of the third-party open functions are as listed in fs.effects", "no concurrent process changes the path between the existence test and the open"],
    explanation="Existence-check-dominates-write-effects proved per constructor for symbolic exists/force_overwrite.",
)

prop(
    "C01",
    contract_modules=["contracts.c01", "contracts.c01r", "contracts.c01dcd", "contracts.c01trr", "contracts.c01lmp", "contracts.c01txt"],
    bcc="c01",
    level='other',
    claimed=True,
    trusted=["numpy.array-model", "mdtraj.utils.in_units_of"],
    assumptions=['codecs (PyTables, netCDF4, xdrfile, dcdplugin, printf-style text formatting) store what they are given', 'unit factors 10 / 0.1 between nm and angstrom'],
    explanation='Writer call-site obligations for all 13 savers x {1,3} frames x {cell, no cell}; codecs bounded.',
    technique='contract-based deductive verification: symbolic execution of the real Python source against sidecar contracts, VCs to z3/cvc5 (writer call-site plumbing); bounded save/load round trip with an independent byte-level decoder as labelled stand-in for the codecs',
    level_text="Deductive core: every save_* feeds its writer the trajectory's fields converted to the format's native unit (unit table from the format specifications), frame i with frame i, input unmodified, and the extension table dispatches correctly (all paths, symbolic force_overwrite and cell conditions); on the way back, read_as_traj of the pure-Python readers (hdf5, netcdf, mdcrd, xyz, lammpstrj, arc, lh5) converts coordinates and cell lengths native->nm exactly once and passes angles and stored times through, so the two unit factors cancel. Two codecs are verified as encode/decode pairs: a DCD frame written by write_dcdstep is read back by read_dcdstep (whole X/Y/Z blocks, unit cell, exact byte count, header counters) for every atom count, over a segment model of the file; a TRR record written by write_trr is read back by read_trr (step, time, lambda, box, coordinates, velocities, forces, header sizes of the format, whole record consumed) for 1-3 atoms with symbolic values, over a typed item stream standing for the XDR primitives. The unit-cell lines of a LAMMPS dump: write_box emits the header, bounds and tilt factors the LAMMPS convention prescribes (symbolic lengths, angles, corner) and the real _read returns the written lengths and angles. Two text codecs end to end: what the xyz and lammpstrj writers emit for two symbolic frames is accepted by the readers' own one-frame parsers and comes back with every coordinate within half a unit of the last printed decimal (0.0005 A; number formatting is the only assumed codec step) and the lammpstrj cell exactly. The other codecs (the remaining text layouts mdcrd, gro, pdb, arc, rst7; XTC compression; the NetCDF/HDF5 libraries), the text parsers and the Cython file classes are covered by the bounded round-trip check only, which reads the bytes with an independent decoder: level 'other' because an mdtraj part of the critical path is bounded-only.",
    level_note='Trusted: VC generator, traced-array numpy model, in_units_of factor table, third-party codecs.',
)

prop(
    "C03",
    contract_modules=["contracts.c03"],
    bcc="c03",
    level="other",
    claimed=True,
    trusted=["numpy.array-model"],
    assumptions=['numpy view/copy semantics as in numpy.array-model', 'aliasing through *other* views of the same buffer is not tracked by the term model (bounded check covers np.shares_memory)'],
    explanation='inv_traj preservation + functional postconditions + aliasing clauses.',
    technique='contract-based deductive verification: symbolic execution of the real Python source against sidecar contracts, VCs to z3/cvc5 over a term algebra of traced arrays (value normal forms + buffer identities); bounded operation-sequence enumeration as labelled stand-in for what the array model abstracts',
    level_text='Trajectory class invariant (per-frame fields indexed alike, RMSD-trace cache either empty or the traces of the current coordinates) is proved established by __init__ and preserved by slice (int/slice/array keys, copy both ways), join, stack, atom_slice (both inplace values), the xyz setter, center_coordinates, superpose and in-place re-imaging, for symbolic frame counts: all finite operation sequences by induction. Field values equal the same numpy indexing/concatenation; result coordinate buffers are never shared; copy=True/join/atom_slice(inplace=False) share no buffer.',
    level_note='Level other (not proof): the last clause of the property (analysis and save functions leave their inputs unmodified) is only bounded-checked. Trusted: numpy view/copy model (numpy.array-model), deepcopy gives a fresh object, C kernels mutate only the coordinate buffer they are handed. `analysis functions leave input bit-identical` is bounded-only.',
)

prop(
    "C17",
    contract_modules=["contracts.c17"],
    bcc="c17",
    level="other",
    claimed=True,
    trusted=["libm.axioms", "numpy.elementwise"],
    assumptions=['valid cell = lengths>0, angles in (0,180), positivity of the Gram determinant', 'floats are reals'],
    explanation='NRA obligations on the real source of mdtraj/utils/unitcell.py.',
    technique='contract-based deductive verification: symbolic execution of the real Python source against sidecar contracts, VCs to z3/cvc5 over symbolic reals (NRA with ground-instantiated libm axioms, helper lemmas proved separately, numeric falsification for undecided VCs); bounded float32 evaluation as labelled stand-in',
    level_text="Both unit-cell conversions and the tilt factors are executed on one frame's symbolic reals: lengths, the three dot products with the documented angle naming, standard orientation and positive volume are proved for every valid cell; the inverse conversion returns norms and acos of normalised dots in the documented naming. The 1e-6 snapping is handled by proving the identities before snapping and bounding the snap. Cell presence through slice/join/stack/atom_slice is covered by the C03 contracts (fields None together).",
    level_note='Level other (not proof): part of the scope of the property is only bounded-checked, as the text says. Trusted: reals for floats, libm axioms, elementwise numpy model. Rotation invariance of the setter and float32 behaviour are bounded-only.',
)

prop(
    "C19",
    contract_modules=["contracts.c19", "contracts.c19t"],
    bcc="c19",
    level="other",
    claimed=True,
    trusted=["numpy.array-model"],
    assumptions=['after handle.flush()/sync() the bytes are in the OS page cache, which survives process death', 'PyTables EArray.append and netCDF slice assignment extend along axis 0 and reject shape mismatches before changing anything'],
    explanation='Rep(W) preservation and exceptional postconditions.',
    technique='contract-based deductive verification: symbolic execution of the real Python source against sidecar contracts, VCs to z3/cvc5; bounded partition/refusal/crash enumeration on real files as labelled stand-in for the Cython and text writers',
    level_text='Writer representation invariant for HDF5TrajectoryFile and NetCDFTrajectoryFile proved for one write() on an arbitrary state (symbolic frames-so-far n0, batch length n, atom counts, every schema combination): accepted batches extend every stored field by exactly the batch (=> any partition equals one call, by induction), ragged batches raise ValueError with every stored field and the position unchanged, HDF5 write ends with flush, flush() calls the library flush. The streaming text writers xyz, mdcrd and lammpstrj: one call with two frames and two calls with one frame each produce identical token streams (symbolic coordinates, formatted numbers as tokens; for lammpstrj apart from the call-local TIMESTEP number), the documented layouts, one mdcrd title line, and a write that adds or drops the cell lengths is refused with ValueError before anything is written. The other text writers, the Cython writers, and durability after flush (crash points) are bounded-only.',
    level_note='Level other (not proof): part of the scope of the property is only bounded-checked, as the text says. Trusted: PyTables append / netCDF unlimited-dimension assignment models; third-party durability of flush/sync is assumed and exercised by the bounded crash check.',
)

prop(
    "C02",
    contract_modules=["contracts.c02", "contracts.c01r", "contracts.c18t"],
    bcc="c02",
    level="other",
    claimed=False,
    trusted=["numpy.basic-slicing", "numpy.array-model"],
    assumptions=[],
    explanation="",
)

prop(
    "C04",
    contract_modules=["contracts.c04"],
    bcc="c04",
    level="other",
    claimed=False,
    trusted=[],
    assumptions=[],
    explanation="",
)

prop(
    "C05",
    contract_modules=["contracts.c05"],
    bcc="c05",
    level="other",
    claimed=False,
    trusted=["vectorize_sse.h:fvec4", "libm.axioms", "C.int"],
    assumptions=[],
    explanation="",
)

prop(
    "C07",
    contract_modules=["contracts.c07"],
    bcc="c07",
    level="other",
    claimed=False,
    trusted=["vectorize_sse.h:fvec4", "libm.axioms", "C.int"],
    assumptions=[],
    explanation="",
)

prop(
    "C10",
    contract_modules=["contracts.c10", "contracts.c10v"],
    bcc="c10",
    level="other",
    claimed=False,
    trusted=["vectorize_sse.h:fvec4", "libm.axioms", "C.int"],
    assumptions=[],
    explanation="",
)

prop(
    "C12",
    contract_modules=["contracts.c12", "contracts.c12g"],
    bcc="c12",
    level="other",
    claimed=False,
    trusted=[],
    assumptions=[],
    explanation="",
)

prop(
    "C13",
    contract_modules=["contracts.c13"],
    bcc="c13",
    level="other",
    claimed=False,
    trusted=["vectorize_sse.h:fvec4", "libm.axioms", "C.int"],
    assumptions=["sphere points are unit vectors, radii non-negative, no two atoms coincide (preconditions of asa_frame)"],
    explanation="",
)

prop(
    "C08",
    contract_modules=["contracts.c13", "contracts.c15", "contracts.c08"],
    bcc="c08",
    level="other",
    claimed=False,
    trusted=["vectorize_sse.h:fvec4", "libm.axioms", "C.int"],
    assumptions=["#pragma omp is not interpreted: the verified statement is per call of the per-frame kernel with ARBITRARY scratch-buffer contents on entry, which covers every schedule"],
    explanation="",
)

prop(
    "C14",
    contract_modules=["contracts.c14", "contracts.c14py"],
    bcc="c14",
    level="other",
    claimed=False,
    trusted=["vectorize_sse.h:fvec4", "libm.axioms", "C.int"],
    assumptions=["NaN (empty slot) is a distinguished token value with IEEE comparison semantics; arithmetic on NaN is not modelled (the kernel does none)"],
    explanation="",
)

prop(
    "C06",
    contract_modules=["contracts.c06"],
    bcc="c06",
    level="other",
    claimed=False,
    trusted=["sympy.expand (polynomial normal form)", "numpy.array-model"],
    assumptions=["DirectSolve returns the largest real root of the quartic (assumed contract; bounded check only)", "spectral theorem: max of q^T K q over unit q is the largest eigenvalue"],
    explanation="",
)

prop(
    "C09",
    contract_modules=["contracts.c09"],
    bcc="c09",
    level="other",
    claimed=False,
    trusted=["numpy.object-arrays"],
    assumptions=["compute_distances(periodic=True) returns minimum-image distances (contract of C05)"],
    explanation="",
)

prop(
    "C15",
    contract_modules=["contracts.c15"],
    bcc="c15",
    level="other",
    claimed=False,
    trusted=["vectorize_sse.h:fvec4", "libm.axioms", "C.int"],
    assumptions=["enumerators are modelled by an injective numbering (only compared for equality)"],
    explanation="",
)

prop(
    "C16",
    contract_modules=["contracts.c16"],
    bcc="c16",
    level="other",
    claimed=False,
    trusted=["numpy.object-arrays"],
    assumptions=["compute_distances returns the (minimum-image) distance of each requested pair, in the order requested (contract of C05)"],
    explanation="",
)

prop(
    "C11",
    contract_modules=["contracts.c11"],
    bcc="c11",
    level="other",
    claimed=False,
    trusted=["numpy.array-model"],
    assumptions=["the compiled extension was generated by Cython from the .pxi text that is verified (Cython is absent, the text cannot be rebuilt); the extraction of mdvc/decython.py drops only C types and declarations"],
    explanation="",
)

# ---- stubs (filled in as the contracts are written) -------------------------------------------
_BOUNDED_TEXT = ("Bounded contract check only at this commit: the property's contracts are evaluated at run time on the real code over the "
                 "enumerated input space stated in evidence (coverage.bounded); labelled bounded, nothing is counted as proved. "
                 "Deductive obligations for this property are added as the contracts are written (coverage.obligations shows what this run discharged).")
for _pid in ["C01", "C02", "C03", "C04", "C05", "C06", "C07", "C08", "C09", "C10", "C11", "C12", "C13", "C14",
             "C15", "C16", "C17", "C19", "C20"]:
    if _pid not in PROPS:
        prop(_pid, contract_modules=[], bcc=_pid.lower(), level="other", trusted=[], assumptions=[],
             explanation="bounded contract check (run-time evaluation of the contracts on the real code over a stated bounded input space)")
for _pid, _cfg in PROPS.items():
    if not _cfg.get("claimed"):
        _cfg["claimed"] = True
        _cfg["level"] = "other"
        _cfg.setdefault("technique", "contract-based deductive verification where contracts exist (see evidence), otherwise bounded run-time contract check of the real code (labelled bounded)")
        _cfg.setdefault("level_text", _BOUNDED_TEXT)
        _cfg.setdefault("level_note", "Oracle: executable specification written from the property statement / cited formulas (specs/); tolerances stated in the bcc module; float32 effects accepted within those tolerances.")

# ---- level texts of the properties whose critical path is partly deductive, partly bounded ------------------------------
_T_C = ("contract-based deductive verification: symbolic execution of the real C/C++ kernel text (clang JSON AST) against sidecar contracts with "
        "inductive loop invariants, VCs to z3/cvc5 (sympy normal form for exact polynomial identities); bounded run-time contract check of the "
        "compiled code as labelled stand-in for what the contracts do not reach")
_T_PY = ("contract-based deductive verification: symbolic execution of the real Python source against sidecar contracts (callee contracts at call "
         "sites, NumPy itself on object arrays of symbolic scalars where arrays are involved), VCs to z3/cvc5; bounded run-time contract check as labelled stand-in")
_N = ("Trusted: the VC generator and its models (listed in evidence), reals for floats, C int without overflow, fvec4 lane semantics; Cython wrappers and "
      "everything named bounded-only in the text. Level 'other' because part of the property's critical path is only bounded-checked.")
_TEXTS = {
    "C02": (_T_PY, "Deductive: read(n_frames, stride) of the HDF5 and NetCDF file classes for symbolic N, position, n and stride (frames delivered, count, new "
            "position); the iterload generator by a chunk-loop invariant (start frame skip+k*chunk*stride, sizes, stride, atoms, termination only when nothing is "
            "left; chunk=0 and PDB delegation stated semantically); load_pdb(frame=i) time; md.load (one loader call per file with the caller's stride / "
            "atom_indices / topology, joined in order, caller's topology left unmodified); the load_<format> glue (frame=i: seek(i) then one frame); read_as_traj of the "
            "pure-Python file classes (delegates partial loading to read once, restricts the topology iff atom_indices, frame k of a reader without stored times is "
            "file frame position+k*stride); read(n_frames, stride, atom_indices) of the text readers xyz / lammpstrj / mdcrd over the contract of their one-frame parser "
            "(frames position+j*stride in order, count, rows of atom_indices, new position), and the xyz / lammpstrj one-frame parsers themselves on a line stream with symbolic numbers; skip_dcdstep skips exactly one frame of the DCD format for every flag "
            "combination. Bounded only: the Cython/C readers (xtc, trr, dcd, dtr, binpos), the fixed-width mdcrd parser."),
    "C04": (_T_PY, "Deductive: the real Topology/Chain/Residue/Atom/Bond code on a fixed shape (2 chains, 3 residues, 5 atoms, 4 typed bonds) with symbolic "
            "resSeq/serial: copy/__copy__/__deepcopy__, subset for all 31 subsets, join, in-place edits, ==/hash: abstract view equality, well-formedness, bond "
            "endpoints are own atoms, independence of the copy; the HDF5 topology setter/getter pair returns what its schema holds for every resSeq value; the DataFrame carrier "
            "(to_dataframe then from_dataframe over a table model of pandas.DataFrame) returns the same chains, residues, atoms and typed bonds, also when a chain starts with the "
            "residue label the previous chain ended with. Complete in the values, bounded in the shape. Bounded only: other shapes, carriers PDB and pickle, pandas itself."),
    "C05": (_T_C, "Deductive: dist, dist_mic, dist_mic_triclinic for ALL frames and pairs (loop invariants): lattice congruence with explicit integer witnesses, "
            "wrap bounds, box reduction keeps the lattice, all 27 images examined, result is one of them and not longer than any, d^2=|out|^2, frame conditions; lemma L1; "
            "compute_distances_core dispatch (minimum-image path iff periodic and cell; orthorhombic kernel iff every frame orthogonal; box transposed once); "
            "the time-pair kernels dist_t / dist_mic_t / dist_mic_triclinic_t (atom a from frame t1, atom b from frame t2, cell of t1, cell pointer restored after every time pair). "
            "The NumPy reference path (opt=False): _distance, _displacement, _reduce_box_vectors (lattice-preserving, reduced), _distance_mic (wrapped vector in the "
            "centred cell, minimum over its 27 images) on symbolic coordinates. _displacement_mic (orthorhombic) and _distance_mic_t (cell of the first frame of the time pair; orthorhombic and general cells) over the contract of _reduce_box_vectors. Bounded only: float32 effects, _displacement_mic on general cells, _distance_t / _displacement_mic_t."),
    "C06": (_T_C, "Deductive: msdFromMandG on a symbolic inner-product matrix: the code's C_2, C_1, C_0 are the coefficients of det(K - xI) for the Horn/Theobald key "
            "matrix K(M) (exact polynomial identities on the code's own terms), Horn's identity q^T K q = <R(q), M>, msd = max(0,(G_x+G_y-2 lambda)/N), the code's quaternion is "
            "the cofactor vector of K - lambda I (an eigenvector), rot = R(q/|q|) with R^T R = I and det R = +1; Trajectory.superpose / center_coordinates keep the trace "
            "cache consistent; the SSE kernels for 1..9 atoms (every remainder modulo the SIMD width, intrinsics as lane operations, shuffle immediates read from the real "
            "header): msd_atom_major builds M[3i+j] = sum a_i b_j, inplace_center_and_trace_atom_major shifts every frame by its own mean and stores its trace, "
            "rot_atom_major applies x' = x.R -- the index conventions of the three kernels and of Horn's identity agree; msd_atom_major, rot_atom_major and inplace_center_and_trace_atom_major (one frame: lane-sum invariant of the coordinate sums, shift * n = sum over all atoms at the entry of the subtracting loop, `memory = centred below 12k, untouched from 12k on`, trace by its recurrence) additionally for EVERY atom count (n = 4q + r, q symbolic: block-loop invariants -- partial sums defined by their recurrence, tail masks, reads below 3n; in-place rotation as `memory = rotated below 12k, untouched from 12k on`, scalar epilogue, nothing written from 3n on). ASSUMED: DirectSolve returns the largest "
            "root of the quartic -- narrowed by two further contracts: DirectSolve returns the maximum of the four values of quartic_equation_solve_exact, and each of those "
            "values is a root (Ferrari's construction, identities modulo the square-root relations and the resolvent equation); what remains assumed: solve_cubic_equation "
            "delivers the largest real root of the resolvent, and D^2, E^2 >= 0 for four real roots. Bounded only: _rmsd.pyx / lprmsd glue, "
            "float32 effects, the 1e-11 identity threshold (known finding)."),
    "C07": (_T_C, "Deductive: the six angle/dihedral kernels for all frames and items, modularly over the distance kernels' contracts (atom pairs, formula "
            "acos(clip(u.v/|u||v|)), atan2 form of the dihedral with its sign, output index, matching distance variant); reversal/mirror lemmas (sympy); torsion atom tables; "
            "_atom_sequence on 4 topologies; dispatch of compute_angles/compute_dihedrals (orthogonal flag over all frames). Bounded only: float32, chi/phi/psi on real proteins."),
    "C08": (_T_C, "Deductive: asa_frame gives every selected atom an area that is a function of that frame's coordinates only, for ARBITRARY contents of the re-used scratch "
            "buffers on entry (covers every thread schedule); sasa hands every frame its own coordinates and accumulates into that frame's row only; the DSSP driver computes "
            "hydrogen bonds, sheets, helices and bends of frame i from frame i's coordinates and a fresh table; the distance kernels dist / dist_mic, the angle and dihedral kernels "
            "and kabsch_sander write, for an arbitrary frame of a trajectory of symbolic length, a value that is a function of that frame alone into that frame's slots and nothing "
            "else (their C05 / C07 / C14 contracts, re-registered). #pragma omp itself is not interpreted. Bounded only: the remaining per-frame analyses (rmsd, drid, "
            "neighbours, contacts, ...) and bit-identity across OMP_NUM_THREADS."),
    "C09": (_T_PY, "Deductive: only corollaries of other contracts: hydrogen-bond criteria use minimum-image distances for all three sides with the caller's periodic "
            "flag; the distance/angle kernels depend on coordinates through differences (C05/C07 contracts). Bounded only: rigid-motion and lattice-shift invariance of every "
            "observable in float32, neighbour-list voxel hashing (known findings)."),
    "C10": (_T_C, "Deductive: the brute-force kernel _compute_neighbors on 2x1 / 1x2 query/haystack lists with symbolic indices, coordinates, box and cutoff: per-pair "
            "lattice congruence and wrap bounds, result = haystack atoms with some query atom (not itself) within the cutoff, in order. compute_neighborlist's Voxels "
            "structure WITHOUT a cell, against an abstract view of the bins (symbolic grid, atom count, coordinates, cutoff; every loop cut by an inductive invariant): the two "
            "binary searches (bracketing + termination), constructor/getVoxelIndex/insert (closed-voxel membership), and getNeighbors: an arbitrary atom j<i within the cutoff IS "
            "appended (voxel ranges, x window, bracketing, scan, distance test) and every appended atom has a smaller index and lies within the cutoff. Bounded only: longer lists, "
            "compute_neighborlist with a periodic cell (voxel search: known findings), its driver loop (std::sort, OpenMP loop, symmetric completion), float32."),
    "C11": (_T_PY, "Deductive: the Python side of make_molecules_whole / image_molecules on the real Trajectory and Topology classes: the bond table handed to the kernel is "
            "the CURRENT topology's bonds (also after in-place edits of the same Topology), the kernel works on the result's coordinates, cells/times untouched, inplace=False "
            "leaves the original untouched. The Cython kernels make_whole, whole_molecules and wrap_mols are verified on Python text extracted MECHANICALLY from "
            "image_molecules.pxi on every run (mdvc/decython.py lists what the extraction drops: C types, cdef/nogil, C array locals become lists): every atom moves by an "
            "integer combination of the cell vectors (explicit rounding/floor witnesses), atoms that are never a bond's second atom are not moved, every bond ends in the "
            "centred cell, molecules are wrapped as wholes with the centroid inside the cell, frame i uses cell i -- for three bond topologies / two molecules, symbolic "
            "positions and lower-triangular cells. Bounded only: image_frame's anchor clustering, other numberings (known finding), float32, the compiled extension itself "
            "(Cython's translation is trusted and the .pxi cannot be rebuilt here)."),
    "C12": (_T_PY, "Deductive, by structural induction over expression trees (one contract per constructor of mdtraj/core/selection.py, operands abstract, the atom symbolic): "
            "every documented keyword and alias denotes its documented attribute; and/or (2 and 3 operands, both spellings, mixed), not, the six comparisons in both spellings, "
            "range (low <= x <= high), implicit equality and implicit lists, =~ (re.match(pattern, attribute) is not None), literals (numbers, bare words, single/double quotes, quotes "
            "inside quotes) denote their documented meaning through the REAL pipeline (token class .ast(), _RewriteNames, compile, ast.unparse), and the returned source denotes the same; "
            "literals as truth values / compared with literals / in a range / alone and pyparsing's ParseException are rejected with ValueError; the grammar the real _initialize hands "
            "to pyparsing has the five precedence levels tightest-first (=~, comparisons, not, and, or) with the documented spellings, arities, associativity and parse actions, no "
            "spelling shadowed by an earlier prefix, range tried before the implicit list, operator words excluded from literals; Topology.select is a pure observer of the current "
            "topology (same answer after edit histories) and select_expression embeds the parser's source. Assumed: pyparsing's documented semantics (infixNotation, MatchFirst, Keyword, "
            "Group) -- the step from the string to the tree is covered by the bounded grammar enumeration against a reference evaluator only."),
    "C13": (_T_C, "Deductive: asa_frame for symbolic atom and point counts (five loop invariants): the neighbour list is exactly the overlapping other atoms; a sphere point "
            "is rejected iff strictly inside a listed atom, accepted iff inside no other atom (prefilter soundness lemma); areas[i] = 4 pi R_i^2/P * #accessible points, "
            "independent of the old buffer; unselected atoms untouched; sasa: group value = sum over the selected atoms of the group, per frame row; golden-spiral points are "
            "unit vectors at heights (2i+1)/n-1; shrake_rupley's Python wrapper (radii = table/changed value + probe, atom->group mapping, selection mask, -1 / 0 "
            "initialisation of the output). Bounded only: float32 boundary cases, static state across calls."),
    "C14": (_T_C, "Deductive: store_energies keeps the best two (energy, acceptor) pairs per donor (all call sequences by induction); ks_donor_acceptor formula and clamp; "
            "virtual hydrogen placement; kabsch_sander evaluates exactly the complete pairs within the CA prefilter on each frame's own coordinates and offers (ri->rj) / (rj->ri) "
            "iff E < -0.5, not proline, rj != ri+1; baker_hubbard and wernet_nilsson return exactly the triplets meeting the documented criteria (strictness, degrees/radians, "
            "frequency over frames, periodic flag on all three sides) on fixed small shapes with symbolic distances. Bounded only: _get_bond_triplets on real topologies, float32, "
            "chain-boundary hydrogens (known findings)."),
    "C15": (_T_C, "Deductive: the DSSP driver (per-frame call order and arguments, skip mask, code->character table, one character per residue per frame), the bridge patterns "
            "of _residue_test_bridge (Kabsch & Sander), calculate_bends (70 degree kappa rule); calculate_alpha_helices against the rules (n-turns, minimal helices, H/G/I "
            "priorities, turns, bends) for EVERY hydrogen-bond relation on 7-residue chains (8 in the thorough tier; one chain, two chains, with a strand residue and an "
            "incomplete residue); calculate_beta_sheets against the ladder/bulge rules for every bridge table over designed candidate sets (n = 8..17: all pairs, parallel and "
            "antiparallel bulges, gap 5, two chains, incomplete partner); compute_dssp's Python overlay ('NA', simplified alphabet, index tables). These two are complete in "
            "the relation and bounded in the chain length. Bounded only: longer chains and real proteins (independent implementation of the DSSP rules)."),
    "C16": (_T_PY, "Deductive: compute_contacts for all schemes x explicit/'all' pairs x min/soft-min on a topology with unequal residue sizes and symbolic distances (value "
            "= min or soft-min over exactly the designated atom pairs of the returned label); compute_rdf shell normalisation and histogram convention; centre of "
            "geometry/mass, gyration tensor, Rg as closed forms on symbolic coordinates; inertia tensor I_ab = sum m (r^2 delta_ab - r_a r_b) about the centre of mass (the code's two einsum "
            "patterns evaluated by definition); density = mass / volume with the Da/nm^3 -> kg/m^3 factor; the three Karplus J-couplings A cos^2(phi+phase) + B cos(phi+phase) + C "
            "with the published coefficients of every offered model; DRID: the running-moments object keeps mean / sum of squared / cubed deviations "
            "(rational-function identities, all push sequences by induction) and drid_moments returns mean, sqrt(variance), cbrt(third central moment) of the reciprocal "
            "distances to all partners (loop invariant). Bounded only: DRID partner exclusion (drid.pyx), nematic order and the eigenvalue-based shape descriptors, dipoles, float32."),
}
for _pid, (_t, _lt) in _TEXTS.items():
    PROPS[_pid].update(technique=_t, level_text=_lt, level_note=_N, explanation=_lt.split("Bounded only:")[0].strip())
