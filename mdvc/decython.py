"""Mechanical extraction of Python from the Cython subset used by mdtraj/geometry/src/image_molecules.pxi.

Cython is not installed here, so the .pxi text can be neither compiled nor imported.  The functions under contract are rewritten
LINE BY LINE, on every run, from the real file; the rewrite is purely syntactic and DROPS exactly this:
  * `cimport` lines and `cdef extern` blocks (the C functions they declare -- roundf, floorf -- are supplied by the contract as models);
  * the C type annotations of parameters (`float[:,::1] frame_positions` -> `frame_positions`), the `cdef void` / `nogil` of signatures;
  * `cdef <type> a, b, c` declarations without initialiser (removed), `cdef <type> name[N]` C array locals (become `name = [0.0] * N`:
    in the extracted functions every element is written before it is read), `cdef <type> name = expr` (become `name = expr`),
    typed memoryview declarations `cdef int[:] mol` (removed).
What is NOT dropped: every statement, expression, loop bound and index of the function bodies.  float32 arithmetic becomes real
arithmetic in the deductive obligations, as everywhere else.  Functions that take addresses (`&x[0,0]`) are not extractable.
"""
import re


def _strip_param(p):
    p = p.strip()
    if not p:
        return p
    m = re.match(r"^(?:[A-Za-z_][A-Za-z0-9_]*\s*(?:\[[^\]]*\])?\s+)?([A-Za-z_][A-Za-z0-9_]*)$", p)
    if not m:
        raise ValueError(f"cannot strip the type of parameter `{p}`")
    return m.group(1)


def extract(text, names):
    """-> (python source with the requested functions, list of what was dropped (for the evidence))"""
    lines = text.split("\n")
    out, dropped = [], []
    i = 0
    want = None
    while i < len(lines):
        ln = lines[i]
        m = re.match(r"^(?:cdef\s+\w+\s+|def\s+)([A-Za-z_][A-Za-z0-9_]*)\s*\(", ln)
        if m and not ln.startswith(" "):
            # collect the whole signature up to the colon that ends it
            sig = ln
            while not re.search(r"\)\s*(?:nogil\s*)?:\s*(#.*)?$", sig):
                i += 1
                sig += " " + lines[i].strip()
            name = m.group(1)
            want = name in names
            if want:
                inside = sig[sig.index("(") + 1: sig.rindex(")")]
                parts, depth, cur = [], 0, ""
                for ch in inside:  # split on the commas that are not inside a memoryview type like float[:,::1]
                    depth += ch == "["
                    depth -= ch == "]"
                    if ch == "," and depth == 0:
                        parts.append(cur)
                        cur = ""
                    else:
                        cur += ch
                parts.append(cur)
                params = [_strip_param(p) for p in parts if p.strip()]
                out.append(f"def {name}({', '.join(params)}):")
                if ln.startswith("cdef"):
                    dropped.append(f"{name}: cdef/nogil and the C types of its parameters")
            i += 1
            continue
        if want and (ln.startswith(" ") or ln.startswith("\t") or not ln.strip()):
            s = ln.strip()
            ind = ln[: len(ln) - len(ln.lstrip())]
            m1 = re.match(r"^cdef\s+[A-Za-z_][A-Za-z0-9_]*\s+([A-Za-z_][A-Za-z0-9_]*)\[(\d+)\]\s*$", s)
            m2 = re.match(r"^cdef\s+[A-Za-z_][A-Za-z0-9_]*(?:\[[^\]]*\])?\s+([A-Za-z_][A-Za-z0-9_]*)\s*=\s*(.+)$", s)
            m3 = re.match(r"^cdef\s+[A-Za-z_][A-Za-z0-9_]*(?:\[[^\]]*\])?\s+[A-Za-z_][A-Za-z0-9_, ]*$", s)
            if m1:
                out.append(f"{ind}{m1.group(1)} = [0.0] * {m1.group(2)}")
                dropped.append(f"C array local {m1.group(1)}[{m1.group(2)}] -> list")
            elif m2:
                out.append(f"{ind}{m2.group(1)} = {m2.group(2)}")
            elif m3:
                out.append(f"{ind}pass")
            elif "&" in s and not s.startswith("#"):
                raise ValueError(f"address-of expression in `{s}`: not extractable")
            else:
                out.append(ln)
            i += 1
            continue
        want = None if (ln.strip() and not ln.startswith((" ", "\t"))) else want
        i += 1
    return "\n".join(out) + "\n", sorted(set(dropped))
