"""Numeric falsification of an obligation the solver left open.

Nonlinear real arithmetic with uninterpreted transcendental functions is where z3/cvc5 answer
`unknown` on *invalid* obligations (they cannot build the model).  For those, the VC is evaluated
on random concrete assignments with the uninterpreted functions interpreted by the real libm
functions (which satisfy the assumed axioms).  A point where every hypothesis holds and the goal is
false by a clear margin is a counter-example to the VC; it is reported as `refuted` with
backend "numeric" and -- like every refutation -- goes on to native replay.  A numeric failure to
find such a point proves nothing (the obligation stays `undecided`).
"""
from __future__ import annotations

import math
import random

import z3

FUNCS = {
    "cos": math.cos,
    "sin": math.sin,
    "sqrt": lambda x: math.sqrt(x) if x >= 0 else float("nan"),
    "acos": lambda x: math.acos(max(-1.0, min(1.0, x))) if -1.0000001 <= x <= 1.0000001 else float("nan"),
    "atan2": math.atan2,
    "roundf": lambda x: float(math.floor(x + 0.5)) if x >= 0 else -float(math.floor(-x + 0.5)),
    "floorf": lambda x: float(math.floor(x)),
    "fabs": abs,
}


class Fail(Exception):
    pass


def _consts(exprs):
    seen, out = set(), {}
    todo = list(exprs)
    while todo:
        e = todo.pop()
        if e.get_id() in seen:
            continue
        seen.add(e.get_id())
        if z3.is_const(e) and e.decl().kind() == z3.Z3_OP_UNINTERPRETED:
            out[e.decl().name()] = e
        todo.extend(e.children())
    return out


def ev(e, env, cache):
    k = e.get_id()
    if k in cache:
        return cache[k]
    r = _ev(e, env, cache)
    cache[k] = r
    return r


def _ev(e, env, cache):
    if z3.is_int_value(e):
        return float(e.as_long())
    if z3.is_rational_value(e):
        return e.numerator_as_long() / e.denominator_as_long()
    if z3.is_true(e):
        return 1.0
    if z3.is_false(e):
        return -1.0
    d = e.decl()
    kind = d.kind()
    ch = e.children()
    if kind == z3.Z3_OP_UNINTERPRETED:
        name = d.name()
        if not ch:
            if name not in env:
                raise Fail("free " + name)
            return env[name]
        f = FUNCS.get(name)
        if f is None:
            raise Fail("uninterpreted " + name)
        v = f(*[ev(c, env, cache) for c in ch])
        if v != v:
            raise Fail("nan")
        return v
    a = [ev(c, env, cache) for c in ch] if kind not in (z3.Z3_OP_ITE,) else None
    if kind == z3.Z3_OP_ADD:
        return sum(a)
    if kind == z3.Z3_OP_SUB:
        r = a[0]
        for x in a[1:]:
            r -= x
        return r
    if kind == z3.Z3_OP_UMINUS:
        return -a[0]
    if kind == z3.Z3_OP_MUL:
        r = 1.0
        for x in a:
            r *= x
        return r
    if kind in (z3.Z3_OP_DIV, z3.Z3_OP_IDIV):
        if a[1] == 0:
            raise Fail("div0")
        if kind == z3.Z3_OP_IDIV:
            q = math.floor(a[0] / abs(a[1]))
            return float(q if a[1] > 0 else -q)
        return a[0] / a[1]
    if kind == z3.Z3_OP_MOD:
        if a[1] == 0:
            raise Fail("mod0")
        return float(a[0] - abs(a[1]) * math.floor(a[0] / abs(a[1])))
    if kind == z3.Z3_OP_TO_REAL:
        return a[0]
    if kind == z3.Z3_OP_TO_INT:
        return float(math.floor(a[0]))
    if kind == z3.Z3_OP_POWER:
        return a[0] ** a[1]
    if kind == z3.Z3_OP_ITE:
        c = ev(ch[0], env, cache)
        return ev(ch[1], env, cache) if c > 0 else ev(ch[2], env, cache)
    # booleans as signed margins (positive = true)
    if kind == z3.Z3_OP_AND:
        return min(a) if a else 1.0
    if kind == z3.Z3_OP_OR:
        return max(a) if a else -1.0
    if kind == z3.Z3_OP_NOT:
        return -a[0]
    if kind == z3.Z3_OP_IMPLIES:
        return max(-a[0], a[1])
    if kind in (z3.Z3_OP_LE, z3.Z3_OP_LT):
        m = a[1] - a[0]
        s = max(1.0, abs(a[0]), abs(a[1]))
        if kind == z3.Z3_OP_LT and m == 0:
            return -1e-12
        return m / s
    if kind in (z3.Z3_OP_GE, z3.Z3_OP_GT):
        m = a[0] - a[1]
        s = max(1.0, abs(a[0]), abs(a[1]))
        if kind == z3.Z3_OP_GT and m == 0:
            return -1e-12
        return m / s
    if kind == z3.Z3_OP_EQ:
        if z3.is_bool(ch[0]):
            return min(abs(a[0]), abs(a[1])) if (a[0] > 0) == (a[1] > 0) else -min(abs(a[0]), abs(a[1]))
        s = max(1.0, abs(a[0]), abs(a[1]))
        return 1e-7 - abs(a[0] - a[1]) / s
    if kind == z3.Z3_OP_DISTINCT:
        s = max(1.0, abs(a[0]), abs(a[1]))
        return abs(a[0] - a[1]) / s - 1e-7
    if kind == z3.Z3_OP_XOR:
        return -(min(abs(a[0]), abs(a[1])) if (a[0] > 0) == (a[1] > 0) else -min(abs(a[0]), abs(a[1])))
    raise Fail(f"op {d.name()}")


def refute(hyps, goal, tries=400, seed=0, margin=1e-4):
    """-> dict assignment or None"""
    if isinstance(goal, bool):
        goal = z3.BoolVal(goal)
    consts = _consts(list(hyps) + [goal])
    if len(consts) > 60:
        return None
    rng = random.Random(seed)
    names = sorted(consts)
    for t in range(tries):
        env = {}
        scale = [1.0, 3.0, 10.0, 100.0][t % 4]
        for n in names:
            c = consts[n]
            if z3.is_int(c):
                env[n] = float(rng.randint(-3, 8) if t % 2 else rng.randint(0, 5))
            elif z3.is_real(c):
                env[n] = rng.uniform(-scale, scale) if t % 3 else rng.uniform(0.05, scale)
            elif z3.is_bool(c):
                env[n] = 1.0 if rng.random() < 0.5 else -1.0
            else:
                return None
        cache = {}
        try:
            if any(ev(h, env, cache) < -1e-9 for h in hyps):
                continue
            g = ev(goal, env, cache)
        except (Fail, OverflowError, ValueError, ZeroDivisionError):
            continue
        if g < -margin:
            return {n: (v if not z3.is_bool(consts[n]) else v > 0) for n, v in env.items()} | {"__goal_margin": g}
    return None
