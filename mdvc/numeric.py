"""Numeric falsification of an obligation the solver left open.

Nonlinear real arithmetic with uninterpreted transcendental functions is where z3/cvc5 answer
`unknown` on *invalid* obligations (they cannot build the model).  For those, the VC is evaluated
on random concrete assignments with the uninterpreted functions interpreted by the real libm
functions (which satisfy the assumed axioms).  Constants that the hypotheses *define*
(`k == term`, rounding/floor witnesses `|n - t| <= 1/2`) are computed rather than sampled; array
reads get consistent pseudo-random contents.  A point where every hypothesis holds and the goal is
false by a clear margin is a counter-example to the VC; it is reported as `refuted` with backend
"numeric" and -- like every refutation -- goes on to native replay.  Failing to find such a point
proves nothing (the obligation stays `undecided`).
"""
from __future__ import annotations

import math
import random

import z3

FUNCS = {
    "cos": math.cos,
    "sin": math.sin,
    "sqrt": lambda x: math.sqrt(x) if x >= 0 else float("nan"),
    "acos": lambda x: math.acos(max(-1.0, min(1.0, x))) if -1.0000001 <= x <= 1.0000001 else float("nan"),
    "atan2": math.atan2,
    "fabs": abs,
}


class Fail(Exception):
    pass


def register(name, fn):
    """contracts may give their uninterpreted spec functions a numeric interpretation (any function satisfying the
    axioms the contract assumes about it), so that invalid VCs mentioning them can be falsified numerically"""
    FUNCS[name] = fn


def pseudo(*key):
    """deterministic pseudo-random real in (-3, 3) for a tuple of arguments"""
    return random.Random(hash(key)).uniform(-3.0, 3.0)


def _flatten(hyps):
    out = []
    todo = list(hyps)
    while todo:
        h = todo.pop()
        if z3.is_and(h):
            todo.extend(h.children())
        else:
            out.append(h)
    return out


def _consts(exprs):
    seen, out = set(), {}
    todo = list(exprs)
    while todo:
        e = todo.pop()
        if e.get_id() in seen:
            continue
        seen.add(e.get_id())
        if z3.is_const(e) and e.decl().kind() == z3.Z3_OP_UNINTERPRETED:
            out[e.decl().name()] = e
        todo.extend(e.children())
    return out


def _is_uconst(e):
    return z3.is_const(e) and e.decl().kind() == z3.Z3_OP_UNINTERPRETED and not z3.is_array(e)


def _toreal_const(e):
    """ToReal(n) with n an uninterpreted Int constant -> n's name"""
    if z3.is_app_of(e, z3.Z3_OP_TO_REAL) and _is_uconst(e.arg(0)):
        return e.arg(0).decl().name()
    return None


def _find_defs(atoms):
    """constants defined by the hypotheses: name -> ('eq', term) | ('round', term) | ('floor', term)"""
    defs = {}
    for a in atoms:
        if z3.is_eq(a):
            l, r = a.children()
            for k, e in ((l, r), (r, l)):
                if _is_uconst(k) and k.decl().name() not in defs and k.decl().name() not in _consts([e]):
                    defs[k.decl().name()] = ("eq", e)
                    break
    for a in atoms:
        # k * e == c   (e.g. recip * diagonal == 1)  ->  k := c / e
        if z3.is_eq(a):
            l, r = a.children()
            if z3.is_app_of(l, z3.Z3_OP_MUL) and l.num_args() == 2 and (z3.is_rational_value(r) or z3.is_int_value(r)):
                for k, e in ((l.arg(0), l.arg(1)), (l.arg(1), l.arg(0))):
                    if _is_uconst(k) and k.decl().name() not in defs and k.decl().name() not in _consts([e]):
                        defs[k.decl().name()] = ("eq", r / e)
                        break
    for a in atoms:
        if z3.is_le(a) or z3.is_ge(a):
            l, r = a.children()
            if z3.is_ge(a):
                l, r = r, l
            # ToReal(n) - t <= 1/2 : rounding witness
            if z3.is_app_of(l, z3.Z3_OP_SUB) and l.num_args() == 2 and z3.is_rational_value(r) \
                    and r.numerator_as_long() == 1 and r.denominator_as_long() == 2:
                n = _toreal_const(l.arg(0))
                if n and n not in defs:
                    defs[n] = ("round", l.arg(1))
                    continue
            # ToReal(n) <= t (with t < ToReal(n) + 1) : floor witness
            n = _toreal_const(l)
            if n and n not in defs:
                defs[n] = ("floor", r)
    return defs


class Evaluator:
    def __init__(self, env, defs, rng):
        self.env = env
        self.defs = defs
        self.cache = {}
        self.arrays = {}
        self.rng_seed = rng.random()
        self.busy = set()

    def const(self, name, e):
        if name in self.env:
            return self.env[name]
        if name in self.defs:
            if name in self.busy:
                raise Fail("cyclic definition")
            self.busy.add(name)
            kind, t = self.defs[name]
            v = self.ev(t)
            self.busy.discard(name)
            if kind == "round":
                v = float(math.floor(v + 0.5))
            elif kind == "floor":
                v = float(math.floor(v))
            elif z3.is_int(e):
                v = float(round(v))
            self.env[name] = v
            return v
        raise Fail("free " + name)

    def array(self, a, idx):
        # Store chains
        while z3.is_app_of(a, z3.Z3_OP_STORE):
            base, i, v = a.children()
            if abs(self.ev(i) - idx) < 1e-9:
                return self.ev(v)
            a = base
        if z3.is_const(a):
            key = (a.decl().name(), round(idx))
            if key not in self.arrays:
                r = random.Random(hash((key, self.rng_seed)))
                rng_sort = a.sort().range()
                self.arrays[key] = float(r.randint(0, 3)) if rng_sort == z3.IntSort() else r.uniform(-4.0, 4.0)
            return self.arrays[key]
        if z3.is_K(a):
            return self.ev(a.arg(0))
        raise Fail("array term")

    def pin(self, atoms):
        """array cells constrained by the hypotheses (cell == c, cell > 0, ...) are set accordingly"""
        for a in atoms:
            try:
                if z3.is_eq(a) or z3.is_gt(a) or z3.is_ge(a) or z3.is_lt(a) or z3.is_le(a):
                    l, r = a.children()
                    for cell, other, flip in ((l, r, False), (r, l, True)):
                        const_other = z3.is_rational_value(other) or z3.is_int_value(other)
                        if z3.is_app_of(cell, z3.Z3_OP_SELECT) and z3.is_const(cell.arg(0)) and (const_other or (z3.is_eq(a) and not z3.is_app_of(other, z3.Z3_OP_SELECT))):
                            idx = round(self.ev(cell.arg(1)))
                            key = (cell.arg(0).decl().name(), idx)
                            c = self.ev(other)
                            cur = self.array(cell.arg(0), idx)
                            gt = (z3.is_gt(a) or z3.is_ge(a)) != flip
                            if z3.is_eq(a):
                                self.arrays[key] = c
                            elif gt and not cur > c:
                                self.arrays[key] = c + abs(cur) + 0.5
                            elif (not gt) and not cur < c:
                                self.arrays[key] = c - abs(cur) - 0.5
                            self.cache.clear()
                            break
            except Fail:
                continue

    def ev(self, e):
        k = e.get_id()
        if k in self.cache:
            return self.cache[k]
        r = self._ev(e)
        self.cache[k] = r
        return r

    def _ev(self, e):
        if z3.is_int_value(e):
            return float(e.as_long())
        if z3.is_rational_value(e):
            return e.numerator_as_long() / e.denominator_as_long()
        if z3.is_true(e):
            return 1.0
        if z3.is_false(e):
            return -1.0
        d = e.decl()
        kind = d.kind()
        ch = e.children()
        if kind == z3.Z3_OP_UNINTERPRETED:
            name = d.name()
            if not ch:
                return self.const(name, e)
            f = FUNCS.get(name)
            if f is None:
                raise Fail("uninterpreted " + name)
            v = f(*[self.ev(c) for c in ch])
            if v != v:
                raise Fail("nan")
            return v
        if kind == z3.Z3_OP_SELECT:
            return self.array(ch[0], self.ev(ch[1]))
        if kind == z3.Z3_OP_ITE:
            return self.ev(ch[1]) if self.ev(ch[0]) > 0 else self.ev(ch[2])
        a = [self.ev(c) for c in ch]
        if kind == z3.Z3_OP_ADD:
            return sum(a)
        if kind == z3.Z3_OP_SUB:
            r = a[0]
            for x in a[1:]:
                r -= x
            return r
        if kind == z3.Z3_OP_UMINUS:
            return -a[0]
        if kind == z3.Z3_OP_MUL:
            r = 1.0
            for x in a:
                r *= x
            return r
        if kind in (z3.Z3_OP_DIV, z3.Z3_OP_IDIV):
            if a[1] == 0:
                raise Fail("div0")
            if kind == z3.Z3_OP_IDIV:
                q = math.floor(a[0] / abs(a[1]))
                return float(q if a[1] > 0 else -q)
            return a[0] / a[1]
        if kind == z3.Z3_OP_MOD:
            if a[1] == 0:
                raise Fail("mod0")
            return float(a[0] - abs(a[1]) * math.floor(a[0] / abs(a[1])))
        if kind == z3.Z3_OP_TO_REAL:
            return a[0]
        if kind == z3.Z3_OP_TO_INT:
            return float(math.floor(a[0]))
        if kind == z3.Z3_OP_POWER:
            return a[0] ** a[1]
        # booleans as signed margins (positive = true)
        if kind == z3.Z3_OP_AND:
            return min(a) if a else 1.0
        if kind == z3.Z3_OP_OR:
            return max(a) if a else -1.0
        if kind == z3.Z3_OP_NOT:
            return -a[0]
        if kind == z3.Z3_OP_IMPLIES:
            return max(-a[0], a[1])
        if kind in (z3.Z3_OP_LE, z3.Z3_OP_LT):
            m = a[1] - a[0]
            s = max(1.0, abs(a[0]), abs(a[1]))
            if kind == z3.Z3_OP_LT and m == 0:
                return -1e-12
            return m / s
        if kind in (z3.Z3_OP_GE, z3.Z3_OP_GT):
            m = a[0] - a[1]
            s = max(1.0, abs(a[0]), abs(a[1]))
            if kind == z3.Z3_OP_GT and m == 0:
                return -1e-12
            return m / s
        if kind == z3.Z3_OP_EQ:
            if z3.is_bool(ch[0]):
                return min(abs(a[0]), abs(a[1])) if (a[0] > 0) == (a[1] > 0) else -min(abs(a[0]), abs(a[1]))
            s = max(1.0, abs(a[0]), abs(a[1]))
            return 1e-7 - abs(a[0] - a[1]) / s
        if kind == z3.Z3_OP_DISTINCT:
            s = max(1.0, abs(a[0]), abs(a[1]))
            return abs(a[0] - a[1]) / s - 1e-7
        raise Fail(f"op {d.name()}")


def refute(hyps, goal, tries=300, seed=0, margin=1e-4):
    """-> dict assignment or None"""
    if isinstance(goal, bool):
        goal = z3.BoolVal(goal)
    atoms = _flatten(hyps)
    consts = _consts(atoms + [goal])
    if len(consts) > 400:
        return None
    defs = _find_defs(atoms)
    free = sorted(n for n, c in consts.items() if n not in defs and not z3.is_array(c))
    rng = random.Random(seed)
    for t in range(tries):
        env = {}
        scale = [1.0, 3.0, 10.0, 100.0][t % 4]
        for n in free:
            c = consts[n]
            if z3.is_int(c):
                env[n] = float(rng.randint(-3, 8) if t % 2 else rng.randint(0, 5))
            elif z3.is_real(c):
                env[n] = rng.uniform(-scale, scale) if t % 3 else rng.uniform(0.05, scale)
            elif z3.is_bool(c):
                env[n] = 1.0 if rng.random() < 0.5 else -1.0
            else:
                env = None
                break
        if env is None:
            return None
        E = Evaluator(env, defs, rng)
        try:
            E.pin(atoms)
            E.env = dict(env)  # definitions computed during pinning are recomputed with the pinned cells
            E.cache.clear()
            if any(E.ev(h) < -1e-6 for h in atoms):
                continue
            g = E.ev(goal)
        except (Fail, OverflowError, ValueError, ZeroDivisionError, RecursionError):
            continue
        if g < -margin:
            out = {n: (v if not z3.is_bool(consts[n]) else v > 0) for n, v in E.env.items() if n in consts and not n.startswith(("join!", "lem!"))}
            out["__goal_margin"] = g
            out["__array_cells"] = {f"{k[0]}[{k[1]}]": v for k, v in list(E.arrays.items())[:40]}
            return out
    return None
