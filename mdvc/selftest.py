"""Engine self-test on a tiny fixture: the correct function must verify, the broken twin must be
refuted with a counter-model.  Guards against an engine that passes everything."""
import os
import tempfile

import z3

from mdvc import core, pyinterp, verify

GOOD = '''
class Cursor:
    def read(self, n=None):
        total = self.total
        if n is None:
            n = total - self.pos
        k = min(n, total - self.pos)
        self.pos += k
        return k
'''
BAD = GOOD.replace("self.pos += k", "self.pos += n")


def _check(src):
    d = tempfile.mkdtemp(prefix="mdvc-selftest-", dir="/dev/shm" if os.path.isdir("/dev/shm") else None)
    try:
        with open(os.path.join(d, "fix.py"), "w") as fh:
            fh.write(src)

        def harness(ctx, case):
            m = ctx.module("fix.py")
            N, pos, n = ctx.int("N"), ctx.int("pos"), ctx.int("n")
            ctx.assume(N >= 0, pos >= 0, pos <= N, n >= 1)
            o = pyinterp.Obj(m.globals["Cursor"], total=N, pos=pos)
            out = ctx.call_method(o, "read", n)
            ctx.ensure("pos<=N", core.term(o.fields["pos"]) <= core.term(N))

        con = verify.Contract("T", "fix.py", "Cursor.read", harness, None, None, "py", None, "", None, 100, "function")
        return verify.Runner(repo=d).run_contract(con)
    finally:
        import shutil

        shutil.rmtree(d, ignore_errors=True)


def run():
    g = _check(GOOD)
    b = _check(BAD)
    ok = g.status == "discharged" and b.status == "refuted" and len(g.obligations) > 0
    if not ok:
        print("engine self-test failed:", g.to_json(), b.to_json())
    return ok
