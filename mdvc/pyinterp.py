"""mdvc.pyinterp -- symbolic interpreter for the Python `ast` of the real mdtraj source files.

The text that is executed is the text in /repo, re-read on every run: a module is parsed with
`ast.parse`, its top level is executed by this interpreter (imports are resolved against a
registry of *models*, i.e. assumed contracts for external packages), and functions / methods are
found by qualified name.  Nothing is rewritten.  What is dropped: docstrings and `warnings.warn`
calls (no-ops), type annotations.

Values are ordinary Python objects (executed with CPython's own semantics) or symbolic objects:
`core.SInt/SReal/SBool`, heap objects `Obj` of interpreted classes, and *model objects* supplied by
contracts (anything with `sym_getattr/sym_call/...` hooks).  Control flow on a symbolic condition
forks the path through `core.Explorer.branch`.
"""
from __future__ import annotations

import ast
import builtins as _bi
import operator
import os

import z3

from . import core
from .core import SBool, SInt, SNum, SReal, Sym, Unsupported, is_sym

# --------------------------------------------------------------------------------------------
# interpreted-world exceptions


class ExcClass:
    def __init__(self, name, bases=()):
        self.name = name
        self.bases = tuple(bases)

    def mro_names(self):
        out = [self.name]
        for b in self.bases:
            out += b.mro_names()
        return out

    def __call__(self, *args, **kw):
        return ExcInst(self, args)

    def __repr__(self):
        return f"<exc {self.name}>"


class ExcInst:
    def __init__(self, cls, args=()):
        self.cls = cls
        self.args = args

    def __repr__(self):
        return f"{self.cls.name}{self.args!r}"


class PyExc(Exception):
    """An exception travelling through interpreted code."""

    def __init__(self, inst):
        self.inst = inst
        super().__init__(repr(inst))

    @property
    def name(self):
        return self.inst.cls.name


def _mk_exc_table():
    t = {}
    base = ExcClass("BaseException")
    t["BaseException"] = base
    exc = ExcClass("Exception", [base])
    t["Exception"] = exc

    def add(n, *bases):
        t[n] = ExcClass(n, [t[b] for b in bases] or [exc])

    add("ArithmeticError")
    add("ZeroDivisionError", "ArithmeticError")
    add("OverflowError", "ArithmeticError")
    add("LookupError")
    add("IndexError", "LookupError")
    add("KeyError", "LookupError")
    add("OSError")
    t["IOError"] = t["OSError"]
    t["EnvironmentError"] = t["OSError"]
    add("FileNotFoundError", "OSError")
    add("FileExistsError", "OSError")
    add("ValueError")
    add("UnicodeDecodeError", "ValueError")
    add("TypeError")
    add("AttributeError")
    add("RuntimeError")
    add("NotImplementedError", "RuntimeError")
    add("AssertionError")
    add("StopIteration")
    add("ImportError")
    add("NameError")
    add("EOFError")
    add("Warning")
    add("UserWarning", "Warning")
    add("DeprecationWarning", "Warning")
    return t


EXC = _mk_exc_table()


def raise_py(name, *args):
    raise PyExc(ExcInst(EXC[name], args))


class _Return(Exception):
    def __init__(self, v):
        self.v = v


class _Break(Exception):
    pass


class _Continue(Exception):
    pass


# --------------------------------------------------------------------------------------------
# interpreted-world classes, instances, functions


class ClassObj:
    def __init__(self, name, bases, ns, module):
        self.name = name
        self.bases = bases
        self.ns = ns
        self.module = module

    def lookup(self, attr):
        if attr in self.ns:
            return self.ns[attr]
        for b in self.bases:
            if isinstance(b, ClassObj):
                try:
                    return b.lookup(attr)
                except KeyError:
                    pass
        raise KeyError(attr)

    def is_subclass(self, other):
        if self is other:
            return True
        for b in self.bases:
            if isinstance(b, ClassObj):
                if b.is_subclass(other):
                    return True
            elif b is other or (isinstance(b, type) and isinstance(other, type) and issubclass(b, other)):
                return True  # an interpreted class deriving from a native (model) class
        return False

    def __repr__(self):
        return f"<class {self.name}>"


def _class_chain(cls):
    out, todo = [], [cls]
    while todo:
        c = todo.pop()
        out.append(c)
        todo += [b for b in c.bases if isinstance(b, ClassObj)]
    return out


class Obj:
    """Instance of an interpreted class (heap object).  Fields are plain Python attributes of
    `fields`."""

    def __init__(self, cls, **fields):
        self.cls = cls
        self.fields = dict(fields)

    def __repr__(self):
        return f"<{self.cls.name} obj {id(self) & 0xFFFF:x}>"

    # Python-level protocol (dict keys, sorted(), ==) is delegated to the interpreted class, so that
    # e.g. a dict keyed by Atom objects behaves as it does under CPython (Atom.__hash__/__eq__)
    def _has(self, name):
        try:
            self.cls.lookup(name)
            return True
        except KeyError:
            return False

    def __hash__(self):
        if CURRENT_INTERP and self._has("__hash__"):
            h = CURRENT_INTERP[-1].call_method(self, "__hash__", [], {})
            return hash(h) if not isinstance(h, int) else h
        return id(self) >> 4

    def __eq__(self, other):
        if self is other:
            return True
        if CURRENT_INTERP and self._has("__eq__"):
            r = CURRENT_INTERP[-1].call_method(self, "__eq__", [other], {})
            return CURRENT_INTERP[-1].truth(r)
        return False

    def __ne__(self, other):
        return not self.__eq__(other)

    def _cmp(self, name, other):
        if CURRENT_INTERP and self._has(name):
            return CURRENT_INTERP[-1].truth(CURRENT_INTERP[-1].call_method(self, name, [other], {}))
        return NotImplemented

    def __lt__(self, other):
        return self._cmp("__lt__", other)

    def __gt__(self, other):
        return self._cmp("__gt__", other)

    def __le__(self, other):
        return self._cmp("__le__", other)

    def __ge__(self, other):
        return self._cmp("__ge__", other)

    def __iter__(self):
        if "_tuple" in self.fields:
            return iter(self.fields["_tuple"])
        raise TypeError("object is not iterable")

    def __len__(self):
        if "_tuple" in self.fields:
            return len(self.fields["_tuple"])
        raise TypeError("object has no len()")

    def __getitem__(self, k):
        if "_tuple" in self.fields:
            return self.fields["_tuple"][k]
        raise TypeError("object is not subscriptable")


CURRENT_INTERP = []


class SuperProxy:
    def __init__(self, owner, inst):
        self.owner = owner
        self.inst = inst


class PropertyObj:
    def __init__(self, fget=None, fset=None):
        self.fget = fget
        self.fset = fset

    def setter(self, f):
        return PropertyObj(self.fget, f)

    def getter(self, f):
        return PropertyObj(f, self.fset)


class StaticM:
    def __init__(self, f):
        self.f = f


class ClassM:
    def __init__(self, f):
        self.f = f


class Closure:
    def __init__(self, node, env, module, qualname):
        self.node = node
        self.env = env  # enclosing Env or None
        self.module = module
        self.qualname = qualname
        self.defaults = None
        self.kw_defaults = None
        self.owner = None

    def __repr__(self):
        return f"<function {self.qualname}>"


class BoundMethod:
    def __init__(self, func, self_obj):
        self.func = func
        self.self_obj = self_obj


class Env:
    __slots__ = ("vars", "parent", "globals", "nonlocal_names", "global_names")

    def __init__(self, parent, globals_):
        self.vars = {}
        self.parent = parent
        self.globals = globals_
        self.nonlocal_names = set()
        self.global_names = set()

    def lookup(self, name):
        e = self
        while e is not None:
            if name in e.vars:
                return e.vars[name]
            e = e.parent
        if name in self.globals:
            return self.globals[name]
        raise KeyError(name)

    def assign(self, name, v):
        if name in self.global_names:
            self.globals[name] = v
            return
        if name in self.nonlocal_names:
            e = self.parent
            while e is not None:
                if name in e.vars:
                    e.vars[name] = v
                    return
                e = e.parent
        self.vars[name] = v


class Unavailable:
    """A module-level name whose defining expression is outside the subset; fails on use."""

    def __init__(self, why):
        self.why = why


class OpaqueModule:
    """An imported module/name with no model: any *use* is Unsupported."""

    def __init__(self, name):
        self._name = name

    def sym_getattr(self, interp, attr):
        return OpaqueModule(self._name + "." + attr)

    def sym_call(self, interp, args, kwargs):
        raise Unsupported(f"call to unmodelled external {self._name}")

    def __repr__(self):
        return f"<opaque {self._name}>"


class Namespace:
    """A model namespace (stub module): attributes from a dict."""

    def __init__(self, _nsname, **attrs):
        self._name = _nsname
        self._attrs = dict(attrs)

    def sym_getattr(self, interp, attr):
        if attr in self._attrs:
            return self._attrs[attr]
        return OpaqueModule(self._name + "." + attr)

    def __repr__(self):
        return f"<model namespace {self._name}>"


# --------------------------------------------------------------------------------------------
# loop specifications (inductive invariants supplied by contracts)


class Formatted:
    """a symbolic value inside an f-string / str.format / % with its format specification"""

    def __init__(self, value, spec):
        self.value, self.spec = value, spec

    def __repr__(self):
        return f"<{self.value!r}:{self.spec}>"


class LoopSpec:
    """Invariant for a loop with a symbolic trip count.

    `havoc(interp, env)`   : replace the loop-modified state by fresh symbols (returns ghost dict)
    `invariant(interp, env, ghost)` : list of (name, z3 Bool)
    `bind_iter(interp, env, ghost)` : for `for` loops: bind the loop target for an arbitrary iteration;
                                      returns z3 Bool 'iteration is in range'
    `after(interp, env, ghost)`     : assumptions on loop exit (for `for` loops: index == length)
    """

    def __init__(self, havoc, invariant, bind_iter=None, advance=None, after=None):
        self.havoc = havoc
        self.invariant = invariant
        self.bind_iter = bind_iter
        self.advance = advance
        self.after = after


# --------------------------------------------------------------------------------------------


class Module:
    def __init__(self, interp, path, name, source=None):
        self.path = path
        self.name = name
        if source is not None:
            self.source = source  # text extracted mechanically from the real file at `path` (mdvc/decython.py)
        else:
            with open(path, encoding="utf-8") as fh:
                self.source = fh.read()
        self.tree = ast.parse(self.source, filename=path)
        self.globals = {"__name__": name, "__file__": path}
        self.interp = interp


_BINOPS = {
    ast.Add: operator.add,
    ast.Sub: operator.sub,
    ast.Mult: operator.mul,
    ast.Div: operator.truediv,
    ast.FloorDiv: operator.floordiv,
    ast.Mod: operator.mod,
    ast.Pow: operator.pow,
    ast.BitAnd: operator.and_,
    ast.BitOr: operator.or_,
    ast.BitXor: operator.xor,
    ast.LShift: operator.lshift,
    ast.RShift: operator.rshift,
    ast.MatMult: operator.matmul,
}
_CMPOPS = {
    ast.Eq: operator.eq,
    ast.NotEq: operator.ne,
    ast.Lt: operator.lt,
    ast.LtE: operator.le,
    ast.Gt: operator.gt,
    ast.GtE: operator.ge,
}

_SAFE_BUILTINS = {
    n: getattr(_bi, n)
    for n in (
        "abs all any bool bytes chr dict divmod enumerate filter float frozenset hash int iter "
        "len list map max min next object ord pow range repr reversed round set slice sorted str sum tuple "
        "zip callable format id"
    ).split()
}


def _concretise_bool_array(r):
    """an elementwise comparison of a NumPy object array holding symbolic reals yields an object array of symbolic
    booleans; real NumPy would have produced dtype=bool, which later code relies on (boolean indexing, compress, mean).
    Decide every element by forking the path (bool(SBool) asks the explorer), exactly as a scalar `if` would."""
    try:
        import numpy as _np
    except ImportError:  # pragma: no cover
        return r
    if isinstance(r, _np.ndarray) and r.dtype == object and r.size and all(isinstance(x, (SBool, bool, _np.bool_)) for x in r.flat):
        out = _np.zeros(r.shape, dtype=bool)
        flat = out.reshape(-1)
        for i, x in enumerate(r.flat):
            flat[i] = bool(x)
        return out
    return r


class Interp:
    def __init__(self, explorer=None, repo="/repo"):
        self.ex = explorer
        self.repo = repo
        self.modules = {}
        self.import_models = {}  # dotted name -> model object (for `import x` / `from x import y`)
        self.call_models = {}  # qualname -> callable(interp, args, kwargs) replacing a repo function
        self.loop_specs = {}  # (qualname, ordinal) -> LoopSpec
        self.dropped = []  # log of dropped constructs
        self.trace_calls = []
        self.depth = 0
        self.max_depth = 60
        self.unroll_limit = 64
        CURRENT_INTERP.clear()
        CURRENT_INTERP.append(self)

    # -- module loading ---------------------------------------------------------------------
    def load_module(self, relpath, name=None):
        path = os.path.join(self.repo, relpath)
        name = name or relpath[:-3].replace("/", ".")
        if name in self.modules:
            return self.modules[name]
        m = Module(self, path, name)
        self.modules[name] = m
        env = Env(None, m.globals)
        env.vars = m.globals
        for st in m.tree.body:
            try:
                self.exec_stmt(st, env, m, qual="")
            except (Unsupported, PyExc) as e:
                for n in _assigned_names(st):
                    m.globals[n] = Unavailable(f"{type(e).__name__}: {e}")
        return m

    def load_source(self, name, source, path):
        """load a module from text (used for Python extracted mechanically from a .pxi file)"""
        m = Module(self, path, name, source=source)
        self.modules[name] = m
        env = Env(None, m.globals)
        env.vars = m.globals
        for st in m.tree.body:
            self.exec_stmt(st, env, m, qual="")
        return m

    def resolve_import(self, dotted, module):
        if dotted in self.import_models:
            return self.import_models[dotted]
        return OpaqueModule(dotted)

    def get_function(self, module, qualname):
        """qualname like 'HDF5TrajectoryFile.read' or 'load'."""
        parts = qualname.split(".")
        v = module.globals[parts[0]]
        for p in parts[1:]:
            if isinstance(v, ClassObj):
                v = v.lookup(p)
            else:
                raise KeyError(qualname)
        return v

    # -- names --------------------------------------------------------------------------------
    def lookup(self, name, env):
        try:
            v = env.lookup(name)
        except KeyError:
            if name in self.builtins:
                return self.builtins[name]
            raise_py("NameError", name)
        if isinstance(v, Unavailable):
            raise Unsupported(f"name {name} unavailable: {v.why}")
        return v

    @property
    def builtins(self):
        b = getattr(self, "_builtins", None)
        if b is None:
            b = dict(_SAFE_BUILTINS)
            b.update(EXC)
            b.update(
                {
                    "True": True,
                    "False": False,
                    "None": None,
                    "isinstance": self._b_isinstance,
                    "issubclass": self._b_issubclass,
                    "hasattr": self._b_hasattr,
                    "getattr": self._b_getattr,
                    "setattr": self._b_setattr,
                    "len": self._b_len,
                    "min": self._b_min,
                    "max": self._b_max,
                    "int": self._b_int,
                    "float": self._b_float,
                    "bool": self._b_bool,
                    "abs": self._b_abs,
                    "hash": self._b_hash,
                    "next": self._b_next,
                    "property": PropertyObj,
                    "staticmethod": StaticM,
                    "classmethod": ClassM,
                    "super": self._b_super,
                    "print": lambda *a, **k: None,
                    "type": self._b_type,
                    "NotImplemented": NotImplemented,
                    "Ellipsis": Ellipsis,
                    "open": OpaqueModule("open"),
                    "locals": OpaqueModule("locals"),
                    "vars": self._b_vars,
                }
            )
            self._builtins = b
        return b

    # builtins with symbolic awareness
    def _b_isinstance(self, v, t):
        if isinstance(t, tuple):
            return any(self._b_isinstance(v, x) for x in t)
        if hasattr(v, "sym_isinstance"):
            return v.sym_isinstance(self, t)
        if isinstance(t, ClassObj):
            return isinstance(v, Obj) and v.cls.is_subclass(t)
        if isinstance(t, ExcClass):
            return isinstance(v, ExcInst) and t.name in v.cls.mro_names()
        if hasattr(t, "sym_instancecheck"):
            return t.sym_instancecheck(self, v)
        if isinstance(v, SInt):
            return t in (int, object)
        if isinstance(v, SReal):
            return t in (float, object)
        if isinstance(v, SBool):
            return t in (bool, int, object)
        if isinstance(t, type):
            if isinstance(v, Obj):
                # instance of an interpreted class that derives from a native (model) class
                return any(b is t or (isinstance(b, type) and issubclass(b, t)) for c in _class_chain(v.cls) for b in c.bases if not isinstance(b, ClassObj))
            return isinstance(v, t)
        raise Unsupported(f"isinstance against {t!r}")

    def _b_issubclass(self, a, b):
        if isinstance(a, ClassObj) and isinstance(b, ClassObj):
            return a.is_subclass(b)
        if isinstance(a, type) and isinstance(b, type):
            return issubclass(a, b)
        raise Unsupported("issubclass")

    def _b_vars(self, o):
        """vars(obj): the instance dictionary (interpreted objects: their field table)"""
        if isinstance(o, Obj):
            return o.fields
        if hasattr(o, "sym_vars"):
            return o.sym_vars(self)
        return vars(o)

    def _b_hasattr(self, o, name):
        try:
            self.getattr(o, name)
            return True
        except PyExc as e:
            if e.name == "AttributeError":
                return False
            raise

    def _b_getattr(self, o, name, *default):
        try:
            return self.getattr(o, name)
        except PyExc as e:
            if e.name == "AttributeError" and default:
                return default[0]
            raise

    def _b_setattr(self, o, name, v):
        self.setattr(o, name, v)

    def _b_len(self, v):
        if hasattr(v, "sym_len"):
            return v.sym_len(self)
        if isinstance(v, Obj):
            return self.call_method(v, "__len__", [], {})
        return len(v)

    def _b_min(self, *a, **k):
        if len(a) == 1 and not k:
            a = tuple(a[0])
        if k:
            return min(*a, **k)
        r = a[0]
        for x in a[1:]:
            r = core.smin(r, x)
        return r

    def _b_max(self, *a, **k):
        if len(a) == 1 and not k:
            a = tuple(a[0])
        if k:
            return max(*a, **k)
        r = a[0]
        for x in a[1:]:
            r = core.smax(r, x)
        return r

    def _b_int(self, v=0, *a):
        if isinstance(v, SInt):
            return v
        if isinstance(v, SBool):
            return SInt(z3.If(v.t, z3.IntVal(1), z3.IntVal(0)))
        if hasattr(v, "sym_int"):
            return v.sym_int(self)
        if isinstance(v, SReal):
            raise Unsupported("int() of symbolic real")
        return int(v, *a)

    def _b_float(self, v=0.0):
        if isinstance(v, SReal):
            return v
        if isinstance(v, SInt):
            return SReal(z3.ToReal(v.t))
        if hasattr(v, "sym_float"):
            return v.sym_float(self)
        if isinstance(v, Obj):
            if v._has("__float__"):
                return self.call_method(v, "__float__", [], {})
            raise_py("TypeError", f"float() argument must be a string or a real number, not '{v.cls.name}'")
        try:
            return float(v)
        except (TypeError, ValueError) as ex:
            raise PyExc(ExcInst(EXC[type(ex).__name__], ex.args))

    def _b_bool(self, v=False):
        return self.truth(v)

    def _b_abs(self, v):
        return abs(v)

    def _b_hash(self, v):
        if isinstance(v, Obj) and not v._has("__hash__") and v._has("__eq__"):
            raise_py("TypeError", "unhashable type")
        return hash(v)

    def _b_next(self, it, *default):
        if isinstance(it, GenResult):
            if it.items:
                return it.items.pop(0)
            if default:
                return default[0]
            raise_py("StopIteration")
        try:
            return next(it, *default)
        except StopIteration:
            raise_py("StopIteration")

    def _b_type(self, v):
        if isinstance(v, Obj):
            return v.cls
        if hasattr(v, "sym_type"):
            return v.sym_type(self)
        return type(v)

    def _b_super(self, *a):
        raise Unsupported("super() with arguments")

    # -- truth --------------------------------------------------------------------------------
    def truth(self, v):
        if v is None or v is True or v is False:
            return bool(v)
        if isinstance(v, SBool):
            return self.ex.branch(v.t)
        if isinstance(v, SNum):
            return self.ex.branch(v.t != 0)
        if hasattr(v, "sym_truth"):
            return self.truth(v.sym_truth(self))
        if isinstance(v, Obj):
            try:
                v.cls.lookup("__bool__")
                return self.truth(self.call_method(v, "__bool__", [], {}))
            except KeyError:
                pass
            try:
                v.cls.lookup("__len__")
                return self.truth(self.call_method(v, "__len__", [], {}) != 0)
            except KeyError:
                return True
        if isinstance(v, (OpaqueModule,)):
            raise Unsupported(f"truth of opaque {v!r}")
        return bool(v)

    # -- attribute access ---------------------------------------------------------------------
    def getattr(self, o, name):
        if isinstance(o, Obj):
            if name in o.fields:
                return o.fields[name]
            try:
                a = o.cls.lookup(name)
            except KeyError:
                if name == "__class__":
                    return o.cls
                if name == "__dict__":
                    return o.fields
                try:
                    ga = o.cls.lookup("__getattr__")
                except KeyError:
                    raise_py("AttributeError", name)
                return self.call_function(ga, [o, name], {})
            if isinstance(a, PropertyObj):
                return self.call_function(a.fget, [o], {})
            if isinstance(a, Closure):
                return BoundMethod(a, o)
            if isinstance(a, StaticM):
                return a.f
            if isinstance(a, ClassM):
                return BoundMethod(a.f, o.cls)
            return a
        if isinstance(o, SuperProxy):
            for b in o.owner.bases:
                if isinstance(b, ClassObj):
                    try:
                        a = b.lookup(name)
                    except KeyError:
                        continue
                    if isinstance(a, Closure):
                        return BoundMethod(a, o.inst)
                    return a
                if isinstance(b, type) and issubclass(b, tuple) and name == "__new__":
                    # namedtuple base: the instance is a heap object carrying the tuple
                    def tuple_new(cls, *vals):
                        ob = Obj(cls)
                        ob.fields["_tuple"] = tuple(vals)
                        for fname, v in zip(getattr(b, "_fields", ()), vals):
                            ob.fields[fname] = v
                        return ob
                    return tuple_new
            raise_py("AttributeError", name)
        if isinstance(o, ClassObj):
            try:
                a = o.lookup(name)
            except KeyError:
                if name == "__name__":
                    return o.name
                raise_py("AttributeError", name)
            if isinstance(a, StaticM):
                return a.f
            if isinstance(a, ClassM):
                return BoundMethod(a.f, o)
            return a
        if hasattr(o, "sym_getattr"):
            return o.sym_getattr(self, name)
        if isinstance(o, Module):
            return o.globals[name]
        if isinstance(o, ExcInst):
            if name == "args":
                return o.args
            if name in getattr(o, "attrs", {}):  # extra attributes a contract's model put on the exception (ParseException.loc)
                return o.attrs[name]
            raise_py("AttributeError", name)
        if isinstance(o, Sym):
            raise Unsupported(f"attribute {name} of symbolic scalar")
        try:
            return getattr(o, name)
        except AttributeError:
            raise_py("AttributeError", name)

    def setattr(self, o, name, v):
        if isinstance(o, Obj):
            try:
                a = o.cls.lookup(name)
            except KeyError:
                a = None
            if isinstance(a, PropertyObj):
                if a.fset is None:
                    raise_py("AttributeError", f"can't set attribute {name}")
                self.call_function(a.fset, [o, v], {})
                return
            o.fields[name] = v
            return
        if hasattr(o, "sym_setattr"):
            o.sym_setattr(self, name, v)
            return
        if isinstance(o, ClassObj):
            o.ns[name] = v
            return
        if not isinstance(o, Sym) and hasattr(o, "__dict__") and not hasattr(o, "sym_getattr"):
            # a plain native object supplied by a contract (no symbolic hooks): ordinary attribute assignment
            setattr(o, name, self._pycallable(v) if isinstance(v, (Closure, BoundMethod)) else v)
            return
        raise Unsupported(f"setattr on {type(o).__name__}")

    # -- calls --------------------------------------------------------------------------------
    def call(self, f, args, kwargs):
        if isinstance(f, BoundMethod):
            return self.call(f.func, [f.self_obj] + list(args), kwargs)
        if isinstance(f, Closure):
            return self.call_function(f, args, kwargs)
        if isinstance(f, ClassObj):
            return self.instantiate(f, args, kwargs)
        if hasattr(f, "sym_call"):
            return f.sym_call(self, list(args), dict(kwargs))
        if isinstance(f, ExcClass):
            return f(*args)
        if isinstance(f, (StaticM,)):
            return self.call(f.f, args, kwargs)
        if callable(f):
            if f is _bi.sorted or f is _bi.map or f is _bi.filter:
                # key / function arguments may be interpreted closures
                return self._call_hof(f, args, kwargs)
            try:
                # the interpreter's own int/float/bool wrappers must not leak into native callables (e.g. numpy dtype=int)
                nat = {Interp._b_int: int, Interp._b_float: float, Interp._b_bool: bool}
                conv = lambda x: nat.get(getattr(x, "__func__", None), x)
                args = [conv(a) for a in args]
                kwargs = {k: conv(v) for k, v in kwargs.items()}
                return f(*args, **kwargs)
            except (Unsupported, PyExc, core.Infeasible, _Return):
                raise
            except Exception as e:
                n = type(e).__name__
                if n in EXC:
                    raise PyExc(ExcInst(EXC[n], e.args))
                raise
        raise_py("TypeError", f"{f!r} is not callable")

    def _pycallable(self, f):
        if isinstance(f, (Closure, BoundMethod)) or hasattr(f, "sym_call"):
            return lambda *a, **k: self.call(f, list(a), k)
        return f

    def _call_hof(self, f, args, kwargs):
        args = list(args)
        kwargs = dict(kwargs)
        if f is _bi.sorted:
            if "key" in kwargs and kwargs["key"] is not None:
                kwargs["key"] = self._pycallable(kwargs["key"])
            return sorted(self.iterate(args[0]), **kwargs)
        args[0] = self._pycallable(args[0])
        args[1:] = [self.iterate(a) for a in args[1:]]
        return list(f(*args))

    def instantiate(self, cls, args, kwargs):
        key = cls.module.name + "." + cls.name
        if key in self.call_models:
            return self.call_models[key](self, list(args), dict(kwargs))
        try:
            new = cls.lookup("__new__")
        except KeyError:
            new = None
        if isinstance(new, Closure):
            o = self.call_function(new, [cls] + list(args), kwargs)
            if not (isinstance(o, Obj) and o.cls.is_subclass(cls)):
                return o
        else:
            o = Obj(cls)
        try:
            init = cls.lookup("__init__")
        except KeyError:
            init = None
        if init is not None:
            self.call_function(init, [o] + list(args), kwargs)
        return o

    def call_method(self, o, name, args, kwargs):
        return self.call(self.getattr(o, name), args, kwargs)

    def call_function(self, f: Closure, args, kwargs, use_model=True):
        key = f.module.name + "." + f.qualname
        if use_model and key in self.call_models:
            return self.call_models[key](self, list(args), dict(kwargs))
        if self.depth > self.max_depth:
            raise Unsupported("call depth")
        node = f.node
        env = Env(f.env, f.module.globals)
        self.bind_args(f, env, list(args), dict(kwargs))
        env.vars["__closure__"] = f
        self.depth += 1
        try:
            if isinstance(node, ast.Lambda):
                return self.eval(node.body, env, f.module)
            is_gen = _is_generator(node)
            if is_gen:
                # a generator is executed eagerly as the builder of the sequence it yields
                ylog = []
                self.__dict__.setdefault("_yield_stack", []).append(ylog)
                try:
                    try:
                        self.exec_block(node.body, env, f.module, f.qualname)
                    except _Return:
                        pass
                finally:
                    self._yield_stack.pop()
                return GenResult(ylog)
            try:
                self.exec_block(node.body, env, f.module, f.qualname)
            except _Return as r:
                return r.v
            return None
        finally:
            self.depth -= 1

    def bind_args(self, f, env, args, kwargs):
        a = f.node.args
        params = [x.arg for x in a.posonlyargs + a.args]
        defaults = f.defaults or []
        n_no_default = len(params) - len(defaults)
        if len(args) > len(params) and a.vararg is None:
            raise_py("TypeError", f"{f.qualname}() takes {len(params)} positional arguments")
        for i, p in enumerate(params):
            if i < len(args):
                if p in kwargs:
                    raise_py("TypeError", f"multiple values for {p}")
                env.vars[p] = args[i]
            elif p in kwargs:
                env.vars[p] = kwargs.pop(p)
            elif i >= n_no_default:
                env.vars[p] = defaults[i - n_no_default]
            else:
                raise_py("TypeError", f"{f.qualname}() missing argument {p}")
        if a.vararg is not None:
            env.vars[a.vararg.arg] = tuple(args[len(params):])
        for i, p in enumerate(a.kwonlyargs):
            if p.arg in kwargs:
                env.vars[p.arg] = kwargs.pop(p.arg)
            elif f.kw_defaults and f.kw_defaults[i] is not _MISSING:
                env.vars[p.arg] = f.kw_defaults[i]
            else:
                raise_py("TypeError", f"missing keyword-only argument {p.arg}")
        if a.kwarg is not None:
            env.vars[a.kwarg.arg] = dict(kwargs)
        elif kwargs:
            raise_py("TypeError", f"{f.qualname}() got unexpected keyword arguments {sorted(kwargs)}")

    # -- iteration ------------------------------------------------------------------------------
    def iterate(self, v):
        """Concrete iteration: returns a Python list of elements, or raises Unsupported."""
        if hasattr(v, "sym_iter"):
            return v.sym_iter(self)
        if isinstance(v, Obj):
            if "_tuple" in v.fields and not v._has("__iter__"):
                return list(v.fields["_tuple"])
            it = self.call_method(v, "__iter__", [], {})
            return self.iterate(it)
        if isinstance(v, (Sym, OpaqueModule)):
            raise Unsupported(f"iteration over {v!r}")
        return list(v)

    # -- statements -----------------------------------------------------------------------------
    def exec_block(self, stmts, env, module, qual):
        for st in stmts:
            self.exec_stmt(st, env, module, qual)

    def exec_stmt(self, st, env, module, qual):
        m = getattr(self, "s_" + type(st).__name__, None)
        if m is None:
            raise Unsupported(f"statement {type(st).__name__} at {module.name}:{st.lineno}")
        return m(st, env, module, qual)

    def s_Expr(self, st, env, module, qual):
        if isinstance(st.value, ast.Constant):
            return  # docstring
        self.eval(st.value, env, module)

    def s_Pass(self, st, env, module, qual):
        pass

    def s_Assign(self, st, env, module, qual):
        v = self.eval(st.value, env, module)
        for t in st.targets:
            self.assign(t, v, env, module)

    def s_AnnAssign(self, st, env, module, qual):
        if st.value is not None:
            self.assign(st.target, self.eval(st.value, env, module), env, module)

    def s_AugAssign(self, st, env, module, qual):
        t = st.target
        if isinstance(t, ast.Name):
            cur = self.lookup(t.id, env)
            new = self.aug(cur, st.op, self.eval(st.value, env, module))
            env.assign(t.id, new)
        elif isinstance(t, ast.Attribute):
            o = self.eval(t.value, env, module)
            cur = self.getattr(o, t.attr)
            new = self.aug(cur, st.op, self.eval(st.value, env, module))
            self.setattr(o, t.attr, new)
        elif isinstance(t, ast.Subscript):
            o = self.eval(t.value, env, module)
            k = self.eval_slice(t.slice, env, module)
            cur = self.getitem(o, k)
            new = self.aug(cur, st.op, self.eval(st.value, env, module))
            self.setitem(o, k, new)
        else:
            raise Unsupported("augmented assignment target")

    def aug(self, cur, op, rhs):
        if hasattr(cur, "sym_iop"):
            return cur.sym_iop(self, type(op).__name__, rhs)
        if isinstance(cur, list) and isinstance(op, ast.Add):
            cur.extend(self.iterate(rhs))
            return cur
        return self.binop(cur, op, rhs)

    def assign(self, t, v, env, module):
        if isinstance(t, ast.Name):
            env.assign(t.id, v)
        elif isinstance(t, ast.Attribute):
            self.setattr(self.eval(t.value, env, module), t.attr, v)
        elif isinstance(t, ast.Subscript):
            o = self.eval(t.value, env, module)
            k = self.eval_slice(t.slice, env, module)
            self.setitem(o, k, v)
        elif isinstance(t, (ast.Tuple, ast.List)):
            items = self.iterate(v)
            star = [i for i, e in enumerate(t.elts) if isinstance(e, ast.Starred)]
            if star:
                i = star[0]
                n_after = len(t.elts) - i - 1
                if len(items) < len(t.elts) - 1:
                    raise_py("ValueError", "not enough values to unpack")
                for e, x in zip(t.elts[:i], items[:i]):
                    self.assign(e, x, env, module)
                self.assign(t.elts[i].value, list(items[i:len(items) - n_after]), env, module)
                for e, x in zip(t.elts[i + 1:], items[len(items) - n_after:]):
                    self.assign(e, x, env, module)
                return
            if len(items) != len(t.elts):
                raise_py("ValueError", f"cannot unpack {len(items)} values into {len(t.elts)}")
            for e, x in zip(t.elts, items):
                self.assign(e, x, env, module)
        else:
            raise Unsupported(f"assignment target {type(t).__name__}")

    def s_Delete(self, st, env, module, qual):
        for t in st.targets:
            if isinstance(t, ast.Name):
                env.vars.pop(t.id, None)
            elif isinstance(t, ast.Subscript):
                o = self.eval(t.value, env, module)
                k = self.eval_slice(t.slice, env, module)
                if hasattr(o, "sym_delitem"):
                    o.sym_delitem(self, k)
                else:
                    del o[k]
            elif isinstance(t, ast.Attribute):
                o = self.eval(t.value, env, module)
                if isinstance(o, Obj):
                    o.fields.pop(t.attr, None)
                elif hasattr(o, "sym_delattr"):
                    o.sym_delattr(self, t.attr)
                elif not hasattr(o, "sym_getattr"):
                    delattr(o, t.attr)
                else:
                    raise Unsupported("del attribute")
            else:
                raise Unsupported("del target")

    def s_If(self, st, env, module, qual):
        if self.truth(self.eval(st.test, env, module)):
            self.exec_block(st.body, env, module, qual)
        else:
            self.exec_block(st.orelse, env, module, qual)

    def _loop_ordinal(self, st, module, qual):
        key = (module.name, qual)
        cache = self.__dict__.setdefault("_loop_index", {})
        if key not in cache:
            # number loops in source order inside the function `qual`
            idx = {}
            fnode = self._find_def(module, qual)
            n = 0
            if fnode is not None:
                for node in _walk_no_nested(fnode):
                    if isinstance(node, (ast.For, ast.While)):
                        idx[(node.lineno, node.col_offset)] = n
                        n += 1
            cache[key] = idx
        return cache[key].get((st.lineno, st.col_offset))

    def _find_def(self, module, qual):
        parts = qual.split(".") if qual else []
        node = module.tree
        for p in parts:
            if p == "<locals>":
                continue
            found = None
            for ch in ast.walk(node):
                if isinstance(ch, (ast.FunctionDef, ast.ClassDef, ast.AsyncFunctionDef)) and ch.name == p and ch is not node:
                    found = ch
                    break
            if found is None:
                return None
            node = found
        return node

    def s_While(self, st, env, module, qual):
        spec = self.loop_specs.get((module.name + "." + qual, self._loop_ordinal(st, module, qual)))
        if spec is not None:
            return self._loop_with_invariant(st, env, module, qual, spec)
        n = 0
        while self.truth(self.eval(st.test, env, module)):
            n += 1
            if n > self.unroll_limit:
                raise Unsupported(f"while loop at {module.name}:{st.lineno} exceeds unroll limit (needs invariant)")
            try:
                self.exec_block(st.body, env, module, qual)
            except _Break:
                return
            except _Continue:
                continue
        self.exec_block(st.orelse, env, module, qual)

    def s_For(self, st, env, module, qual):
        spec = self.loop_specs.get((module.name + "." + qual, self._loop_ordinal(st, module, qual)))
        if spec is not None:
            return self._loop_with_invariant(st, env, module, qual, spec)
        it = self.eval(st.iter, env, module)
        items = self.iterate(it)
        if len(items) > 4 * self.unroll_limit:
            raise Unsupported("for loop too long to unroll")
        for x in items:
            self.assign(st.target, x, env, module)
            try:
                self.exec_block(st.body, env, module, qual)
            except _Break:
                return
            except _Continue:
                continue
        self.exec_block(st.orelse, env, module, qual)

    def _names_assigned(self, stmts):
        out = set()

        class V(ast.NodeVisitor):
            def visit_Name(self_, n):
                if isinstance(n.ctx, (ast.Store, ast.Del)):
                    out.add(n.id)

            def visit_FunctionDef(self_, n):
                out.add(n.name)  # the body of a nested function is another scope

            def visit_Lambda(self_, n):
                pass

            def visit_ClassDef(self_, n):
                out.add(n.name)
        for s_ in stmts:
            V().visit(s_)
        return out

    def _loop_with_invariant(self, st, env, module, qual, spec):
        """Cut the loop at its invariant: (1) invariant holds on entry [obligation];
        (2) arbitrary iteration preserves it [obligation; that path then ends];
        (3) continue after the loop from a havoc'd state satisfying the invariant and the
        negated guard."""
        ex = self.ex
        where = f"{qual}:loop#{self._loop_ordinal(st, module, qual)}"
        # (1) entry
        ghost0 = spec.havoc(self, env, entry=True)
        for name, c in spec.invariant(self, env, ghost0):
            ex.require(f"{where}:inv-entry:{name}", c, kind="loop-inv")
        # fork: preservation path or exit path
        pres = ex.branch(z3.Bool(core.fresh_name("explore-loop-body")))
        # SOUNDNESS: every local name the loop body assigns is made unavailable before the contract's own havoc runs, so a name
        # the contract does not re-establish (e.g. one introduced by a code change) cannot keep its pre-loop value at an arbitrary
        # iteration or after the loop; the contract's havoc then overrides the names it gives a meaning to
        for nm in self._names_assigned(st.body):
            if nm in env.vars:
                env.vars[nm] = Unavailable(f"assigned in {where}; not re-established by the loop contract")
        ghost = spec.havoc(self, env, entry=False)
        for name, c in spec.invariant(self, env, ghost):
            ex.assume(c)
        if pres:
            if isinstance(st, ast.For):
                ex.assume(spec.bind_iter(self, env, ghost, st))
            else:
                if not self.truth(self.eval(st.test, env, module)):
                    raise core.Infeasible()
            try:
                self.exec_block(st.body, env, module, qual)
            except _Continue:
                pass
            except _Break:
                # leaves the loop from an arbitrary iteration: continue with the code after the loop
                ex.path.tags["loop-exit-by-break"] = where
                return
            if spec.advance:
                spec.advance(self, env, ghost)
            for name, c in spec.invariant(self, env, ghost):
                ex.require(f"{where}:inv-preserved:{name}", c, kind="loop-inv")
            ex.path.tags["loop-preservation-path"] = where
            raise core.PathEnd()
        else:
            if isinstance(st, ast.For):
                if spec.after:
                    import inspect
                    a = spec.after(self, env, ghost, st) if len(inspect.signature(spec.after).parameters) >= 4 else spec.after(self, env, ghost)
                    if a is not None:
                        ex.assume(a)
            else:
                if self.truth(self.eval(st.test, env, module)):
                    raise core.Infeasible()
            self.exec_block(st.orelse, env, module, qual)

    def s_Break(self, st, env, module, qual):
        raise _Break()

    def s_Continue(self, st, env, module, qual):
        raise _Continue()

    def s_Return(self, st, env, module, qual):
        raise _Return(self.eval(st.value, env, module) if st.value is not None else None)

    def s_Raise(self, st, env, module, qual):
        if st.exc is None:
            cur = getattr(self, "_handling", None)
            if cur is None:
                raise_py("RuntimeError", "No active exception to reraise")
            raise cur
        v = self.eval(st.exc, env, module)
        if isinstance(v, ExcClass):
            v = v()
        if isinstance(v, ExcInst):
            raise PyExc(v)
        if isinstance(v, Obj):  # user-defined exception class instance
            raise PyExc(ExcInst(ExcClass(v.cls.name, [EXC["Exception"]]), ()))
        raise Unsupported(f"raise of {v!r}")

    def s_Assert(self, st, env, module, qual):
        if not self.truth(self.eval(st.test, env, module)):
            raise_py("AssertionError")

    def s_Try(self, st, env, module, qual):
        try:
            try:
                self.exec_block(st.body, env, module, qual)
            except PyExc as e:
                for h in st.handlers:
                    if self._exc_matches(e, h.type, env, module):
                        if h.name:
                            env.assign(h.name, e.inst)
                        prev = getattr(self, "_handling", None)
                        self._handling = e
                        try:
                            self.exec_block(h.body, env, module, qual)
                        finally:
                            self._handling = prev
                        break
                else:
                    raise
            else:
                self.exec_block(st.orelse, env, module, qual)
        finally:
            if st.finalbody:
                self.exec_block(st.finalbody, env, module, qual)

    def _exc_matches(self, e, tnode, env, module):
        if tnode is None:
            return True
        t = self.eval(tnode, env, module)
        ts = t if isinstance(t, tuple) else (t,)
        names = e.inst.cls.mro_names()
        for x in ts:
            if isinstance(x, ExcClass) and x.name in names:
                return True
            if isinstance(x, ClassObj) and x.name in names:
                return True
            if hasattr(x, "exc_name") and x.exc_name in names:
                return True
        return False

    def s_With(self, st, env, module, qual):
        mgrs = []
        for item in st.items:
            m = self.eval(item.context_expr, env, module)
            v = self.call_method(m, "__enter__", [], {})
            if item.optional_vars is not None:
                self.assign(item.optional_vars, v, env, module)
            mgrs.append(m)
        try:
            self.exec_block(st.body, env, module, qual)
        except PyExc:
            for m in reversed(mgrs):
                self.call_method(m, "__exit__", [None, None, None], {})
            raise
        except (_Return, _Break, _Continue):
            for m in reversed(mgrs):
                self.call_method(m, "__exit__", [None, None, None], {})
            raise
        else:
            for m in reversed(mgrs):
                self.call_method(m, "__exit__", [None, None, None], {})

    def s_FunctionDef(self, st, env, module, qual):
        q = (qual + ".<locals>." if qual else "") + st.name
        f = self.make_closure(st, env, module, q)
        for d in reversed(st.decorator_list):
            dec = self.eval(d, env, module)
            f = self.call(dec, [f], {})
        env.assign(st.name, f)

    def make_closure(self, node, env, module, qualname):
        f = Closure(node, env if env.vars is not module.globals else None, module, qualname)
        a = node.args
        f.defaults = [self.eval(d, env, module) for d in a.defaults]
        f.kw_defaults = [(_MISSING if d is None else self.eval(d, env, module)) for d in a.kw_defaults]
        return f

    def s_ClassDef(self, st, env, module, qual):
        bases = []
        for b in st.bases:
            try:
                bases.append(self.eval(b, env, module))
            except (Unsupported, PyExc):
                bases.append(OpaqueModule("base"))
        ns = {}
        cenv = Env(env if env.vars is not module.globals else None, module.globals)
        cenv.vars = ns
        q = (qual + "." if qual else "") + st.name
        for s in st.body:
            try:
                if isinstance(s, ast.FunctionDef):
                    f = self.make_closure(s, _class_parent_env(cenv), module, q + "." + s.name)
                    for d in reversed(s.decorator_list):
                        f = self._apply_decorator(d, f, cenv, module)
                    ns[s.name] = f
                else:
                    self.exec_stmt(s, cenv, module, q)
            except (Unsupported, PyExc) as e:
                for n in _assigned_names(s):
                    ns[n] = Unavailable(str(e))
        cls = ClassObj(st.name, bases, ns, module)
        for v in ns.values():
            fn = v.fget if isinstance(v, PropertyObj) else (v.f if isinstance(v, (StaticM, ClassM)) else v)
            if isinstance(fn, Closure):
                fn.owner = cls
        if any(isinstance(b, ExcClass) for b in bases):
            # user-defined exception
            exc = ExcClass(st.name, [b for b in bases if isinstance(b, ExcClass)])
            EXC.setdefault(st.name, exc)
            env.assign(st.name, exc)
            return
        for d in reversed(st.decorator_list):
            pass  # class decorators dropped (none change behaviour in the files under contract)
        env.assign(st.name, cls)

    def _apply_decorator(self, d, f, env, module):
        # @property, @x.setter, @staticmethod, @classmethod handled; others evaluated
        if isinstance(d, ast.Attribute) and d.attr in ("setter", "getter") and isinstance(d.value, ast.Name):
            base = env.vars.get(d.value.id)
            if isinstance(base, PropertyObj):
                return base.setter(f) if d.attr == "setter" else base.getter(f)
        dec = self.eval(d, env, module)
        if hasattr(dec, "sym_call") or isinstance(dec, (Closure, BoundMethod)):
            return self.call(dec, [f], {})
        return dec(f)

    def s_Import(self, st, env, module, qual):
        for a in st.names:
            top = a.name.split(".")[0]
            if a.asname:
                env.assign(a.asname, self.resolve_import(a.name, module))
            else:
                env.assign(top, self.resolve_import(top, module))

    def s_ImportFrom(self, st, env, module, qual):
        base = ("." * st.level) + (st.module or "")
        if st.level:
            pkg = module.name.split(".")
            pkg = pkg[: len(pkg) - st.level]
            base = ".".join(pkg + ([st.module] if st.module else []))
        for a in st.names:
            full = base + "." + a.name
            if full in self.import_models:
                v = self.import_models[full]
            elif base in self.import_models:
                v = self.getattr(self.import_models[base], a.name)
            else:
                v = OpaqueModule(full)
            env.assign(a.asname or a.name, v)

    def s_Global(self, st, env, module, qual):
        env.global_names.update(st.names)

    def s_Nonlocal(self, st, env, module, qual):
        env.nonlocal_names.update(st.names)

    # -- expressions ----------------------------------------------------------------------------
    def eval(self, e, env, module):
        m = getattr(self, "e_" + type(e).__name__, None)
        if m is None:
            raise Unsupported(f"expression {type(e).__name__} at {module.name}:{getattr(e, 'lineno', '?')}")
        return m(e, env, module)

    def e_Constant(self, e, env, module):
        return e.value

    def e_Name(self, e, env, module):
        return self.lookup(e.id, env)

    def e_Attribute(self, e, env, module):
        return self.getattr(self.eval(e.value, env, module), e.attr)

    def e_Tuple(self, e, env, module):
        return tuple(self._elts(e.elts, env, module))

    def e_List(self, e, env, module):
        return list(self._elts(e.elts, env, module))

    def e_Set(self, e, env, module):
        return set(self._elts(e.elts, env, module))

    def _elts(self, elts, env, module):
        out = []
        for x in elts:
            if isinstance(x, ast.Starred):
                out.extend(self.iterate(self.eval(x.value, env, module)))
            else:
                out.append(self.eval(x, env, module))
        return out

    def e_Dict(self, e, env, module):
        d = {}
        for k, v in zip(e.keys, e.values):
            if k is None:
                d.update(self.eval(v, env, module))
            else:
                d[self.eval(k, env, module)] = self.eval(v, env, module)
        return d

    def e_BinOp(self, e, env, module):
        return self.binop(self.eval(e.left, env, module), e.op, self.eval(e.right, env, module))

    def binop(self, a, op, b):
        if isinstance(op, ast.Mod) and isinstance(a, str):
            return self.format_percent(a, b)
        if hasattr(a, "sym_binop"):
            r = a.sym_binop(self, type(op).__name__, b, False)
            if r is not NotImplemented:
                return r
        if hasattr(b, "sym_binop"):
            r = b.sym_binop(self, type(op).__name__, a, True)
            if r is not NotImplemented:
                return r
        if isinstance(a, Obj) or isinstance(b, Obj):
            name = _DUNDER[type(op)]
            if isinstance(a, Obj):
                try:
                    a.cls.lookup("__" + name + "__")
                    return self.call_method(a, "__" + name + "__", [b], {})
                except KeyError:
                    pass
            if isinstance(b, Obj):
                try:
                    b.cls.lookup("__r" + name + "__")
                    return self.call_method(b, "__r" + name + "__", [a], {})
                except KeyError:
                    pass
            raise_py("TypeError", "unsupported operand")
        f = _BINOPS.get(type(op))
        if f is None:
            raise Unsupported(f"operator {type(op).__name__}")
        try:
            return f(a, b)
        except ZeroDivisionError as ex:
            raise PyExc(ExcInst(EXC["ZeroDivisionError"], ex.args))
        except TypeError as ex:
            if is_sym(a) or is_sym(b):
                raise Unsupported(f"operator {type(op).__name__} on {type(a).__name__},{type(b).__name__}")
            raise PyExc(ExcInst(EXC["TypeError"], ex.args))

    def format_percent(self, fmt, arg):
        # string *contents* of messages are dropped when they involve symbolic values
        def conc(x):
            return not (is_sym(x) or isinstance(x, (Obj, OpaqueModule)) or hasattr(x, "sym_getattr"))
        args = arg if isinstance(arg, tuple) else (arg,)
        if all(conc(x) for x in args):
            try:
                return fmt % arg
            except Exception as ex:
                raise PyExc(ExcInst(EXC.get(type(ex).__name__, EXC["TypeError"]), ex.args))
        if hasattr(self, "format_hook"):
            return self.format_hook(fmt, args)
        return SymStr(("fmt", fmt, tuple(id(a) for a in args)))

    def e_UnaryOp(self, e, env, module):
        v = self.eval(e.operand, env, module)
        if isinstance(e.op, ast.Not):
            return not self.truth(v)
        if hasattr(v, "sym_unop"):
            return v.sym_unop(self, type(e.op).__name__)
        if isinstance(e.op, ast.USub):
            return -v
        if isinstance(e.op, ast.UAdd):
            return +v
        if isinstance(e.op, ast.Invert):
            return ~v
        raise Unsupported("unary op")

    def e_BoolOp(self, e, env, module):
        if isinstance(e.op, ast.And):
            v = True
            for x in e.values:
                v = self.eval(x, env, module)
                if not self.truth(v):
                    return v
            return v
        v = False
        for x in e.values:
            v = self.eval(x, env, module)
            if self.truth(v):
                return v
        return v

    def e_Compare(self, e, env, module):
        left = self.eval(e.left, env, module)
        result = True
        for op, rn in zip(e.ops, e.comparators):
            right = self.eval(rn, env, module)
            r = self.compare(left, op, right)
            if len(e.ops) == 1:
                return r
            if not self.truth(r):
                return False
            left = right
        return result

    def compare(self, a, op, b):
        if isinstance(op, ast.Is):
            return self.identical(a, b)
        if isinstance(op, ast.IsNot):
            r = self.identical(a, b)
            return (not r) if isinstance(r, bool) else ~r
        if isinstance(op, (ast.In, ast.NotIn)):
            r = self.contains(b, a)
            if isinstance(op, ast.NotIn):
                return (not r) if isinstance(r, bool) else ~r
            return r
        if hasattr(a, "sym_compare"):
            r = a.sym_compare(self, type(op).__name__, b, False)
            if r is not NotImplemented:
                return r
        if hasattr(b, "sym_compare"):
            r = b.sym_compare(self, type(op).__name__, a, True)
            if r is not NotImplemented:
                return r
        if isinstance(a, Obj):
            name = {ast.Eq: "__eq__", ast.NotEq: "__ne__", ast.Lt: "__lt__", ast.LtE: "__le__", ast.Gt: "__gt__", ast.GtE: "__ge__"}[type(op)]
            try:
                a.cls.lookup(name)
                return self.call_method(a, name, [b], {})
            except KeyError:
                if isinstance(op, ast.NotEq):
                    try:
                        a.cls.lookup("__eq__")
                        return not self.truth(self.call_method(a, "__eq__", [b], {}))
                    except KeyError:
                        return a is not b
                if isinstance(op, ast.Eq):
                    return a is b
                raise_py("TypeError", "unorderable")
        if isinstance(a, (tuple, list)) and isinstance(b, (tuple, list)) and type(a) is type(b) and isinstance(op, (ast.Eq, ast.NotEq)):
            if len(a) != len(b):
                return isinstance(op, ast.NotEq)
            eq = True
            for x, y in zip(a, b):
                r = self.compare(x, ast.Eq(), y)
                if r is True:
                    continue
                if r is False:
                    eq = False
                    break
                rt = core.as_bool_term(r)
                eq = rt if eq is True else z3.And(eq, rt)
            if isinstance(eq, bool):
                return eq if isinstance(op, ast.Eq) else not eq
            return SBool(eq) if isinstance(op, ast.Eq) else SBool(z3.Not(eq))
        f = _CMPOPS[type(op)]
        try:
            r = f(a, b)
        except TypeError as ex:
            raise PyExc(ExcInst(EXC["TypeError"], ex.args))
        return _concretise_bool_array(r)

    def identical(self, a, b):
        if hasattr(a, "sym_is"):
            return a.sym_is(self, b)
        if hasattr(b, "sym_is"):
            return b.sym_is(self, a)
        if is_sym(a) or is_sym(b):
            if a is None or b is None:
                return False
            return a is b
        if isinstance(a, (bool, type(None))) or isinstance(b, (bool, type(None))):
            return a is b
        if isinstance(a, (int, str)) and isinstance(b, (int, str)):
            return a == b and type(a) is type(b)
        return a is b

    def contains(self, container, item):
        if hasattr(container, "sym_contains"):
            return container.sym_contains(self, item)
        if isinstance(container, Obj):
            return self.call_method(container, "__contains__", [item], {})
        if isinstance(container, (list, tuple, set, frozenset, dict)) or isinstance(container, str):
            if is_sym(item) or isinstance(item, Obj):
                if isinstance(container, (dict, set, frozenset)):
                    container = list(container)
                if isinstance(container, str):
                    raise Unsupported("symbolic substring test")
                for x in container:
                    if self.truth(self.compare(x, ast.Eq(), item)):
                        return True
                return False
            return item in container
        if isinstance(container, range) and is_sym(item):
            raise Unsupported("symbolic in range")
        return item in container

    def e_IfExp(self, e, env, module):
        if self.truth(self.eval(e.test, env, module)):
            return self.eval(e.body, env, module)
        return self.eval(e.orelse, env, module)

    def e_Call(self, e, env, module):
        # `locals()[...]` and warnings are special-cased
        f = self.eval(e.func, env, module)
        args = []
        for a in e.args:
            if isinstance(a, ast.Starred):
                args.extend(self.iterate(self.eval(a.value, env, module)))
            else:
                args.append(self.eval(a, env, module))
        kwargs = {}
        for k in e.keywords:
            if k.arg is None:
                kwargs.update(self.eval(k.value, env, module))
            else:
                kwargs[k.arg] = self.eval(k.value, env, module)
        if isinstance(f, OpaqueModule) and f._name == "locals":
            return dict(env.vars)
        if getattr(f, "__func__", None) is Interp._b_super and not args:
            fn = env.vars.get("__closure__")
            owner = getattr(fn, "owner", None)
            if owner is None:
                raise Unsupported("super() outside a method")
            first = fn.node.args.args[0].arg
            return SuperProxy(owner, env.vars[first])
        if isinstance(getattr(f, "__self__", None), str) and getattr(f, "__name__", "") == "format" and hasattr(self, "strformat_hook") \
                and any(is_sym(a) for a in list(args) + list(kwargs.values())):
            return self.strformat_hook(f.__self__, args, kwargs)  # "...{:8.3f}...".format(symbolic values)
        return self.call(f, args, kwargs)

    def e_Lambda(self, e, env, module):
        return self.make_closure(e, env, module, "<lambda>")

    def e_Subscript(self, e, env, module):
        o = self.eval(e.value, env, module)
        k = self.eval_slice(e.slice, env, module)
        return self.getitem(o, k)

    def eval_slice(self, s, env, module):
        if isinstance(s, ast.Slice):
            return slice(
                self.eval(s.lower, env, module) if s.lower else None,
                self.eval(s.upper, env, module) if s.upper else None,
                self.eval(s.step, env, module) if s.step else None,
            )
        if isinstance(s, ast.Tuple):
            return tuple(self.eval_slice(x, env, module) for x in s.elts)
        return self.eval(s, env, module)

    def e_Slice(self, e, env, module):
        return self.eval_slice(e, env, module)

    def getitem(self, o, k):
        if hasattr(o, "sym_getitem"):
            return o.sym_getitem(self, k)
        if isinstance(o, Obj):
            if "_tuple" in o.fields and not o._has("__getitem__"):
                return o.fields["_tuple"][k]
            return self.call_method(o, "__getitem__", [k], {})
        if isinstance(o, ClassObj):
            raise Unsupported("class subscript")
        if isinstance(k, SInt):
            if isinstance(o, (list, tuple)):
                return self._sym_index_concrete_seq(o, k)
            k = k.__index__()
        if isinstance(k, slice) and any(is_sym(x) for x in (k.start, k.stop, k.step)):
            raise Unsupported("symbolic slice of a concrete sequence")
        try:
            return o[k]
        except (KeyError, IndexError, TypeError) as ex:
            raise PyExc(ExcInst(EXC[type(ex).__name__], ex.args))

    def _sym_index_concrete_seq(self, seq, k):
        # branch over the possible positions
        n = len(seq)
        for i in range(n):
            if self.ex.branch(k.t == i):
                return seq[i]
        for i in range(1, n + 1):
            if self.ex.branch(k.t == -i):
                return seq[-i]
        raise_py("IndexError", "index out of range")

    def setitem(self, o, k, v):
        if hasattr(o, "sym_setitem"):
            return o.sym_setitem(self, k, v)
        if isinstance(o, Obj):
            return self.call_method(o, "__setitem__", [k, v], {})
        if isinstance(k, SInt):
            k = k.__index__()
        try:
            o[k] = v
        except (KeyError, IndexError, TypeError) as ex:
            raise PyExc(ExcInst(EXC[type(ex).__name__], ex.args))

    def e_JoinedStr(self, e, env, module):
        parts = []
        sym = False
        for v in e.values:
            if isinstance(v, ast.Constant):
                parts.append(v.value)
            else:
                x = self.eval(v.value, env, module)
                if is_sym(x) or isinstance(x, (Obj, SymStr)) or hasattr(x, "sym_getattr"):
                    sym = True
                    spec = self.eval(v.format_spec, env, module) if v.format_spec is not None else ""
                    parts.append(Formatted(x, spec) if spec else x)
                else:
                    spec = ""
                    if v.format_spec is not None:
                        spec = self.eval(v.format_spec, env, module)
                    if v.conversion == ord("r"):
                        x = repr(x)
                    elif v.conversion == ord("s"):
                        x = str(x)
                    parts.append(format(x, spec))
        if sym:
            if hasattr(self, "fstring_hook"):
                return self.fstring_hook(e, parts)
            return SymStr(("fstr", tuple(p if isinstance(p, str) else id(p) for p in parts)))
        return "".join(parts)

    def e_FormattedValue(self, e, env, module):
        return self.e_JoinedStr(ast.JoinedStr(values=[e]), env, module)

    def e_ListComp(self, e, env, module):
        out = []
        self._comp(e.generators, 0, env, module, lambda en: out.append(self.eval(e.elt, en, module)))
        return out

    def e_SetComp(self, e, env, module):
        out = set()
        self._comp(e.generators, 0, env, module, lambda en: out.add(self.eval(e.elt, en, module)))
        return out

    def e_GeneratorExp(self, e, env, module):
        return self.e_ListComp(e, env, module)

    def e_DictComp(self, e, env, module):
        out = {}

        def add(en):
            out[self.eval(e.key, en, module)] = self.eval(e.value, en, module)

        self._comp(e.generators, 0, env, module, add)
        return out

    def _comp(self, gens, i, env, module, emit):
        if i == len(gens):
            emit(env)
            return
        g = gens[i]
        items = self.iterate(self.eval(g.iter, env, module))
        for x in items:
            en = Env(env, env.globals)
            self.assign(g.target, x, en, module)
            if all(self.truth(self.eval(c, en, module)) for c in g.ifs):
                self._comp(gens, i + 1, en, module, emit)

    def e_Starred(self, e, env, module):
        raise Unsupported("starred expression")

    def e_NamedExpr(self, e, env, module):
        v = self.eval(e.value, env, module)
        env.assign(e.target.id, v)
        return v

    def e_YieldFrom(self, e, env, module):
        st = self.__dict__.get("_yield_stack")
        if not st:
            raise Unsupported("yield from outside a generator call")
        st[-1].extend(self.iterate(self.eval(e.value, env, module)))
        return None

    def e_Yield(self, e, env, module):
        st = self.__dict__.get("_yield_stack")
        if not st:
            raise Unsupported("yield outside a generator call")
        st[-1].append(self.eval(e.value, env, module) if e.value is not None else None)
        return None


class GenResult:
    """the (eagerly built) sequence of values a generator yields"""

    def __init__(self, items):
        self.items = items

    def sym_iter(self, interp):
        out, self.items = list(self.items), []
        return out

    def __iter__(self):
        return self

    def __next__(self):
        if self.items:
            return self.items.pop(0)
        raise StopIteration


class SymStr:
    """A string whose contents involve symbolic values (messages; never inspected)."""

    def __init__(self, key):
        self.key = key

    def sym_binop(self, interp, op, other, reflected):
        return SymStr(("cat", self.key, id(other)))

    def __repr__(self):
        return "<symbolic string>"


_MISSING = object()
_LOOP_CUT = object()

_DUNDER = {
    ast.Add: "add", ast.Sub: "sub", ast.Mult: "mul", ast.Div: "truediv", ast.FloorDiv: "floordiv",
    ast.Mod: "mod", ast.Pow: "pow", ast.BitAnd: "and", ast.BitOr: "or", ast.BitXor: "xor",
    ast.LShift: "lshift", ast.RShift: "rshift", ast.MatMult: "matmul",
}


def _class_parent_env(cenv):
    # methods do not close over the class namespace
    return cenv.parent if cenv.parent is not None else Env(None, cenv.globals)


def _assigned_names(st):
    out = []
    if isinstance(st, (ast.FunctionDef, ast.ClassDef)):
        out.append(st.name)
    elif isinstance(st, ast.Assign):
        for t in st.targets:
            for n in ast.walk(t):
                if isinstance(n, ast.Name):
                    out.append(n.id)
    elif isinstance(st, (ast.AnnAssign, ast.AugAssign)):
        for n in ast.walk(st.target):
            if isinstance(n, ast.Name):
                out.append(n.id)
    elif isinstance(st, (ast.Import, ast.ImportFrom)):
        for a in st.names:
            out.append((a.asname or a.name).split(".")[0])
    return out


def _walk_no_nested(fnode):
    """Nodes of a function body in source order, not descending into nested defs."""
    todo = list(reversed(fnode.body))
    while todo:
        n = todo.pop()
        yield n
        if isinstance(n, (ast.FunctionDef, ast.AsyncFunctionDef, ast.ClassDef, ast.Lambda)):
            continue
        todo.extend(reversed(list(ast.iter_child_nodes(n))))


def _is_generator(node):
    for n in _walk_no_nested(node):
        if isinstance(n, (ast.Yield, ast.YieldFrom)):
            return True
    return False
