"""NumpyO -- the real NumPy operating on dtype=object arrays whose elements are symbolic scalars.

Elementwise arithmetic and comparisons of such arrays call the operators of the symbolic scalars, so the array
plumbing (indexing, compress, hstack, broadcasting, reductions by +) is executed by NumPy itself and is not modelled.
Comparisons are turned into dtype=bool arrays by deciding every element on the path (pyinterp._concretise_bool_array).
Only the functions that would need libm or a concrete truth value inside a ufunc are overridden elementwise here
(trusted: they are the elementwise definitions of clip / arccos / radians / logical_and).
"""
import math

import numpy as _np
import z3

from . import core, models, npreal
from .core import SBool, SReal, is_sym, rterm
from .models import trusted

trusted("numpy.object-arrays", "NumPy itself executes indexing/compress/stack/reductions on object arrays of symbolic scalars; "
        "np.clip, np.arccos, np.radians/deg2rad, np.logical_and/or/not are the elementwise definitions (mdvc/npobj.py)")


def _elementwise(f, x):
    if isinstance(x, _np.ndarray):
        out = _np.empty(x.shape, dtype=object)
        o, i = out.reshape(-1), x.reshape(-1)
        for k in range(i.size):
            o[k] = f(i[k])
        return out
    return f(x)


class NumpyO(models.NumpyModel):
    def sym_getattr(self, interp, name):
        f = getattr(self, "np_" + name, None)
        if f is not None:
            return lambda *a, **k: f(interp, *a, **k)
        return getattr(_np, name)

    def np_clip(self, interp, a, lo, hi, out=None):
        def one(v):
            if not is_sym(v):
                return min(max(v, lo), hi)
            return core.smin(core.smax(v, lo), hi)
        res = _elementwise(one, a)
        if out is not None:
            out[...] = res
            return out
        return res

    def np_arccos(self, interp, x):
        return _elementwise(lambda v: npreal.r_acos(v) if is_sym(v) else math.acos(v), x)

    def np_radians(self, interp, x):
        return _elementwise(lambda v: (v * SReal(npreal.PI) / 180) if is_sym(v) else SReal(z3.RealVal(repr(float(v))) * npreal.PI / 180), x)

    np_deg2rad = np_radians

    def np_logical_and(self, interp, a, b):
        return _np.logical_and(a, b)
