"""NumpyO -- the real NumPy operating on dtype=object arrays whose elements are symbolic scalars.

Elementwise arithmetic and comparisons of such arrays call the operators of the symbolic scalars, so the array
plumbing (indexing, compress, hstack, broadcasting, reductions by +) is executed by NumPy itself and is not modelled.
Comparisons are turned into dtype=bool arrays by deciding every element on the path (pyinterp._concretise_bool_array).
Only the functions that would need libm or a concrete truth value inside a ufunc are overridden elementwise here
(trusted: they are the elementwise definitions of clip / arccos / radians / logical_and).
"""
import math

import numpy as _np
import z3

from . import core, models, npreal
from .core import SBool, SReal, is_sym, rterm
from .models import trusted

trusted("numpy.object-arrays", "NumPy itself executes indexing/compress/stack/reductions on object arrays of symbolic scalars; "
        "np.clip, np.arccos, np.radians/deg2rad, np.logical_and/or/not are the elementwise definitions (mdvc/npobj.py)")


def _elementwise(f, x):
    if isinstance(x, _np.ndarray):
        out = _np.empty(x.shape, dtype=object)
        o, i = out.reshape(-1), x.reshape(-1)
        for k in range(i.size):
            o[k] = f(i[k])
        return out
    return f(x)


class NumpyO:
    def sym_getattr(self, interp, name):
        f = getattr(self, "np_" + name, None)
        if f is not None:
            return lambda *a, **k: f(interp, *a, **k)
        return getattr(_np, name)

    def np_clip(self, interp, a, lo, hi, out=None):
        def one(v):
            if not is_sym(v):
                return min(max(v, lo), hi)
            return core.smin(core.smax(v, lo), hi)
        res = _elementwise(one, a)
        if out is not None:
            out[...] = res
            return out
        return res

    def np_arccos(self, interp, x):
        return _elementwise(lambda v: npreal.r_acos(v) if is_sym(v) else math.acos(v), x)

    def np_radians(self, interp, x):
        return _elementwise(lambda v: (v * SReal(npreal.PI) / 180) if is_sym(v) else SReal(z3.RealVal(repr(float(v))) * npreal.PI / 180), x)

    np_deg2rad = np_radians

    def np_logical_and(self, interp, a, b):
        return _np.logical_and(a, b)


class OArr(_np.ndarray):
    """object ndarray whose min/max reductions are computed with symbolic min/max (If-terms) instead of Python comparisons,
    so that a reduction over n symbolic reals does not fork the path n-1 times"""

    def _reduce(self, f, axis):
        if axis is None:
            vals = list(self.reshape(-1))
            r = vals[0]
            for v in vals[1:]:
                r = f(r, v)
            return r
        moved = _np.moveaxis(_np.asarray(self, dtype=object), axis, -1)
        out = _np.empty(moved.shape[:-1], dtype=object)
        for idx in _np.ndindex(*moved.shape[:-1]):
            vals = list(moved[idx])
            r = vals[0]
            for v in vals[1:]:
                r = f(r, v)
            out[idx] = r
        return out.view(OArr)

    def min(self, axis=None, **k):
        return self._reduce(core.smin, axis)

    def max(self, axis=None, **k):
        return self._reduce(core.smax, axis)


def oarr(shape, fill):
    a = _np.empty(shape, dtype=object)
    for idx in _np.ndindex(*a.shape):
        a[idx] = fill(*idx)
    return a.view(OArr)


EXP = z3.Function("exp", z3.RealSort(), z3.RealSort())
LOG = z3.Function("log", z3.RealSort(), z3.RealSort())


def _np_zeros(self, interp, shape, dtype=float, **k):
    if dtype in (float, _np.float32, _np.float64, "float32", "float64"):
        a = _np.empty(shape, dtype=object)
        a[...] = 0.0
        return a.view(OArr)
    return _np.zeros(shape, dtype=dtype, **k)


def _np_exp(self, interp, x, **k):
    return _elementwise(lambda v: SReal(EXP(rterm(v))) if is_sym(v) else math.exp(v), x)


def _np_log(self, interp, x, **k):
    return _elementwise(lambda v: SReal(LOG(rterm(v))) if is_sym(v) else math.log(v), x)


NumpyO.np_zeros = _np_zeros
NumpyO.np_exp = _np_exp
NumpyO.np_log = _np_log
