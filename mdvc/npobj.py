"""NumpyO -- the real NumPy operating on dtype=object arrays whose elements are symbolic scalars.

Elementwise arithmetic and comparisons of such arrays call the operators of the symbolic scalars, so the array
plumbing (indexing, compress, hstack, broadcasting, reductions by +) is executed by NumPy itself and is not modelled.
Comparisons are turned into dtype=bool arrays by deciding every element on the path (pyinterp._concretise_bool_array).
Only the functions that would need libm or a concrete truth value inside a ufunc are overridden elementwise here
(trusted: they are the elementwise definitions of clip / arccos / radians / logical_and).
"""
import math

import numpy as _np
import z3

from . import core, models, npreal
from .core import SBool, SReal, is_sym, rterm
from .models import trusted

trusted("numpy.object-arrays", "NumPy itself executes indexing/compress/stack/reductions on object arrays of symbolic scalars; "
        "np.clip, np.arccos, np.radians/deg2rad, np.logical_and/or/not are the elementwise definitions (mdvc/npobj.py)")


def _elementwise(f, x):
    if isinstance(x, _np.ndarray):
        out = _np.empty(x.shape, dtype=object)
        o, i = out.reshape(-1), x.reshape(-1)
        for k in range(i.size):
            o[k] = f(i[k])
        return out
    return f(x)


class NumpyO:
    def sym_getattr(self, interp, name):
        f = getattr(self, "np_" + name, None)
        if f is not None:
            return lambda *a, **k: f(interp, *a, **k)
        return getattr(_np, name)

    def np_clip(self, interp, a, lo, hi, out=None):
        def one(v):
            if not is_sym(v):
                return min(max(v, lo), hi)
            return core.smin(core.smax(v, lo), hi)
        res = _elementwise(one, a)
        if out is not None:
            out[...] = res
            return out
        return res

    def np_arccos(self, interp, x):
        return _elementwise(lambda v: npreal.r_acos(v) if is_sym(v) else math.acos(v), x)

    def np_radians(self, interp, x):
        return _elementwise(lambda v: (v * SReal(npreal.PI) / 180) if is_sym(v) else SReal(z3.RealVal(repr(float(v))) * npreal.PI / 180), x)

    np_deg2rad = np_radians

    def np_round(self, interp, x, decimals=0, **k):
        # nearest integer (ties: any nearest one -- the witness only states |n - x| <= 1/2)
        if decimals != 0:
            raise core.Unsupported("np.round with decimals")
        return _elementwise(lambda v: round(v) if is_sym(v) else float(_np.round(v)), x)

    np_around = np_rint = np_round

    def np_cos(self, interp, x):
        return _elementwise(lambda v: npreal.r_cos(v) if is_sym(v) else math.cos(v), x)

    def np_sin(self, interp, x):
        return _elementwise(lambda v: npreal.r_sin(v) if is_sym(v) else math.sin(v), x)

    def np_logical_and(self, interp, a, b):
        return _np.logical_and(a, b)


class OArr(_np.ndarray):
    """object ndarray whose min/max reductions are computed with symbolic min/max (If-terms) instead of Python comparisons,
    so that a reduction over n symbolic reals does not fork the path n-1 times"""

    def _reduce(self, f, axis):
        if axis is None:
            vals = list(self.reshape(-1))
            r = vals[0]
            for v in vals[1:]:
                r = f(r, v)
            return r
        moved = _np.moveaxis(_np.asarray(self, dtype=object), axis, -1)
        out = _np.empty(moved.shape[:-1], dtype=object)
        for idx in _np.ndindex(*moved.shape[:-1]):
            vals = list(moved[idx])
            r = vals[0]
            for v in vals[1:]:
                r = f(r, v)
            out[idx] = r
        return out.view(OArr)

    def min(self, axis=None, **k):
        return self._reduce(core.smin, axis)

    def max(self, axis=None, **k):
        return self._reduce(core.smax, axis)


def oarr(shape, fill):
    a = _np.empty(shape, dtype=object)
    for idx in _np.ndindex(*a.shape):
        a[idx] = fill(*idx)
    return a.view(OArr)


EXP = z3.Function("exp", z3.RealSort(), z3.RealSort())
LOG = z3.Function("log", z3.RealSort(), z3.RealSort())


def _np_zeros(self, interp, shape, dtype=float, **k):
    if dtype in (float, _np.float32, _np.float64, "float32", "float64"):
        a = _np.empty(shape, dtype=object)
        a[...] = 0.0
        return a.view(OArr)
    return _np.zeros(shape, dtype=dtype, **k)


def _np_exp(self, interp, x, **k):
    return _elementwise(lambda v: SReal(EXP(rterm(v))) if is_sym(v) else math.exp(v), x)


def _np_log(self, interp, x, **k):
    return _elementwise(lambda v: SReal(LOG(rterm(v))) if is_sym(v) else math.log(v), x)


NumpyO.np_zeros = _np_zeros
NumpyO.np_exp = _np_exp
NumpyO.np_log = _np_log


def _oarr_astype(self, dtype, *a, **k):
    # symbolic elements have no machine representation: a float conversion keeps the (real-valued) terms
    if dtype in (float, _np.float32, _np.float64, "float32", "float64") and any(is_sym(v) for v in self.reshape(-1)):
        out = _np.empty(self.shape, dtype=object)
        o, i = out.reshape(-1), self.reshape(-1)
        for n in range(i.size):
            v = i[n]
            o[n] = SReal(rterm(v)) if is_sym(v) else float(v)
        return out.view(OArr)
    return _np.asarray(self).astype(dtype, *a, **k)


OArr.astype = _oarr_astype


def _np_histogram(self, interp, a, bins=10, range=None, **k):
    """numpy.histogram for symbolic samples, equal-width bins over a concrete range: bin k counts the samples in
    [e_k, e_{k+1}) -- the last bin also contains its right edge -- samples outside the range are ignored (NumPy's documented
    convention); counts are symbolic integers"""
    lo, hi = (float(range[0]), float(range[1]))
    nb = int(bins)
    edges = _np.linspace(lo, hi, nb + 1)
    vals = list(_np.asarray(a, dtype=object).reshape(-1))
    counts = _np.empty(nb, dtype=object)
    for b in _np.arange(nb):
        inside = []
        for v in vals:
            t = rterm(v)
            left = t >= z3.RealVal(repr(float(edges[b])))
            right = (t <= z3.RealVal(repr(float(edges[b + 1])))) if b == nb - 1 else (t < z3.RealVal(repr(float(edges[b + 1]))))
            inside.append(z3.If(z3.And(left, right), 1, 0))
        counts[b] = core.SInt(z3.Sum(inside)) if inside else 0
    return counts.view(OArr), edges


NumpyO.np_histogram = _np_histogram


class _F32:
    """np.float32 seen by code that runs on object arrays: as a dtype argument it means `a float array` (object storage
    here); called on an array it is the identity on symbolic data"""

    def __call__(self, x, *a, **k):
        if isinstance(x, _np.ndarray) and x.dtype == object:
            return x
        return _np.float32(x, *a, **k)

    def __eq__(self, other):
        return other is self or other == _np.float32

    def __hash__(self):
        return hash(_np.float32)


F32 = _F32()
_FLOATS = (float, _np.float32, _np.float64, "float32", "float64", "float", F32)


def _np_zeros2(self, interp, shape, dtype=float, **k):
    if dtype in _FLOATS:
        a = _np.empty(shape, dtype=object)
        a[...] = 0.0
        return a.view(OArr)
    return _np.zeros(shape, dtype=dtype, **k)


def _np_einsum(self, interp, spec, *ops):
    """einsum by its definition (explicit index loops) for object arrays of symbolic scalars: explicit output form `in1,in2->out`,
    an ellipsis stands for the same leading/trailing axes in every operand (NumPy broadcasts them right-aligned)"""
    arrs = [_np.asarray(o, dtype=object) if not (isinstance(o, _np.ndarray) and o.dtype != object) else o for o in ops]
    if not any(isinstance(a, _np.ndarray) and a.dtype == object for a in arrs):
        return _np.einsum(spec, *ops)
    spec = spec.replace(" ", "")
    if "->" not in spec:
        raise core.Unsupported("einsum without explicit output")
    ins, out = spec.split("->")
    ins = ins.split(",")
    if len(ins) != len(arrs):
        raise core.Unsupported("einsum operand count")
    nell = 0
    for s_, a in zip(ins, arrs):
        if "..." in s_:
            nell = max(nell, a.ndim - len(s_.replace("...", "")))
    ell = [f"<e{k}>" for k in range(nell)]

    def labels(s_, nd):
        if "..." in s_:
            pre, post = s_.split("...")
            k = nd - len(pre) - len(post)
            return list(pre) + ell[nell - k:] + list(post)
        return list(s_)
    in_labels = [labels(s_, a.ndim) for s_, a in zip(ins, arrs)]
    out_labels = labels(out, len(out.replace("...", "")) + (nell if "..." in out else 0))
    size = {}
    for ls, a in zip(in_labels, arrs):
        if len(ls) != a.ndim:
            raise core.Unsupported("einsum subscripts do not match the operand")
        for l, n in zip(ls, a.shape):
            if size.setdefault(l, n) != n:
                raise core.Unsupported("einsum size mismatch")
    summed = [l for l in size if l not in out_labels]
    res = _np.empty(tuple(size[l] for l in out_labels), dtype=object)
    import itertools
    for oidx in itertools.product(*[range(size[l]) for l in out_labels]):
        env = dict(zip(out_labels, oidx))
        tot = 0
        for sidx in itertools.product(*[range(size[l]) for l in summed]):
            env.update(zip(summed, sidx))
            term_ = 1
            for ls, a in zip(in_labels, arrs):
                term_ = term_ * a[tuple(env[l] for l in ls)]
            tot = tot + term_
        res[oidx] = tot
    return res.view(OArr) if res.ndim else res[()]


NumpyO.np_zeros = _np_zeros2
NumpyO.np_empty = _np_zeros2
NumpyO.np_einsum = _np_einsum
NumpyO.np_float32 = None
_orig_getattr = NumpyO.sym_getattr


def _getattr(self, interp, name):
    if name == "float32":
        return F32
    return _orig_getattr(self, interp, name)


NumpyO.sym_getattr = _getattr


_F32.dtype = _np.dtype("float32")  # so that native NumPy accepts the stand-in wherever a dtype is expected


def _has_sym(x):
    if is_sym(x):
        return True
    if isinstance(x, (list, tuple)):
        return any(_has_sym(v) for v in x)
    if isinstance(x, _np.ndarray) and x.dtype == object:
        return any(is_sym(v) for v in x.reshape(-1))
    return False


def _np_array(self, interp, x, dtype=None, *a, **k):
    if _has_sym(x):
        return _np.array(x, dtype=object).view(OArr)
    if dtype is F32:
        dtype = _np.float32
    return _np.array(x, dtype, *a, **k) if dtype is not None else _np.array(x, *a, **k)


def _np_asarray(self, interp, x, dtype=None, **k):
    if _has_sym(x):
        return x if isinstance(x, _np.ndarray) else _np.array(x, dtype=object).view(OArr)
    if dtype is F32:
        dtype = _np.float32
    return _np.asarray(x, dtype=dtype, **k)


NumpyO.np_array = _np_array
NumpyO.np_asarray = _np_asarray


class _Linalg:
    """np.linalg on object arrays of symbolic reals: norm is the Euclidean norm (sqrt of the sum of squares) along an axis;
    inv is opaque (its result is unused where it occurs in the code under contract)"""

    def sym_getattr(self, interp, name):
        if name == "norm":
            def norm(x, axis=None, **k):
                x = _np.asarray(x, dtype=object)
                if not _has_sym(x):
                    return _np.linalg.norm(x.astype(float), axis=axis, **k)
                sq = x * x
                if axis is None:
                    tot = sq.reshape(-1).sum()
                    return npreal.r_sqrt(tot)
                return _elementwise(lambda v: npreal.r_sqrt(v) if is_sym(v) else math.sqrt(v), sq.sum(axis=axis))
            return norm
        if name == "inv":
            return lambda x: ("inverse-of", id(x))
        return getattr(_np.linalg, name)


_orig_getattr2 = NumpyO.sym_getattr


def _getattr2(self, interp, name):
    if name == "linalg":
        return _Linalg()
    return _orig_getattr2(self, interp, name)


NumpyO.sym_getattr = _getattr2
