"""mdvc.models -- assumed contracts (models) for external packages, shared by all contracts.

Everything in this file is part of the *trusted base*: it states how numpy / the standard library /
third-party I/O behave, in the vocabulary the postconditions use.  Each model class carries a
`TRUSTED` line that is copied into the evidence files of the properties that use it.
"""
from __future__ import annotations

import collections
import itertools
import math
import operator as _operator
import re as _re
import string as _string

import z3

from . import core, pyinterp
from .core import INF, SBool, SInt, SNum, SReal, Sym, Unsupported, is_sym
from .pyinterp import ExcClass, Namespace, OpaqueModule, raise_py

TRUSTED = {}  # name -> one-line statement of the assumed contract


def trusted(name, text):
    TRUSTED[name] = text


# --------------------------------------------------------------------------------------------
# abstract frame-indexed arrays
#
# An abstract array is a *selection of rows of a base sequence*: (base, start, count, step)
# meaning rows base[start + j*step] for 0 <= j < count, optionally restricted to an atom
# selection and scaled by a unit factor.  Two abstract arrays are equal when these components are
# equal -- the postconditions compare components, which is the semantic statement "the same
# frames, in the same order", and does not depend on how a slice object spells its stop.

trusted(
    "numpy.basic-slicing",
    "a[slice(start,stop,step)] on axis 0 of a length-L array selects rows start+j*step for "
    "0<=j<count, count=ceil((min(stop,L)-start)/step) clipped at 0 (0<=start, step>=1); the result "
    "is a view for a slice and a fresh buffer for an index array or mask",
)


class Base:
    """Identity of a stored per-frame field (ghost): a name, its length, and whether present."""

    def __init__(self, name, length):
        self.name = name
        self.length = length

    def __repr__(self):
        return f"<base {self.name}>"


def ceil_div_count(start, stop, step, length):
    """number of rows selected by slice(start, stop, step) on a length-`length` axis; all z3 Int
    terms, requires 0 <= start, step >= 1."""
    stop_c = z3.If(stop <= length, stop, length)
    span = stop_c - start
    # ceil(span/step) for span > 0
    cnt = z3.If(span <= 0, z3.IntVal(0), (span + step - 1) / step)
    return z3.simplify(cnt)


class FrameSel:
    """rows base[start + j*step], j < count ; `atoms` is an opaque atom-selection token or None;
    `scale` is a concrete unit factor accumulated by in_units_of; `buf` identifies the buffer."""

    _bufc = itertools.count(1)

    def __init__(self, base, start, count, step, atoms=None, scale=1.0, buf=None, view_of=None):
        self.base = base
        self.start = start
        self.count = count
        self.step = step
        self.atoms = atoms
        self.scale = scale
        self.buf = buf if buf is not None else ("fresh", next(FrameSel._bufc))
        self.view_of = view_of

    def sym_len(self, interp):
        return SInt(core.term(self.count)) if not isinstance(self.count, int) else self.count

    def sym_getattr(self, interp, name):
        if name == "shape":
            return (self.sym_len(interp), ShapeDim("atoms"), 3)
        if name == "flags":
            return {"WRITEABLE": True}
        if name == "copy":
            return lambda *a, **k: FrameSel(self.base, self.start, self.count, self.step, self.atoms, self.scale)
        if name == "dtype":
            return OpaqueModule("dtype")
        if name == "ndim":
            return 3
        raise Unsupported(f"FrameSel.{name}")

    def sym_truth(self, interp):
        raise Unsupported("truth value of an array")

    def sym_is(self, interp, other):
        return self is other

    def __repr__(self):
        return f"<rows of {self.base.name}: start={self.start} count={self.count} step={self.step} atoms={self.atoms} x{self.scale}>"


class ShapeDim:
    def __init__(self, name):
        self.name = name


def slice_components(interp, key, length):
    """Python slice (possibly with symbolic parts) on an axis of symbolic length -> (start, count, step)
    z3 terms.  Requires step >= 1 and start >= 0 (checked as obligations of the call site)."""
    ex = interp.ex
    start = key.start if key.start is not None else 0
    step = key.step if key.step is not None else 1
    stop = key.stop
    L = core.term(length)
    st = core.term(start)
    sp = core.term(step)
    if isinstance(stop, float) and stop == INF:
        stop_t = L
    elif stop is None:
        stop_t = L
    else:
        stop_t = core.term(stop)
    ex.require("slice-start-nonnegative", st >= 0, kind="call-pre")
    ex.require("slice-step-positive", sp >= 1, kind="call-pre")
    # numpy clips start at length as well
    st_c = z3.If(st <= L, st, L)
    return z3.simplify(st_c), ceil_div_count(st_c, stop_t, sp, L), z3.simplify(sp)


class StoredField:
    """A per-frame variable stored in a file (PyTables node / netCDF variable): indexing returns a
    FrameSel of its base."""

    def __init__(self, base, units=None, n_atoms=None):
        self.base = base
        self.units = units
        self.n_atoms = n_atoms

    def sym_len(self, interp):
        return self.base.length

    def sym_getattr(self, interp, name):
        if name == "__getitem__":
            return lambda k: self.sym_getitem(interp, k)
        if name == "shape":
            return (self.base.length, self.n_atoms, 3)
        if name == "attrs":
            return Namespace("attrs", units=self.units)
        if name == "units":
            return self.units
        raise Unsupported(f"StoredField.{name}")

    def sym_getitem(self, interp, k):
        atoms = None
        if isinstance(k, tuple):
            fk = k[0]
            if len(k) > 1 and not (isinstance(k[1], slice) and k[1] == slice(None)):
                atoms = k[1]
        else:
            fk = k
        if isinstance(fk, slice):
            start, count, step = slice_components(interp, fk, self.base.length)
            return FrameSel(self.base, start, count, step, atoms=atoms)
        raise Unsupported("frame index that is not a slice")


# --------------------------------------------------------------------------------------------
# numpy (minimal, grown on demand)


class NumpyModel:
    def sym_getattr(self, interp, name):
        if name == "inf":
            return INF
        if name == "pi":
            return math.pi
        if name in ("float32", "float64", "int32", "int64", "int", "bool_"):
            return ("dtype", name)
        if name == "ndarray":
            return NdarrayType()
        if name == "newaxis":
            return None
        f = getattr(self, "np_" + name, None)
        if f is None:
            return OpaqueModule("numpy." + name)
        return lambda *a, **k: f(interp, *a, **k)

    def np_array(self, interp, x, *a, **k):
        if isinstance(x, FrameSel):
            return FrameSel(x.base, x.start, x.count, x.step, x.atoms, x.scale)
        if isinstance(x, list) and not x:
            return EmptyArr()
        raise Unsupported("np.array of this value")

    def np_all(self, interp, x, *a, **k):
        if isinstance(x, (bool, SBool)):
            return x
        if hasattr(x, "np_all"):
            return x.np_all(interp)
        raise Unsupported("np.all")

    def np_isscalar(self, interp, x):
        return isinstance(x, (int, float, SNum))


class NdarrayType:
    def sym_instancecheck(self, interp, v):
        return isinstance(v, (FrameSel, EmptyArr)) or hasattr(v, "is_ndarray")


class EmptyArr:
    """np.array([])"""

    def sym_len(self, interp):
        return 0

    def sym_getattr(self, interp, name):
        if name == "shape":
            return (0,)
        raise Unsupported("EmptyArr." + name)


class WarningsModel:
    def sym_getattr(self, interp, name):
        if name == "warn":
            return lambda *a, **k: None
        if name == "simplefilter" or name == "filterwarnings":
            return lambda *a, **k: None
        return OpaqueModule("warnings." + name)


def install_std(interp):
    """Standard-library modules that are executed natively on concrete data + no-op warnings."""
    im = interp.import_models
    im["collections"] = collections
    im["itertools"] = itertools
    im["math"] = math
    im["operator"] = _operator
    im["re"] = _re
    im["string"] = _string
    im["warnings"] = WarningsModel()
    im["numpy"] = NumpyModel()
    interp.dropped.append("warnings.warn(...) calls are no-ops")
    interp.dropped.append("docstrings and type annotations are ignored")
