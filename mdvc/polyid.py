"""Exact polynomial identities on terms produced by the symbolic executor: z3 real/int terms built from constants,
array cells, + - * and numerals are translated to sympy and compared in expanded normal form."""
import sympy as sp
import z3


def to_sympy(t, env=None):
    env = {} if env is None else env

    def sym(name):
        if name not in env:
            env[name] = sp.Symbol(name, real=True)
        return env[name]

    def go(e):
        if z3.is_int_value(e):
            return sp.Integer(e.as_long())
        if z3.is_rational_value(e):
            return sp.Rational(e.numerator_as_long(), e.denominator_as_long())
        if z3.is_algebraic_value(e):
            raise ValueError("algebraic numeral")
        k = e.decl().kind()
        ch = e.children()
        if k == z3.Z3_OP_ADD:
            return sp.Add(*[go(c) for c in ch])
        if k == z3.Z3_OP_SUB:
            r = go(ch[0])
            for c in ch[1:]:
                r = r - go(c)
            return r
        if k == z3.Z3_OP_MUL:
            return sp.Mul(*[go(c) for c in ch])
        if k == z3.Z3_OP_UMINUS:
            return -go(ch[0])
        if k == z3.Z3_OP_TO_REAL:
            return go(ch[0])
        if k == z3.Z3_OP_POWER and z3.is_int_value(ch[1]):
            return go(ch[0]) ** ch[1].as_long()
        if k == z3.Z3_OP_DIV:
            return go(ch[0]) / go(ch[1])  # rational functions: the caller states under which conditions the denominator is non-zero
        if k == z3.Z3_OP_UNINTERPRETED and not ch:
            return sym(e.decl().name())
        if k == z3.Z3_OP_SELECT or k == z3.Z3_OP_UNINTERPRETED:
            return sym(" ".join(str(z3.simplify(e)).split()))  # canonical text of the application = one indeterminate
        raise ValueError(f"not a polynomial term: {e.decl().name()}")

    return go(t)


def poly_equal(a, b, env=None):
    """a, b: z3 terms or sympy expressions"""
    env = {} if env is None else env
    A = to_sympy(a, env) if isinstance(a, z3.ExprRef) else a
    B = to_sympy(b, env) if isinstance(b, z3.ExprRef) else b
    return sp.expand(A - B) == 0


def rational_equal(a, b, env=None):
    """equality of rational functions (denominators are treated as non-zero indeterminates)"""
    env = {} if env is None else env
    A = to_sympy(a, env) if isinstance(a, z3.ExprRef) else a
    B = to_sympy(b, env) if isinstance(b, z3.ExprRef) else b
    return sp.cancel(sp.together(A - B)) == 0
