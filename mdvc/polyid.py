"""Exact polynomial identities on terms produced by the symbolic executor: z3 real/int terms built from constants,
array cells, + - * and numerals are translated to sympy and compared in expanded normal form."""
import sympy as sp
import z3


LEAVES = {}  # name of a non-polynomial leaf (uninterpreted application, array cell) -> its z3 term


def to_sympy(t, env=None):
    env = {} if env is None else env

    def sym(name):
        if name not in env:
            env[name] = sp.Symbol(name, real=True)
        return env[name]

    def go(e):
        if z3.is_int_value(e):
            return sp.Integer(e.as_long())
        if z3.is_rational_value(e):
            return sp.Rational(e.numerator_as_long(), e.denominator_as_long())
        if z3.is_algebraic_value(e):
            raise ValueError("algebraic numeral")
        k = e.decl().kind()
        ch = e.children()
        if k == z3.Z3_OP_ADD:
            return sp.Add(*[go(c) for c in ch])
        if k == z3.Z3_OP_SUB:
            r = go(ch[0])
            for c in ch[1:]:
                r = r - go(c)
            return r
        if k == z3.Z3_OP_MUL:
            return sp.Mul(*[go(c) for c in ch])
        if k == z3.Z3_OP_UMINUS:
            return -go(ch[0])
        if k == z3.Z3_OP_TO_REAL:
            return go(ch[0])
        if k == z3.Z3_OP_POWER and z3.is_int_value(ch[1]):
            return go(ch[0]) ** ch[1].as_long()
        if k == z3.Z3_OP_DIV:
            return go(ch[0]) / go(ch[1])  # rational functions: the caller states under which conditions the denominator is non-zero
        if k == z3.Z3_OP_UNINTERPRETED and not ch:
            return sym(e.decl().name())
        if k == z3.Z3_OP_SELECT or k == z3.Z3_OP_UNINTERPRETED:
            nm = " ".join(str(z3.simplify(e)).split())  # canonical text of the application = one indeterminate
            LEAVES[nm] = z3.simplify(e)
            return sym(nm)
        raise ValueError(f"not a polynomial term: {e.decl().name()}")

    return go(t)


def poly_equal(a, b, env=None):
    """a, b: z3 terms or sympy expressions"""
    env = {} if env is None else env
    A = to_sympy(a, env) if isinstance(a, z3.ExprRef) else a
    B = to_sympy(b, env) if isinstance(b, z3.ExprRef) else b
    return sp.expand(A - B) == 0


def rational_equal(a, b, env=None):
    """equality of rational functions (denominators are treated as non-zero indeterminates)"""
    env = {} if env is None else env
    A = to_sympy(a, env) if isinstance(a, z3.ExprRef) else a
    B = to_sympy(b, env) if isinstance(b, z3.ExprRef) else b
    return sp.cancel(sp.together(A - B)) == 0


def from_sympy(e, env):
    """sympy polynomial with rational coefficients over the symbols of `env` (name -> sympy symbol, filled by to_sympy) back to
    a z3 real term; the z3 leaves are recovered from `leaves` (name -> z3 term) stored alongside"""
    leaves = env["#leaves"]
    e = sp.expand(e)

    def go(x):
        if x.is_Symbol:
            return leaves[x.name]
        if x.is_Integer:
            return z3.RealVal(int(x))
        if x.is_Rational:
            return z3.RealVal(f"{x.p}/{x.q}")
        if x.is_Float:
            return z3.RealVal(repr(float(x)))
        if x.is_Add:
            terms = [go(a) for a in sorted(x.args, key=sp.default_sort_key)]
            r = terms[0]
            for t in terms[1:]:
                r = r + t
            return r
        if x.is_Mul:
            terms = [go(a) for a in sorted(x.args, key=sp.default_sort_key)]
            r = terms[0]
            for t in terms[1:]:
                r = r * t
            return r
        if x.is_Pow and x.exp.is_Integer and int(x.exp) >= 1:
            b = go(x.base)
            r = b
            for _ in range(int(x.exp) - 1):
                r = r * b
            return r
        raise ValueError(f"not a polynomial: {x}")
    return go(e)


def canonical(t):
    """a canonical z3 term for a polynomial z3 term (expanded, monomials and factors in sympy's sort order): two polynomial
    terms that are equal as polynomials get the SAME canonical term, so uninterpreted functions applied to them coincide"""
    env = {}
    leaves = {}

    class Env(dict):
        pass
    e = _to_sympy_with_leaves(t, env, leaves)
    env["#leaves"] = leaves
    return from_sympy(e, env)


def _to_sympy_with_leaves(t, env, leaves):
    def sym(name, term):
        if name not in env:
            env[name] = sp.Symbol(name, real=True)
            leaves[name] = term
        return env[name]

    def go(e):
        if z3.is_int_value(e):
            return sp.Integer(e.as_long())
        if z3.is_rational_value(e):
            return sp.Rational(e.numerator_as_long(), e.denominator_as_long())
        k = e.decl().kind()
        ch = e.children()
        if k == z3.Z3_OP_ADD:
            return sp.Add(*[go(c) for c in ch])
        if k == z3.Z3_OP_SUB:
            r = go(ch[0])
            for c in ch[1:]:
                r = r - go(c)
            return r
        if k == z3.Z3_OP_MUL:
            return sp.Mul(*[go(c) for c in ch])
        if k == z3.Z3_OP_UMINUS:
            return -go(ch[0])
        if k == z3.Z3_OP_POWER and z3.is_int_value(ch[1]):
            return go(ch[0]) ** ch[1].as_long()
        # anything else (constants, to_real(int), select, ite, division, uninterpreted applications) is a leaf
        return sym("leaf" + str(e.get_id()), e)
    return go(t)
