"""./check --setup : offline self-test of the engine (no build step is needed: the engine is
pure Python on the pre-installed z3/cvc5; the kernel overlay is built lazily by the bounded layer)."""
import os
import subprocess
import sys

import z3


def main(a):
    ok = True
    # 1. solver sanity
    x = z3.Int("x")
    s = z3.Solver()
    s.add(x > 0, x < 0)
    ok &= s.check() == z3.unsat
    # 2. engine self-test: a correct and a broken toy function
    from mdvc import selftest

    ok &= selftest.run()
    # 3. the bounded layer can import mdtraj
    p = subprocess.run(["/venv/bin/python", "-c", "import mdtraj, numpy; print(mdtraj.__file__)"], capture_output=True, text=True)
    ok &= p.returncode == 0
    # 4. kernel overlay: build extension modules whose C/C++ sources differ from the pinned baseline (cached under scratch/)
    here = os.path.dirname(os.path.dirname(os.path.abspath(__file__)))
    q = subprocess.run(["/venv/bin/python", os.path.join(here, "bcc", "overlay.py"), "/repo"], capture_output=True, text=True)
    print("overlay:", q.stdout.strip()[:300], q.stderr.strip()[-300:])
    ok &= q.returncode == 0
    print("setup:", "ok" if ok else "FAILED", p.stdout.strip())
    return 0 if ok else 3
