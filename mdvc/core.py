"""mdvc.core -- symbolic values, path exploration and obligation discharge.

The engine is a forward symbolic executor: a function body (Python `ast`, or clang's JSON AST for
C/C++) is executed over a mixed concrete/symbolic value domain.  Branching on a symbolic
condition forks the path (decision-replay: the function is re-executed from the start with a
recorded decision prefix, so no state cloning is needed).  At the end of every feasible path the
contract's postcondition clauses become obligations  pc /\\ assumptions |= clause  which are
discharged with z3 (cvc5 takes z3's `unknown`s).

Verdicts per obligation: 'discharged' (unsat), 'refuted' (sat + model), 'undecided'
(unknown/timeout/unsupported construct).  Nothing but 'refuted' can ever become a violation.
"""
from __future__ import annotations

import itertools
import subprocess
import time
from fractions import Fraction

import z3

# --------------------------------------------------------------------------------------------
# exceptions used by the executors


class Unsupported(Exception):
    """A construct outside the executor's subset: the function becomes *undecided*."""


class Infeasible(Exception):
    """The current path condition is unsatisfiable."""


class PathLimit(Exception):
    pass


class PathEnd(Exception):
    """The path ends here by construction (e.g. after a loop-preservation check)."""


# --------------------------------------------------------------------------------------------
# symbolic scalars with Python operator overloading.  `bool(SBool)` forks the current path.

_CURRENT = []  # stack of active Explorer objects


def current():
    if not _CURRENT:
        raise Unsupported("symbolic truth value needed outside an exploration")
    return _CURRENT[-1]


def is_sym(v):
    return isinstance(v, Sym)


class Sym:
    __slots__ = ("t",)

    def __init__(self, t):
        self.t = t

    def __repr__(self):
        return f"{type(self).__name__}({self.t})"

    def __hash__(self):
        return hash(self.t)


def _num(v):
    """python number / Sym -> (z3 term, is_real)"""
    if isinstance(v, SInt):
        return v.t, False
    if isinstance(v, SReal):
        return v.t, True
    if isinstance(v, bool):
        return z3.IntVal(int(v)), False
    if isinstance(v, int):
        return z3.IntVal(v), False
    if isinstance(v, float):
        if v != v or v in (float("inf"), float("-inf")):
            raise Unsupported("non-finite float in symbolic arithmetic")
        fr = Fraction(v)  # exact value of the double
        # prefer short decimal spelling when it round-trips (0.1 means the real 1/10 under the
        # "floats are reals" assumption)
        fr2 = Fraction(repr(v))
        return z3.RealVal(str(fr2)), True
    if isinstance(v, Fraction):
        return z3.RealVal(str(v)), True
    if isinstance(v, SBool):
        return z3.If(v.t, z3.IntVal(1), z3.IntVal(0)), False
    return None


def _wrapnum(t):
    if z3.is_int(t):
        return SInt(t)
    return SReal(t)


def _arith(a, b, op):
    na, nb = _num(a), _num(b)
    if na is None or nb is None:
        return NotImplemented
    (ta, ra), (tb, rb) = na, nb
    if ra or rb:
        if not ra:
            ta = z3.ToReal(ta)
        if not rb:
            tb = z3.ToReal(tb)
    return ta, tb, (ra or rb)


INF = float("inf")


class SNum(Sym):
    __slots__ = ()

    # arithmetic ------------------------------------------------------------------------
    def __add__(self, o):
        if isinstance(o, float) and o in (INF, -INF):
            return o
        r = _arith(self, o, "+")
        if r is NotImplemented:
            return r
        return _wrapnum(z3.simplify(r[0] + r[1]))

    __radd__ = __add__

    def __sub__(self, o):
        if isinstance(o, float) and o in (INF, -INF):
            return -o
        r = _arith(self, o, "-")
        if r is NotImplemented:
            return r
        return _wrapnum(z3.simplify(r[0] - r[1]))

    def __rsub__(self, o):
        if isinstance(o, float) and o in (INF, -INF):
            return o
        r = _arith(o, self, "-")
        if r is NotImplemented:
            return r
        return _wrapnum(z3.simplify(r[0] - r[1]))

    def __mul__(self, o):
        if isinstance(o, float) and o in (INF, -INF):
            raise Unsupported("symbolic * inf")
        r = _arith(self, o, "*")
        if r is NotImplemented:
            return r
        return _wrapnum(z3.simplify(r[0] * r[1]))

    __rmul__ = __mul__

    def __neg__(self):
        return _wrapnum(z3.simplify(-self.t))

    def __pos__(self):
        return self

    def __abs__(self):
        return _wrapnum(z3.If(self.t >= 0, self.t, -self.t))

    def __truediv__(self, o):
        r = _arith(self, o, "/")
        if r is NotImplemented:
            return r
        a, b = r[0], r[1]
        if not r[2]:
            a, b = z3.ToReal(a), z3.ToReal(b)
        current().require_nonzero(b)
        return SReal(z3.simplify(a / b))

    def __rtruediv__(self, o):
        r = _arith(o, self, "/")
        if r is NotImplemented:
            return r
        a, b = r[0], r[1]
        if not r[2]:
            a, b = z3.ToReal(a), z3.ToReal(b)
        current().require_nonzero(b)
        return SReal(z3.simplify(a / b))

    def __floordiv__(self, o):
        r = _arith(self, o, "//")
        if r is NotImplemented or r[2]:
            raise Unsupported("real floor division")
        current().require_nonzero(r[1])
        return SInt(z3.simplify(py_floordiv(r[0], r[1])))

    def __rfloordiv__(self, o):
        r = _arith(o, self, "//")
        if r is NotImplemented or r[2]:
            raise Unsupported("real floor division")
        current().require_nonzero(r[1])
        return SInt(z3.simplify(py_floordiv(r[0], r[1])))

    def __mod__(self, o):
        r = _arith(self, o, "%")
        if r is NotImplemented or r[2]:
            raise Unsupported("real modulo")
        current().require_nonzero(r[1])
        return SInt(z3.simplify(py_mod(r[0], r[1])))

    def __rmod__(self, o):
        r = _arith(o, self, "%")
        if r is NotImplemented or r[2]:
            raise Unsupported("real modulo")
        current().require_nonzero(r[1])
        return SInt(z3.simplify(py_mod(r[0], r[1])))

    def __round__(self, ndigits=None):
        """round(x): an integer n with |n - x| <= 1/2 (explicit witness; ties are left open, which covers round-half-even and
        round-half-away alike)"""
        if ndigits is not None:
            raise Unsupported("round(x, ndigits) of a symbolic value")
        if isinstance(self, SInt):
            return self
        ex = current()
        memo = ex.path.ghost.setdefault("round_memo", {})
        key = z3.simplify(self.t).sexpr()
        if key in memo:  # rounding is a function: the same argument gives the same integer
            return SInt(memo[key])
        n = z3.Int(fresh_name("rnd"))
        memo[key] = n
        r = z3.ToReal(n)
        ex.assume(z3.And(r - self.t <= z3.RealVal("1/2"), self.t - r <= z3.RealVal("1/2")))
        ex.path.ghost.setdefault("round_witness", []).append((self.t, n))
        return SInt(n)

    def __pow__(self, o):
        if isinstance(o, float) and o == int(o):
            o = int(o)
        if isinstance(o, int) and 0 <= o <= 6:
            r = 1
            for _ in range(o):
                r = self * r
            return r
        if o == 0.5:
            from . import npreal

            return npreal.r_sqrt(self)
        raise Unsupported("symbolic power")

    # comparisons -----------------------------------------------------------------------
    def _cmp(self, o, f):
        if isinstance(o, float) and o in (INF, -INF):
            return f(0, 1 if o > 0 else -1)
        r = _arith(self, o, "cmp")
        if r is NotImplemented:
            return r
        return SBool(z3.simplify(f(r[0], r[1])))

    def __lt__(self, o):
        return self._cmp(o, lambda a, b: a < b)

    def __le__(self, o):
        return self._cmp(o, lambda a, b: a <= b)

    def __gt__(self, o):
        return self._cmp(o, lambda a, b: a > b)

    def __ge__(self, o):
        return self._cmp(o, lambda a, b: a >= b)

    def __eq__(self, o):
        if o is None or isinstance(o, str):
            return False
        r = self._cmp(o, lambda a, b: a == b)
        return False if r is NotImplemented else r

    def __ne__(self, o):
        if o is None or isinstance(o, str):
            return True
        r = self._cmp(o, lambda a, b: a != b)
        return True if r is NotImplemented else r

    __hash__ = Sym.__hash__

    def __bool__(self):
        return bool(self != 0)


class SInt(SNum):
    __slots__ = ()

    def __index__(self):
        v = current().concrete_int(self.t)
        if v is None:
            raise Unsupported("symbolic integer used as a concrete index")
        return v

    def __int__(self):
        return self.__index__()


class SReal(SNum):
    __slots__ = ()


class SBool(Sym):
    __slots__ = ()

    def __bool__(self):
        return current().branch(self.t)

    def __invert__(self):
        return SBool(z3.simplify(z3.Not(self.t)))

    def __and__(self, o):
        return SBool(z3.simplify(z3.And(self.t, as_bool_term(o))))

    __rand__ = __and__

    def __or__(self, o):
        return SBool(z3.simplify(z3.Or(self.t, as_bool_term(o))))

    __ror__ = __or__

    def __eq__(self, o):
        return SBool(z3.simplify(self.t == as_bool_term(o)))

    def __ne__(self, o):
        return SBool(z3.simplify(self.t != as_bool_term(o)))

    __hash__ = Sym.__hash__


def as_bool_term(v):
    if isinstance(v, SBool):
        return v.t
    if isinstance(v, bool):
        return z3.BoolVal(v)
    if isinstance(v, SNum):
        return v.t != 0
    if z3.is_expr(v) and z3.is_bool(v):
        return v
    raise Unsupported(f"not a boolean: {v!r}")


def term(v):
    """Python number / Sym / z3 expr -> z3 term."""
    if z3.is_expr(v):
        return v
    if isinstance(v, SBool):
        return v.t
    n = _num(v)
    if n is None:
        raise Unsupported(f"no z3 term for {v!r}")
    return n[0]


def rterm(v):
    t = term(v)
    return z3.ToReal(t) if z3.is_int(t) else t


def py_floordiv(a, b):
    """Python // on z3 Ints (floor), from z3's Euclidean div."""
    q = a / b  # z3 int division: Euclidean (remainder >= 0)
    r = a - b * q
    return z3.If(z3.And(r != 0, b < 0), q - 1, q)


def py_mod(a, b):
    return a - b * py_floordiv(a, b)


def smin(a, b):
    if a == INF:
        return b
    if b == INF:
        return a
    if not is_sym(a) and not is_sym(b):
        return min(a, b)
    ta, tb, _ = _arith(a, b, "min")
    return _wrapnum(z3.simplify(z3.If(ta <= tb, ta, tb)))


def smax(a, b):
    if a == -INF:
        return b
    if b == -INF:
        return a
    if not is_sym(a) and not is_sym(b):
        return max(a, b)
    ta, tb, _ = _arith(a, b, "max")
    return _wrapnum(z3.simplify(z3.If(ta >= tb, ta, tb)))


_fresh_counter = itertools.count()


def fresh_name(stem):
    return f"{stem}!{next(_fresh_counter)}"


def reset_fresh():
    global _fresh_counter
    _fresh_counter = itertools.count()


# --------------------------------------------------------------------------------------------
# solver layer


class SolverStats:
    def __init__(self):
        self.z3_queries = 0
        self.z3_time = 0.0
        self.cvc5_queries = 0
        self.cvc5_time = 0.0
        self.by_backend = {"z3": 0, "cvc5": 0, "poly": 0}


STATS = SolverStats()
TIMEOUT_MS = 10000


def check_sat(assertions, timeout_ms=None, want_model=False, use_cvc5=True):
    """-> ('sat', model|None) | ('unsat', None) | ('unknown', reason)
    z3 alone for a short first attempt; then z3 and cvc5 side by side (portfolio: the first definite answer wins), so a
    query that only one of the solvers can decide costs that solver's time, not the other's timeout."""
    timeout_ms = timeout_ms or TIMEOUT_MS
    s = z3.Solver()
    for a in assertions:
        s.add(a)
    first = int(timeout_ms) if not use_cvc5 else min(int(timeout_ms), 1500)
    s.set("timeout", first)
    t0 = time.time()
    r = s.check()
    STATS.z3_queries += 1
    STATS.z3_time += time.time() - t0
    if r == z3.unsat:
        return "unsat", "z3"
    if r == z3.sat:
        return "sat", (s.model() if want_model else None)
    if not use_cvc5:
        return "unknown", s.reason_unknown()
    proc = _cvc5_start(s.to_smt2(), timeout_ms)
    tc = time.time()
    STATS.cvc5_queries += 1
    try:
        if first < int(timeout_ms):
            s.set("timeout", int(timeout_ms) - first)
            t0 = time.time()
            r = s.check()
            STATS.z3_queries += 1
            STATS.z3_time += time.time() - t0
            if r == z3.unsat:
                return "unsat", "z3"
            if r == z3.sat:
                return "sat", (s.model() if want_model else None)
        res = _cvc5_wait(proc, timeout_ms / 1000 + 5 - (time.time() - tc))
        if res == "unsat":
            return "unsat", "cvc5"
        if res == "sat":
            return "sat", None
    finally:
        STATS.cvc5_time += time.time() - tc
        if proc is not None and proc.poll() is None:
            proc.kill()
            proc.wait()
    return "unknown", s.reason_unknown()


def _cvc5_start(smt2, timeout_ms):
    try:
        p = subprocess.Popen(["/usr/bin/cvc5", "--lang=smt2", f"--tlimit={int(timeout_ms)}", "--nl-ext-tplanes"],
                             stdin=subprocess.PIPE, stdout=subprocess.PIPE, stderr=subprocess.DEVNULL, text=True)
        p.stdin.write("(set-logic ALL)\n" + smt2)
        p.stdin.close()
        return p
    except Exception:
        return None


def _cvc5_wait(p, seconds):
    if p is None:
        return "unknown"
    try:
        p.wait(timeout=max(0.1, seconds))
        out = p.stdout.read()
    except Exception:
        return "unknown"
    for line in out.strip().splitlines():
        if line.strip() in ("sat", "unsat", "unknown"):
            return line.strip()
    return "unknown"


def _cvc5_check(smt2, timeout_ms):
    return _cvc5_wait(_cvc5_start(smt2, timeout_ms), timeout_ms / 1000 + 5)


def model_to_dict(m):
    d = {}
    if m is None:
        return d
    for decl in m.decls():
        try:
            v = m[decl]
            if decl.arity() == 0:
                if z3.is_int_value(v):
                    d[decl.name()] = v.as_long()
                elif z3.is_rational_value(v):
                    d[decl.name()] = float(v.numerator_as_long()) / float(v.denominator_as_long())
                elif z3.is_true(v) or z3.is_false(v):
                    d[decl.name()] = z3.is_true(v)
                else:
                    d[decl.name()] = str(v)
            else:
                d[decl.name()] = str(v)
        except Exception as e:  # pragma: no cover
            d[decl.name()] = f"<{e}>"
    return d


# --------------------------------------------------------------------------------------------
# obligations and paths


_LINEAR_CACHE = {}


def is_linear(e):
    k = e.get_id()
    v = _LINEAR_CACHE.get(k)
    if v is not None:
        return v
    ok = True
    todo, seen = [e], set()
    while todo and ok:
        x = todo.pop()
        i = x.get_id()
        if i in seen:
            continue
        seen.add(i)
        if z3.is_app(x):
            kd = x.decl().kind()
            ch = x.children()
            if kd == z3.Z3_OP_MUL:
                if sum(1 for c in ch if not (z3.is_rational_value(c) or z3.is_int_value(c))) > 1:
                    ok = False
            elif kd in (z3.Z3_OP_DIV, z3.Z3_OP_IDIV, z3.Z3_OP_MOD, z3.Z3_OP_REM):
                if not (z3.is_rational_value(ch[1]) or z3.is_int_value(ch[1])):
                    ok = False
            elif kd == z3.Z3_OP_POWER:
                ok = False
            todo.extend(ch)
    if len(_LINEAR_CACHE) > 200000:
        _LINEAR_CACHE.clear()
    _LINEAR_CACHE[k] = ok
    return ok


def _symbols(e, cache):
    k = e.get_id()
    if k in cache:
        return cache[k]
    out = set()
    todo = [e]
    seen = set()
    while todo:
        x = todo.pop()
        i = x.get_id()
        if i in seen:
            continue
        seen.add(i)
        if z3.is_const(x) and x.decl().kind() == z3.Z3_OP_UNINTERPRETED:
            out.add(x.decl().name())
        elif z3.is_app(x):
            if x.decl().kind() == z3.Z3_OP_UNINTERPRETED and x.num_args() > 0:
                out.add(x.decl().name())
            if z3.is_app_of(x, z3.Z3_OP_SELECT) and z3.is_const(x.arg(0)):
                # array reads: the array name alone would connect everything; use array+index text
                out.add("sel:" + str(x))
                todo.extend(x.children()[1:])
                continue
            todo.extend(x.children())
    cache[k] = out
    return out


def slice_hyps(hyps, goal, depth):
    cache = {}
    syms = set(_symbols(goal, cache))
    hs = [(h, _symbols(h, cache)) for h in hyps]
    chosen = [False] * len(hs)
    closed = depth == "1+closed"
    if closed:
        depth = 1
    for _ in range(depth):
        new = set()
        for i, (h, sy) in enumerate(hs):
            if not chosen[i] and (sy & syms):
                chosen[i] = True
                new |= sy
        if not new - syms:
            break
        syms |= new
    if closed:
        # plus every hypothesis that speaks only about symbols already collected (facts about the same objects)
        for i, (h, sy) in enumerate(hs):
            if not chosen[i] and sy and sy <= syms:
                chosen[i] = True
    return [h for (h, _), c in zip(hs, chosen) if c]


class Obligation:
    __slots__ = ("oid", "function", "path_class", "clause", "hyps", "goal", "status", "backend", "time_s",
                 "model", "note", "kind", "src", "split")

    def __init__(self, oid, function, path_class, clause, hyps, goal, kind="post", src=None):
        self.oid = oid
        self.function = function
        self.path_class = path_class
        self.clause = clause
        self.hyps = list(hyps)
        self.goal = goal
        self.status = None
        self.backend = None
        self.time_s = 0.0
        self.model = None
        self.note = ""
        self.kind = kind
        self.src = src
        self.split = None  # case-split hints: list of Bool terms b; the goal is proved under b and under Not(b)

    def _split_discharge(self, goal, tm, t0):
        """proof by cases on the contract's hint terms (sound: b or not b); each case first has z3's simplifier applied
        with the case equation substituted, which removes the array/ite reasoning the hint was given for"""
        cases = [[]]
        for b in self.split:
            cases = [c + [b] for c in cases] + [c + [z3.Not(b)] for c in cases]
        for c in cases:
            r, info = check_sat(self.hyps + c + [z3.Not(goal)], timeout_ms=tm, want_model=False)
            if r != "unsat":
                return False
        self.time_s = time.time() - t0
        self.status = "discharged"
        self.backend = "z3"
        self.note = f"proof by {len(cases)} cases (contract hint)"
        STATS.by_backend["z3"] = STATS.by_backend.get("z3", 0) + 1
        return True

    def discharge(self, timeout_ms=None):
        t0 = time.time()
        if isinstance(self.goal, bool):
            goal = z3.BoolVal(self.goal)
        else:
            goal = self.goal
        # hypothesis slicing (sound: unsat with a subset of the hypotheses is unsat with all of them)
        tm = timeout_ms or TIMEOUT_MS
        if self.kind == "lemma-poly" and (z3.is_true(goal) or z3.is_false(goal)):
            # an exact polynomial / rational-function identity decided by sympy's normal form in the contract
            self.status = "discharged" if z3.is_true(goal) else "refuted"
            self.backend = "poly"
            self.note = "identity decided by sympy normal form" if z3.is_true(goal) else "the identity does not hold (sympy normal form of the difference is not 0)"
            self.model = {} if z3.is_false(goal) else None
            STATS.by_backend["poly"] = STATS.by_backend.get("poly", 0) + 1
            self.time_s = time.time() - t0
            return self.status
        if self.split and self._split_discharge(goal, tm, t0):
            return self.status
        if len(self.hyps) > 12:
            for depth in (1, "1+closed", 2):
                sub = slice_hyps(self.hyps, goal, depth)
                if len(sub) >= len(self.hyps):
                    break
                r, info = check_sat(sub + [z3.Not(goal)], timeout_ms=min(1500, max(1000, tm // 4)), want_model=False, use_cvc5=False)
                if r == "unsat":
                    self.time_s = time.time() - t0
                    self.status = "discharged"
                    self.backend = info
                    self.note = f"hypotheses sliced to {len(sub)}/{len(self.hyps)}"
                    STATS.by_backend[info] = STATS.by_backend.get(info, 0) + 1
                    return self.status
        r, info = check_sat(self.hyps + [z3.Not(goal)], timeout_ms=timeout_ms, want_model=True)
        self.time_s = time.time() - t0
        if r == "unsat":
            self.status = "discharged"
            self.backend = info
            STATS.by_backend[info] = STATS.by_backend.get(info, 0) + 1
        elif r == "sat":
            self.status = "refuted"
            self.backend = "z3" if info is not None else "cvc5"
            self.model = model_to_dict(info)
        else:
            self.status = "undecided"
            self.note = f"solver: {info}"
            # the solvers could not decide: look for a numeric counter-example to the VC (mdvc.numeric)
            try:
                from . import numeric

                m = numeric.refute(self.hyps, goal)
            except Exception:
                m = None
            if m is not None:
                self.status = "refuted"
                self.backend = "numeric"
                self.model = m
                self.note = "solver unknown; VC falsified numerically (libm interpretation of the uninterpreted functions)"
            self.time_s = time.time() - t0
        return self.status

    def smt2(self):
        s = z3.Solver()
        for h in self.hyps:
            s.add(h)
        g = z3.BoolVal(self.goal) if isinstance(self.goal, bool) else self.goal
        s.add(z3.Not(g))
        return s.to_smt2()

    def to_json(self):
        return {
            "id": self.oid,
            "function": self.function,
            "path_class": self.path_class,
            "clause": self.clause,
            "status": self.status,
            "backend": self.backend,
            "time_s": round(self.time_s, 4),
            "note": self.note,
            "kind": self.kind,
        }


class Path:
    """The outcome of one explored path."""

    def __init__(self):
        self.pc = []  # z3 Bool terms (branch decisions)
        self.assumptions = []  # z3 Bool terms (preconditions, callee postconditions, axioms)
        self.effects = []  # (kind, data) events in program order
        self.result = None  # return value
        self.exc = None  # PyExc for exceptional exit
        self.decisions = []
        self.call_obligations = []  # (name, hyps-snapshot, goal) required at call sites / asserts
        self.tags = {}
        self.unsupported = None
        self.ghost = {}

    @property
    def hyps(self):
        return self.pc + self.assumptions


class Explorer:
    """Decision-replay path exploration.  `body(explorer)` runs the code under analysis once per
    path; symbolic branches call `branch`."""

    def __init__(self, max_paths=4000, branch_timeout_ms=2000):
        self.max_paths = max_paths
        self.branch_timeout_ms = branch_timeout_ms
        self.path = None
        self._decisions = []
        self._pos = 0
        self._pending = []
        self.n_paths = 0

    # -- API for executed code -------------------------------------------------------------
    def assume(self, c):
        c = as_bool_term(c)
        self.path.assumptions.append(c)

    def effect(self, kind, **data):
        self.path.effects.append((kind, data))

    def require(self, name, goal, kind="call-pre"):
        """An obligation generated in the middle of a path (callee precondition, assert)."""
        self.path.call_obligations.append((name, list(self.path.hyps), as_bool_term(goal), kind))

    def require_nonzero(self, b):
        # division by a symbolic value: recorded, checked as an obligation of kind 'safety'
        self.path.call_obligations.append(("division-by-nonzero", list(self.path.hyps), b != 0, "safety"))
        self.path.assumptions.append(b != 0)

    def feasible(self, extra):
        """is the path condition plus `extra` satisfiable?  Decided on the LINEAR part of the hypotheses only (nonlinear
        atoms are dropped: a sound over-approximation of feasibility -- an infeasible path that slips through only yields
        obligations with contradictory hypotheses, which are vacuously discharged)."""
        hyps = [h for h in self.path.hyps if is_linear(h)] + list(extra)
        r, _ = check_sat(hyps, timeout_ms=self.branch_timeout_ms, use_cvc5=False)
        return r != "unsat"

    def concrete_int(self, t):
        t = z3.simplify(t)
        if z3.is_int_value(t):
            return t.as_long()
        return None

    def determined_int(self, t):
        """the value of an integer term if the path condition DETERMINES it (a model gives a candidate, a second query shows that no other
        value is possible); None otherwise.  Used where the code indexes a constant table with an expression such as n % 4."""
        v = self.concrete_int(t)
        if v is not None:
            return v
        hyps = list(self.path.hyps)
        r, m = check_sat(hyps, timeout_ms=self.branch_timeout_ms, want_model=True, use_cvc5=False)
        if r != "sat" or m is None:
            return None
        try:
            cand = m.eval(t, model_completion=True)
        except Exception:
            return None
        if not z3.is_int_value(cand):
            return None
        r2, _ = check_sat(hyps + [t != cand], timeout_ms=self.branch_timeout_ms, use_cvc5=False)
        return cand.as_long() if r2 == "unsat" else None

    def branch(self, c):
        c = z3.simplify(c)
        if z3.is_true(c):
            return True
        if z3.is_false(c):
            return False
        if self._pos < len(self._decisions):
            d = self._decisions[self._pos]
            self._pos += 1
            self.path.pc.append(c if d else z3.Not(c))
            self.path.decisions.append(d)
            return d
        can_t = self.feasible([c])
        can_f = self.feasible([z3.Not(c)])
        if not can_t and not can_f:
            raise Infeasible()
        if can_t and can_f:
            self._pending.append(self._decisions[: self._pos] + [False])
            d = True
        else:
            d = can_t
        self._decisions = self._decisions[: self._pos] + [d]
        self._pos += 1
        self.path.pc.append(c if d else z3.Not(c))
        self.path.decisions.append(d)
        return d

    # -- driver ----------------------------------------------------------------------------
    def explore(self, body):
        paths = []
        self._pending = [[]]
        while self._pending:
            if self.n_paths >= self.max_paths:
                raise PathLimit(f"more than {self.max_paths} paths")
            self._decisions = self._pending.pop()
            self._pos = 0
            self.path = Path()
            reset_fresh()
            _CURRENT.append(self)
            try:
                body(self)
            except Infeasible:
                # the path turned out not to exist (e.g. a loop invariant that is false contradicts the state it is assumed in).  Obligations that
                # were stated BEFORE that point carry their own snapshot of the hypotheses and remain meaningful -- in particular the entry
                # obligations of the very invariant whose assumption made the path vanish -- so they are kept and decided like any other
                if self.path.call_obligations:
                    self.path.tags["ended-infeasible"] = True
                    paths.append(self.path)
                continue
            except PathEnd:
                pass
            except Unsupported as e:
                self.path.unsupported = str(e)
            finally:
                _CURRENT.pop()
            self.n_paths += 1
            paths.append(self.path)
        return paths
