"""NumPy model over traced arrays (mdvc.tarr.TArr) -- assumed contracts, part of the trusted base."""
from __future__ import annotations

import z3

from . import core, models
from .core import SBool, SInt, SNum, Unsupported
from .models import FrameSel, EmptyArr, trusted
from .pyinterp import OpaqueModule
from .tarr import TArr, TCond, fresh_buf

trusted(
    "numpy.array-model",
    "basic indexing (int, slice, None) returns a view of the same buffer; index arrays/masks, copy(), np.array(copy=True), "
    "concatenate/hstack/vstack/dstack and arithmetic return fresh buffers; np.asarray/np.ascontiguousarray return their argument "
    "itself when dtype and layout already match; values are tracked as terms: base field, index path, unit factor",
)


def _dt(x):
    if isinstance(x, tuple) and x and x[0] == "dtype":
        return x[1]
    return {float: "float64", int: "int64", bool: "bool"}.get(x, x)


class NumpyT(models.NumpyModel):
    def np_ascontiguousarray(self, interp, a, dtype=None, **k):
        if isinstance(a, TArr):
            if dtype is None or _dt(dtype) == a.dtype:
                return a
            return a.derive(buf=fresh_buf(), dtype=_dt(dtype))
        if isinstance(a, FrameSel):
            return a
        raise Unsupported("np.ascontiguousarray")

    np_asarray = np_ascontiguousarray

    def np_array(self, interp, x, dtype=None, copy=True, **k):
        if isinstance(x, list) and len(x) == 1 and isinstance(x[0], TArr) and x[0].shape == ():
            e = x[0]
            return e.derive(idx=e.idx + ((("new",),),), shape=(1,), buf=fresh_buf())
        if isinstance(x, TArr):
            return x.derive(buf=fresh_buf(), dtype=_dt(dtype) if dtype is not None else x.dtype)
        if isinstance(x, list) and len(x) == 1 and isinstance(x[0], TArr):
            e = x[0]
            return TArr(("stack1", e.nf()), shape=(1,) + tuple(e.shape or ()), dtype=e.dtype)
        return super().np_array(interp, x)

    def np_any(self, interp, x, *a, **k):
        if isinstance(x, TCond):
            return x.np_any(interp)
        if isinstance(x, (bool, SBool)):
            return x
        raise Unsupported("np.any")

    def np_all(self, interp, x, *a, **k):
        if isinstance(x, TCond):
            return x.np_all(interp)
        return super().np_all(interp, x)

    def np_abs(self, interp, x):
        if isinstance(x, TArr):
            return TArr(("abs", x.nf()), shape=x.shape)
        return abs(x)

    def np_ones_like(self, interp, x, **k):
        return TArr(("ones_like", x.nf()), shape=x.shape, dtype=x.dtype)

    def np_arange(self, interp, n, *a, **k):
        return TArr(("arange", str(core.term(n)) if core.is_sym(n) else n), shape=(n,), dtype="int64")

    def np_swapaxes(self, interp, x, a, b):
        sh = list(x.shape)
        sh[a], sh[b] = sh[b], sh[a]
        return TArr(("swapaxes", x.nf(), a, b), shape=sh)

    def _stack(self, name, xs, axis_shape):
        xs = list(xs)
        return TArr((name,) + tuple(x.nf() for x in xs), shape=axis_shape(xs))

    def np_dstack(self, interp, xs):
        return self._stack("dstack", xs, lambda v: tuple(v[0].shape) + (len(v),))

    def np_vstack(self, interp, xs):
        return self._stack("vstack", xs, lambda v: (len(v),) + tuple(v[0].shape))

    def np_hstack(self, interp, xs):
        xs = list(xs)
        sh = list(xs[0].shape)
        if len(sh) > 1:
            tot = xs[0].shape[1]
            for x in xs[1:]:
                tot = tot + x.shape[1]
            sh[1] = tot
        return TArr(("hstack",) + tuple(x.nf() for x in xs), shape=sh)

    def np_concatenate(self, interp, xs, axis=0, **k):
        xs = list(xs)
        sh = list(xs[0].shape)
        tot = xs[0].shape[axis]
        for x in xs[1:]:
            tot = tot + x.shape[axis]
        sh[axis] = tot
        return TArr(("concat", axis) + tuple(x.nf() for x in xs), shape=sh, dtype=xs[0].dtype)

    def np_isscalar(self, interp, x):
        if isinstance(x, TArr):
            return x.shape == ()  # indexing a 1-d array with an int gives a numpy scalar
        return isinstance(x, (int, float, SNum))

    def np_atleast_1d(self, interp, x):
        if isinstance(x, TArr) and x.shape == ():
            return x.derive(idx=x.idx + ((("new",),),), shape=(1,))
        return x

    def _derived(self, name):
        def f(interp, *a, **k):
            from .tarr import _tok
            return TArr((name, _tok(a), _tok(tuple(sorted(k.items())))), shape=None)
        return f

    def sym_getattr(self, interp, name):
        if name in ("mean", "einsum", "sum", "sqrt", "dot", "cross", "linalg"):
            f = self._derived(name)
            return lambda *a, **k: f(interp, *a, **k)
        return super().sym_getattr(interp, name)

    def np_may_share_memory(self, interp, a, b):
        return a.buf == b.buf

    def np_ones(self, interp, shape, *a, **k):
        return TArr(("ones",), shape=shape if isinstance(shape, tuple) else (shape,))

    def np_zeros(self, interp, shape, *a, **k):
        return TArr(("zeros",), shape=shape if isinstance(shape, tuple) else (shape,))
