"""Traced arrays: a small term algebra for array *plumbing* obligations.

A TArr is  scale * base[idx1][idx2]...  where `base` names a source field (or a derived field such
as box vectors built from lengths and angles) -- kept in normal form, so two TArrs denote the same
array value iff their normal forms are equal.  Buffer identity (`buf`) is tracked separately:
indexing with an int / slice gives a view of the same buffer, everything else a fresh buffer.
This is a decision procedure for the fragment used by the save_* / read_as_traj / slice plumbing
(no arithmetic on elements except multiplication by a unit factor).
"""
from __future__ import annotations

import itertools

import z3

from . import core
from .core import SBool, SInt, Unsupported

_buf = itertools.count(1)


def fresh_buf():
    return ("buf", next(_buf))


class TArr:
    is_ndarray = True

    def __init__(self, base, idx=(), scale=1.0, shape=None, buf=None, writable=True, dtype="float32"):
        self.base = base  # hashable: name or tuple for derived fields
        self.idx = tuple(idx)
        self.scale = float(scale)
        self.shape = tuple(shape) if shape is not None else None
        self.buf = buf if buf is not None else fresh_buf()
        self.writable = writable
        self.dtype = dtype
        self.mutations = []  # in-place edits applied to this buffer (log)

    # value normal form
    def nf(self):
        return (self.base, self.idx, round(self.scale, 12))

    def same_value(self, other):
        return isinstance(other, TArr) and self.nf() == other.nf()

    def derive(self, **kw):
        d = dict(base=self.base, idx=self.idx, scale=self.scale, shape=self.shape, buf=self.buf,
                 writable=self.writable, dtype=self.dtype)
        d.update(kw)
        t = TArr(**d)
        t.parent = self if t.buf == self.buf else None  # a view keeps the array it was taken from (numpy's .base chain)
        return t

    # numpy-like behaviour --------------------------------------------------------------
    def sym_len(self, interp):
        if not self.shape:
            raise core.PathEnd() if False else Unsupported("len() of 0-d array")
        return self.shape[0]

    def sym_getattr(self, interp, name):
        if name == "shape":
            return self.shape
        if name == "ndim":
            return len(self.shape)
        if name == "flags":
            return {"WRITEABLE": self.writable, "C_CONTIGUOUS": True}
        if name == "copy":
            return lambda *a, **k: self.derive(buf=fresh_buf())
        if name == "dtype":
            return ("dtype", self.dtype)
        if name == "T":
            return self.derive(idx=self.idx + ("T",), shape=tuple(reversed(self.shape)) if self.shape else None)
        if name == "astype":
            return lambda *a, **k: self.derive(buf=fresh_buf())
        if name == "size":
            n = 1
            for s in self.shape:
                n = n * s
            return n
        if name in ("reshape", "mean", "sum", "min", "max", "ravel", "flatten", "squeeze", "transpose"):
            # pure derived value in a fresh buffer (reshape of a contiguous array is a view: same buffer)
            def derived(*a, **k):
                shp = None
                if name == "reshape":
                    shp = tuple(a[0]) if len(a) == 1 and isinstance(a[0], (tuple, list)) else tuple(a)
                return TArr((name, self.nf(), _tok(a), _tok(tuple(sorted(k.items())))), shape=shp,
                            buf=self.buf if name in ("reshape", "ravel", "squeeze", "transpose") else None, dtype=self.dtype)
            return derived
        if name == "base":
            # numpy: the array that OWNS the memory of a view (chains are collapsed), None for an array that owns its memory.  Whether an
            # array handed in from outside owns its memory is not known: both worlds are explored (a loaded trajectory's xyz is often a view)
            root = self
            while getattr(root, "parent", None) is not None:
                root = root.parent
            owns = interp.truth(core.SBool(z3.Bool(f"array-owns-its-memory:{root.buf}")))
            if not owns:
                return ("<the foreign array that owns the memory of>", root.buf)
            return None if root is self else root
        if name == "ctypes":
            from .pyinterp import Namespace
            return Namespace("ctypes", data=self.buf)
        raise Unsupported(f"ndarray.{name}")

    def sym_iop(self, interp, op, other):
        """in-place arithmetic: the buffer's value changes (all aliases that are this object see it)"""
        self.base = ("iop", op, self.base, _tok(other))
        self.mutations.append(op)
        return self

    def sym_setitem(self, interp, k, v):
        self.base = ("setitem", self.base, _tok(k), _tok(v))
        self.mutations.append("setitem")

    def sym_getitem(self, interp, k):
        view = True
        ks = k if isinstance(k, tuple) else (k,)
        shape = list(self.shape) if self.shape is not None else None
        toks = []
        axis = 0
        for x in ks:
            if isinstance(x, (int, SInt)):
                toks.append(("i", _tok(x)))
                if shape is not None:
                    shape.pop(axis)
            elif isinstance(x, slice):
                if x == slice(None):
                    toks.append(("all",))
                else:
                    toks.append(("s", _tok(x.start), _tok(x.stop), _tok(x.step)))
                    if shape is not None:
                        shape[axis] = None
                axis += 1
            elif x is Ellipsis:
                continue
            elif x is None:
                toks.append(("new",))
                if shape is not None:
                    shape.insert(axis, 1)
                axis += 1
            else:
                # index array / mask / key token: fresh buffer (basic-slice key tokens stay views)
                toks.append(("a", _tok(x)))
                if getattr(x, "advanced", True):
                    view = False
                if shape is not None:
                    shape[axis] = len(x) if isinstance(x, (list, tuple)) else getattr(x, "length", None)
                axis += 1
        while toks and toks[-1] == ("all",):
            toks.pop()
        idx = self.idx + (tuple(toks),) if toks else self.idx
        return self.derive(idx=idx, shape=shape, buf=self.buf if view else fresh_buf())

    def scaled(self, k, inplace=False):
        if inplace and self.writable:
            self.scale *= k
            self.mutations.append(("scale", k))
            return self
        return self.derive(scale=self.scale * k, buf=fresh_buf())

    def sym_binop(self, interp, op, other, reflected):
        if op == "Mult" and isinstance(other, (int, float)):
            return self.scaled(float(other))
        if op == "Div" and isinstance(other, (int, float)) and not reflected:
            return self.scaled(1.0 / float(other))
        # integer index arithmetic (frame numbers / times of text formats):  k * arange(n) + c  as a derived field
        if op in ("Mult", "Add") and (core.is_sym(other) or isinstance(other, (int, float))) and self.scale == 1.0:
            tok = str(core.term(other)) if core.is_sym(other) else other
            return TArr(("affine", op, self.base, self.idx, tok), shape=self.shape, dtype=self.dtype)
        raise Unsupported(f"array arithmetic {op}")

    def sym_compare(self, interp, op, other, reflected):
        return TCond(("cmp", op, self.nf(), _tok(other)))

    def sym_truth(self, interp):
        raise Unsupported("truth value of an array")

    def sym_is(self, interp, other):
        return self is other

    def sym_iter(self, interp):
        n = self.shape[0]
        if not isinstance(n, int):
            raise Unsupported("iteration over an array of symbolic length")
        return [self.sym_getitem(interp, i) for i in range(n)]

    def __repr__(self):
        return f"<{self.scale}*{self.base}{list(self.idx)} buf={self.buf}>"


class TCond:
    """elementwise condition on traced arrays; np.all/np.any of it is a fresh symbolic boolean
    determined by the condition's normal form"""

    def __init__(self, key):
        self.key = key

    def np_all(self, interp):
        return SBool(z3.Bool("all:" + repr(self.key)))

    def np_any(self, interp):
        return SBool(z3.Bool("any:" + repr(self.key)))


def _tok(x):
    if x is None or isinstance(x, (int, float, str)):
        return x
    if isinstance(x, core.Sym):
        return ("sym", str(x.t))
    if isinstance(x, TArr):
        return ("arr", x.nf())
    if hasattr(x, "token"):
        return x.token
    if isinstance(x, (tuple, list)):
        return tuple(_tok(y) for y in x)
    if isinstance(x, slice):
        return ("slice", _tok(x.start), _tok(x.stop), _tok(x.step))
    if x is Ellipsis:
        return "..."
    return ("obj", type(x).__name__)


class KeyTok:
    """an opaque frame key (slice / index array / mask) used to index every per-frame field"""

    def __init__(self, name, advanced, length=None):
        self.token = ("key", name)
        self.advanced = advanced
        self.length = length
