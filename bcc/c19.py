"""C19 bounded contract check: incremental writing equals one-shot writing, ragged writes are refused, flushed
frames survive a crash.

(a) partitions   every ordered partition (composition) of n frames, n <= 4 (quick) / 5 (thorough), into consecutive
                 write() calls on every streaming writer class x every (cell, time) schema the class accepts; after
                 close(), md.load must return the same frames / times / cells as the one-shot file (partition [n]).
                 HDF5 additionally in append mode: every part in its own HDF5TrajectoryFile(path, 'a') session.
                 Per-call re-derived data is not claimed: xtc/trr `time=None` (documented default 0..n-1 per call) is
                 compared only when time is supplied; lammpstrj TIMESTEP is not read back by the loader.
(b) refusal      after one accepted write of k frames (k in {1,2}), a write with another atom count, or one that
                 adds / drops the cell or the time, must raise, and after close() the file must load with exactly the
                 k accepted frames.  Not a ragged write by FORMAT (so not claimed): xtc/trr time=None (every XTC/TRR
                 frame carries a time; documented default), pdb cell in later models (one CRYST1 per file), writers
                 that have no cell/time parameter.
(c) crash        a child process (/venv/bin/python) writes k batches (k <= 2 quick / 3 thorough), calls flush() where
                 the class offers one, and dies by os._exit(1) or SIGKILL before close(); the parent loads the file.
                 Contract (h5 'w', h5 'a', nc, dcd, xtc): once write + flush returned, exactly the frames written so
                 far load.  Crash positions: `after-flush` (flush after every write) and `before-close` (k writes, one
                 final flush) are contractual; `after-write` (last write not flushed) is recorded as an observation.
"""
from __future__ import annotations

import concurrent.futures as cf
import json
import os
import subprocess
import sys

import numpy as np

import mdtraj as md
from bcc.api import Check
from bcc.fixtures import Scratch, make_traj

CLASSNAME = {"h5": "HDF5TrajectoryFile", "nc": "NetCDFTrajectoryFile", "dcd": "DCDTrajectoryFile", "xtc": "XTCTrajectoryFile",
             "trr": "TRRTrajectoryFile", "mdcrd": "MDCRDTrajectoryFile", "xyz": "XYZTrajectoryFile", "lammpstrj": "LAMMPSTrajectoryFile",
             "gro": "GroTrajectoryFile", "pdb": "PDBTrajectoryFile", "dtr": "DTRTrajectoryFile"}
FORMATS = list(CLASSNAME)
# (cell, time) schemas the writer's write() can express.  time None = write() has no time parameter.
SCHEMAS = {
    "h5": [(True, True), (False, True), (True, False), (False, False)],
    "nc": [(True, True), (False, True), (True, False), (False, False)],
    "dcd": [(True, None), (False, None)],
    "xtc": [(True, True), (False, True), (True, False), (False, False)],
    "trr": [(True, True), (False, True), (True, False), (False, False)],
    "mdcrd": [(True, None), (False, None)],
    "xyz": [(None, None)],
    "lammpstrj": [(True, None)],
    "gro": [(True, True), (False, True), (True, False), (False, False)],
    "pdb": [(True, None), (False, None)],
    "dtr": [(True, True)],
}
# which ragged second writes are ragged BY FORMAT for which class (see module docstring)
RAGGED = {
    "h5": ["atom-count", "drop-cell", "add-cell", "drop-time", "add-time"],
    "nc": ["atom-count", "drop-cell", "add-cell", "drop-time", "add-time"],
    "dcd": ["atom-count", "drop-cell", "add-cell"],
    "xtc": ["atom-count", "drop-cell", "add-cell"],
    "trr": ["atom-count", "drop-cell", "add-cell"],
    "mdcrd": ["atom-count", "drop-cell", "add-cell"],
    "xyz": ["atom-count"],
    "lammpstrj": ["atom-count"],
    "gro": ["atom-count", "drop-time", "add-time", "drop-cell", "add-cell"],
    "pdb": ["atom-count"],
    "dtr": ["atom-count"],
}
CRASH_TARGETS = [("h5", "w"), ("h5", "a"), ("nc", "w"), ("dcd", "w"), ("xtc", "w")]
N_ATOMS = 4


def compositions(n):
    if n == 0:
        yield []
        return
    for first in range(1, n + 1):
        for rest in compositions(n - first):
            yield [first] + rest


def open_writer(fmt, path, mode="w"):
    F = md.formats
    if fmt == "h5":
        return F.HDF5TrajectoryFile(path, mode)
    cls = {"nc": F.NetCDFTrajectoryFile, "dcd": F.DCDTrajectoryFile, "xtc": F.XTCTrajectoryFile, "trr": F.TRRTrajectoryFile,
           "xyz": F.XYZTrajectoryFile, "lammpstrj": F.LAMMPSTrajectoryFile, "gro": F.GroTrajectoryFile, "pdb": F.PDBTrajectoryFile,
           "dtr": F.DTRTrajectoryFile}.get(fmt)
    if fmt == "mdcrd":
        return F.MDCRDTrajectoryFile(path, mode="w")
    return cls(path, "w")


def write_batch(fmt, f, t, start, stop, cell, time):
    """one write() call with frames [start, stop) of t in the writer's native units"""
    x = t.xyz[start:stop]
    tm = t.time[start:stop] if time else None
    L = t.unitcell_lengths[start:stop] if cell else None
    A = t.unitcell_angles[start:stop] if cell else None
    V = t.unitcell_vectors[start:stop] if cell else None
    if fmt == "h5":
        f.write(x, time=tm, cell_lengths=L, cell_angles=A)
    elif fmt == "nc":
        f.write(x * 10, time=tm, cell_lengths=None if L is None else L * 10, cell_angles=A)
    elif fmt == "dcd":
        f.write(x * 10, cell_lengths=None if L is None else L * 10, cell_angles=A)
    elif fmt in ("xtc", "trr"):
        f.write(x, time=tm, box=V)
    elif fmt == "mdcrd":
        f.write(x * 10, None if L is None else L * 10)
    elif fmt == "xyz":
        f.write(x * 10)
    elif fmt == "lammpstrj":
        f.write(x * 10, L * 10, A)
    elif fmt == "gro":
        f.write(x, t.topology, tm, V)
    elif fmt == "pdb":
        for i in range(start, stop):  # the PDB writer takes one model per call
            f.write(t.xyz[i] * 10, t.topology, modelIndex=i, unitcell_lengths=None if L is None else t.unitcell_lengths[i] * 10,
                    unitcell_angles=None if A is None else t.unitcell_angles[i])
    elif fmt == "dtr":
        f.write(x * 10, cell_lengths=L * 10, cell_angles=A, times=tm)
    else:
        raise KeyError(fmt)


def load(fmt, path, top):
    if fmt in ("h5", "gro", "pdb"):
        return md.load(path)
    return md.load(path, top=top)


def fields(r):
    return {"n_frames": r.n_frames, "xyz": np.array(r.xyz), "time": np.array(r.time),
            "L": None if r.unitcell_lengths is None else np.array(r.unitcell_lengths),
            "A": None if r.unitcell_angles is None else np.array(r.unitcell_angles)}


def same(a, b, compare_time=True, n=None):
    """first differing field between two loaded results (b possibly cut to its first n frames), or None"""
    def cut(v):
        return v if (n is None or v is None) else v[:n]
    if a["n_frames"] != (b["n_frames"] if n is None else min(n, b["n_frames"])) or (n is not None and b["n_frames"] < n):
        return "n_frames"
    if not np.array_equal(a["xyz"], cut(b["xyz"])):
        return "xyz"
    if compare_time and not np.array_equal(a["time"], cut(b["time"]), equal_nan=True):
        return "time"
    for k in ("L", "A"):
        if (a[k] is None) != (b[k] is None):
            return "cell"
        if a[k] is not None and not np.array_equal(a[k], cut(b[k]), equal_nan=True):
            return "cell"
    return None


def write_partition(fmt, path, t, parts, cell, time, mode="w"):
    pos = 0
    if mode == "a":  # every part in its own append session
        for p in parts:
            f = open_writer(fmt, path, "a")
            try:
                write_batch(fmt, f, t, pos, pos + p, cell, time)
            finally:
                f.close()
            pos += p
        return
    f = open_writer(fmt, path, "w")
    try:
        for p in parts:
            write_batch(fmt, f, t, pos, pos + p, cell, time)
            pos += p
    finally:
        f.close()


def _ext(fmt):
    return fmt


# ------------------------------------------------------------------------------------------------------------------
# (a) partitions
# ------------------------------------------------------------------------------------------------------------------
def check_partitions(chk, tier, seed):
    nmax = 4 if tier == "quick" else 5
    atoms = [N_ATOMS] if tier == "quick" else [N_ATOMS, 11]
    failed = set()
    with Scratch("c19a") as d:
        for fmt in FORMATS:
            for mode in (["w", "a"] if fmt == "h5" else ["w"]):
                for cell, time in SCHEMAS[fmt]:
                    for na in atoms:
                        for n in list(range(1, nmax + 1)) + ([] if tier == "quick" or na != N_ATOMS else [8, 13]):
                            t = make_traj(n_frames=n, n_atoms=na, cell="ortho", seed=seed)
                            ref_path = os.path.join(d, f"ref.{_ext(fmt)}")
                            _rm(ref_path)
                            inp0 = {"what": "partition", "format": fmt, "mode": mode, "cell": cell, "time": time, "n": n, "n_atoms": na, "seed": seed}
                            try:
                                write_partition(fmt, ref_path, t, [n], cell, time, "w")
                                ref = fields(load(fmt, ref_path, t.topology))
                            except Exception as e:
                                chk.observe(f"one-shot write/load raises {type(e).__name__} [{CLASSNAME[fmt]}; cell={cell}; time={time}]",
                                            {**inp0, "error": f"{type(e).__name__}: {str(e)[:160]}"})
                                continue
                            if ref["n_frames"] != n:
                                chk.observe(f"one-shot file does not load with n frames [{CLASSNAME[fmt]}; cell={cell}; time={time}]", {**inp0, "loaded": ref["n_frames"]})
                                continue
                            for parts in _parts_for(n, nmax, seed):
                                if len(parts) == 1 and mode == "w":
                                    continue
                                inp = {**inp0, "parts": parts}
                                wc = f"{CLASSNAME[fmt]}" + (":append-mode" if mode == "a" else "")
                                if (wc, cell, time) in failed:
                                    continue
                                path = os.path.join(d, f"p.{_ext(fmt)}")
                                _rm(path)
                                try:
                                    write_partition(fmt, path, t, parts, cell, time, mode)
                                    got = fields(load(fmt, path, t.topology))
                                except Exception as e:
                                    failed.add((wc, cell, time))
                                    chk.fail("partition-raises", wc, f"{fmt}: writing {n} frames as {parts} (cell={cell}, time={time}, mode={mode}) then loading raised "
                                                                   f"{type(e).__name__}: {str(e)[:120]} although the one-shot file is fine", inp)
                                    continue
                                compare_time = not (fmt in ("xtc", "trr") and not time)
                                diff = same(ref, got, compare_time)
                                if diff:
                                    failed.add((wc, cell, time))
                                    chk.fail(f"partition-{diff}", wc, f"{fmt}: {n} frames written as {parts} (cell={cell}, time={time}, mode={mode}) load with different {diff} "
                                                                      "than the one-shot file", inp,
                                             observed={"n_frames": got["n_frames"], "time": got["time"], "frame_ids": _ids(got)},
                                             expected={"n_frames": ref["n_frames"], "time": ref["time"], "frame_ids": _ids(ref)})
                                else:
                                    chk.ok(nontrivial=(fmt, mode, cell, time, na, tuple(parts)) if len(parts) > 1 else None, sample=inp)


def _parts_for(n, nmax, seed):
    """every composition up to the bound; beyond it 6 seeded random compositions"""
    if n <= nmax:
        return list(compositions(n))
    rng = np.random.RandomState(seed * 1000 + n)
    out = []
    for _ in range(6):
        cuts = sorted(set(rng.randint(1, n, size=rng.randint(1, n)).tolist()))
        out.append([b - a for a, b in zip([0] + cuts, cuts + [n])])
    return out


def _ids(f):
    """frame identity: make_traj puts index + 0.5 nm into x of atom 0"""
    return [int(round(float(v) - 0.5)) for v in f["xyz"][:, 0, 0]]


def _rm(path):
    import shutil

    if os.path.isdir(path):
        shutil.rmtree(path)
    elif os.path.exists(path):
        os.unlink(path)


# ------------------------------------------------------------------------------------------------------------------
# (b) refusal
# ------------------------------------------------------------------------------------------------------------------
def _schemas_for(kind, fmt):
    """(first schema, second schema, change atom count) for a ragged kind"""
    has_time = any(s[1] is not None for s in SCHEMAS[fmt])
    T = True if has_time else None
    has_cell = any(s[0] is not None for s in SCHEMAS[fmt])
    C = True if has_cell else None
    if kind == "atom-count":
        return [((c, tm), (c, tm), True) for c, tm in SCHEMAS[fmt]]
    if kind == "drop-cell":
        return [((True, T), (False, T), False)]
    if kind == "add-cell":
        return [((False, T), (True, T), False)]
    if kind == "drop-time":
        return [((C, True), (C, False), False)] + ([((False, True), (False, False), False)] if (False, True) in SCHEMAS[fmt] else [])
    if kind == "add-time":
        return [((C, False), (C, True), False)] + ([((False, False), (False, True), False)] if (False, False) in SCHEMAS[fmt] else [])
    raise KeyError(kind)


def refusal_case(fmt, mode, kind, first, second, other_atoms, k, seed, d):
    """returns (status, detail): status in ok | accepted | left-data | first-error"""
    t = make_traj(n_frames=k + 1, n_atoms=N_ATOMS, cell="ortho", seed=seed)
    t2 = make_traj(n_frames=k + 1, n_atoms=N_ATOMS + 1, cell="ortho", seed=seed)
    path = os.path.join(d, f"r.{_ext(fmt)}")
    ref_path = os.path.join(d, f"rref.{_ext(fmt)}")
    _rm(path)
    _rm(ref_path)
    try:
        write_partition(fmt, ref_path, t, [k], first[0], first[1], "w")
        ref = fields(load(fmt, ref_path, t.topology))
    except Exception as e:
        return "first-error", f"{type(e).__name__}: {e}"
    if mode == "a":  # first session accepted and closed; the ragged write comes in an append session
        write_partition(fmt, path, t, [k], first[0], first[1], "a")
        f = open_writer(fmt, path, "a")
    else:
        f = open_writer(fmt, path, "w")
        write_batch(fmt, f, t, 0, k, first[0], first[1])
    raised = None
    again = False
    try:
        write_batch(fmt, f, t2 if other_atoms else t, k, k + 1, second[0], second[1])
    except Exception as e:
        raised = e
        # a refusal must not change what the file is: the same ragged write, tried once more, has to be refused again
        try:
            write_batch(fmt, f, t2 if other_atoms else t, k, k + 1, second[0], second[1])
            again, raised = True, None
        except Exception:
            pass
    finally:
        try:
            f.close()
        except Exception:
            pass
    if raised is None:
        try:
            got = fields(load(fmt, path, t.topology))
            after = {"loads": True, "n_frames": got["n_frames"], "time": got["time"], "cell": None if got["L"] is None else got["L"]}
        except Exception as e:
            after = {"loads": False, "error": f"{type(e).__name__}: {str(e)[:120]}"}
        if again:
            after["accepted_only_when_repeated_after_a_refusal"] = True
        return "accepted", after
    try:
        got = fields(load(fmt, path, t.topology))
    except Exception as e:
        return "left-data", {"raised": type(raised).__name__, "reload": f"{type(e).__name__}: {str(e)[:160]}"}
    compare_time = not (fmt in ("xtc", "trr") and not first[1])
    diff = same(ref, got, compare_time)
    if diff:
        return "left-data", {"raised": type(raised).__name__, "differs": diff, "n_frames": got["n_frames"], "expected_n_frames": k, "time": got["time"]}
    return "ok", None


def check_refusal(chk, tier, seed):
    with Scratch("c19b") as d:
        for fmt in FORMATS:
            for mode in (["w", "a"] if fmt == "h5" else ["w"]):
                for kind in RAGGED[fmt]:
                    field = "atom-count" if kind == "atom-count" else "add-or-drop-field"
                    for first, second, other in _schemas_for(kind, fmt):
                        for k in (1, 2):
                            inp = {"what": "refusal", "format": fmt, "mode": mode, "kind": kind, "first": list(first), "second": list(second),
                                   "other_atoms": other, "k": k, "seed": seed}
                            status, detail = refusal_case(fmt, mode, kind, first, second, other, k, seed, d)
                            wc = f"{CLASSNAME[fmt]}:{field}"
                            if status == "first-error":
                                chk.observe(f"first (accepted) write raises [{CLASSNAME[fmt]}; {first}]", {**inp, "error": detail})
                            elif status == "accepted":
                                if isinstance(detail, dict) and detail.get("accepted_only_when_repeated_after_a_refusal"):
                                    wc += ":second-attempt-after-a-refusal"
                                chk.fail("ragged-write-accepted", wc,
                                         f"{fmt}: after {k} accepted frame(s) with (cell,time)={first}, a write with {kind} was accepted without error "
                                         f"(mode={mode}); reload afterwards: {detail}", inp, observed=detail, expected="an exception")
                            elif status == "left-data":
                                chk.fail("refused-write-left-data", wc,
                                         f"{fmt}: the write with {kind} raised, but after close() the file does not load with exactly the {k} accepted frame(s) "
                                         f"(mode={mode}): {detail}", inp, observed=detail, expected={"n_frames": k},
                                         explains=[f"C19/{CLASSNAME[fmt]}.write/refused/frames-unchanged"])
                            else:
                                chk.ok(nontrivial=(fmt, mode, kind, first, k), sample=inp)


# ------------------------------------------------------------------------------------------------------------------
# (c) crash
# ------------------------------------------------------------------------------------------------------------------
CHILD = r'''
import json, os, signal, sys, warnings
warnings.simplefilter("ignore")
a = json.loads(sys.argv[1])
for p in reversed(a["syspath"]):
    sys.path.insert(0, p)
import mdtraj as md
from bcc import c19
from bcc.fixtures import make_traj
t = make_traj(n_frames=a["total"], n_atoms=c19.N_ATOMS, cell="ortho", seed=a["seed"])
f = c19.open_writer(a["format"], a["path"], a["mode"])
pos = a["start"]
batches, position = a["batches"], a["position"]
for i, n in enumerate(batches):
    c19.write_batch(a["format"], f, t, pos, pos + n, True, True)
    pos += n
    last = i == len(batches) - 1
    if (position == "after-flush" or (position == "after-write" and not last)) and hasattr(f, "flush"):
        f.flush()  # "where offered"
if position == "before-close" and hasattr(f, "flush"):
    f.flush()
sys.stdout.write("WRITTEN %d\n" % pos)
sys.stdout.flush()
if a["kill"] == "SIGKILL":
    os.kill(os.getpid(), signal.SIGKILL)
os._exit(1)
'''


def _syspath():
    root = os.path.dirname(os.path.dirname(os.path.abspath(md.__file__)))
    verif = os.path.dirname(os.path.dirname(os.path.abspath(__file__)))
    return [root, verif]


import threading  # noqa: E402

_IO_LOCK = threading.Lock()


def crash_case(fmt, mode, batches, position, kill, seed, d, tag):
    """returns dict(status=..., ...)   status: ok | lost | no-flush | child-error"""
    path = os.path.join(d, f"c{tag}.{_ext(fmt)}")
    _rm(path)
    k0 = 2 if mode == "a" else 0
    total = k0 + sum(batches)
    t = make_traj(n_frames=total, n_atoms=N_ATOMS, cell="ortho", seed=seed)
    if mode == "a":  # a cleanly closed file with k0 frames to append to
        with _IO_LOCK:
            write_partition(fmt, path, t, [k0], True, True, "w")
    cls = getattr(md.formats, CLASSNAME[fmt])
    has_flush = hasattr(cls, "flush")
    if not has_flush and position != "after-write":
        return {"status": "no-flush"}
    args = {"format": fmt, "path": path, "mode": mode, "batches": batches, "position": position, "kill": kill, "seed": seed,
            "start": k0, "total": total, "syspath": _syspath()}
    env = dict(os.environ)
    env["PYTHONWARNINGS"] = "ignore"
    p = subprocess.run([sys.executable, "-c", CHILD, json.dumps(args)], capture_output=True, text=True, env=env, timeout=120)
    if "WRITTEN %d" % total not in p.stdout:
        return {"status": "child-error", "stderr": p.stderr[-600:], "stdout": p.stdout[-200:], "rc": p.returncode}
    # reference: the same frames written and closed cleanly
    ref_path = os.path.join(d, f"cref{tag}.{_ext(fmt)}")
    _rm(ref_path)
    # netCDF4 / HDF5 are not thread-safe: all parent-side file I/O is serialised, only the children run concurrently
    with _IO_LOCK:
        write_partition(fmt, ref_path, t, [total], True, True, "w")
        ref = fields(load(fmt, ref_path, t.topology))
        try:
            got = fields(load(fmt, path, t.topology))
            err = None
        except Exception as e:
            err = e
    try:
        if err is not None:
            raise err
    except Exception as e:
        return {"status": "lost", "reload": f"{type(e).__name__}: {str(e)[:160]}", "expected_n_frames": total, "size": os.path.getsize(path) if os.path.isfile(path) else None}
    diff = same(ref, got)
    if diff:
        return {"status": "lost", "differs": diff, "n_frames": got["n_frames"], "expected_n_frames": total, "frame_ids": _ids(got)}
    return {"status": "ok"}


def check_crash(chk, tier, seed):
    kmax = 2 if tier == "quick" else 3
    kills = ["os._exit", "SIGKILL"]
    jobs = []
    for fmt, mode in CRASH_TARGETS:
        for k in range(1, kmax + 1):
            batch_sets = [[2] * k] if tier == "quick" else [[2] * k, [1, 3, 2][:k]]
            for batches in batch_sets:
                for position in ("after-flush", "before-close", "after-write"):
                    for kill in kills:
                        jobs.append((fmt, mode, batches, position, kill))
    with Scratch("c19c") as d:
        def run(i_job):
            i, (fmt, mode, batches, position, kill) = i_job
            res = None
            for attempt in range(3):
                # a child that could not even finish WRITING (harness trouble: the HDF5 library failing to open its file under load was
                # seen once in ~40 full runs) is repeated with a fresh file; a property verdict (ok / lost / no-flush) is never retried
                try:
                    res = crash_case(fmt, mode, batches, position, kill, seed, d, f"{i}_{attempt}")
                except Exception as e:
                    res = {"status": "child-error", "stderr": f"{type(e).__name__}: {e}"}
                if res["status"] != "child-error":
                    break
            return res

        with cf.ThreadPoolExecutor(max_workers=8) as tp:
            results = list(tp.map(run, enumerate(jobs)))
    for (fmt, mode, batches, position, kill), res in zip(jobs, results):
        inp = {"what": "crash", "format": fmt, "mode": mode, "batches": batches, "position": position, "kill": kill, "seed": seed}
        wc = CLASSNAME[fmt] + (":append-mode" if mode == "a" else "")
        st = res["status"]
        if st == "no-flush":
            chk.fail("flush-offered", f"{CLASSNAME[fmt]}:no-flush-method",
                     f"{fmt}: {CLASSNAME[fmt]} has no flush() method, so 'write followed by flush' cannot be expressed for this live-output format",
                     inp, observed="no attribute flush", expected="flush()")
        elif st == "child-error":
            raise RuntimeError(f"C19 crash child failed for {inp}: {res}")
        elif position == "after-write":
            chk.evaluations += 1
            chk.observe(f"kill after an unflushed last write: {'all frames load' if st == 'ok' else 'frames lost / file unreadable'} [{wc}; {kill}]", {**inp, **res})
        elif st == "lost":
            chk.fail("flush-durability", wc, f"{fmt}: child wrote {batches} frames, position {position}, killed by {kill} after flush() returned; parent load: {res}",
                     inp, observed=res, expected={"n_frames": res.get("expected_n_frames")})
        else:
            chk.ok(nontrivial=(fmt, mode, tuple(batches), position, kill), sample=inp)


# ------------------------------------------------------------------------------------------------------------------
class ObsCheck(Check):
    def __init__(self, *a, **k):
        super().__init__(*a, **k)
        self.observations = {}

    def observe(self, key, detail):
        o = self.observations.setdefault(key, {"count": 0, "first": _plain(detail)})
        o["count"] += 1

    def result(self):
        r = super().result()
        r["observations"] = [{"what": k, **v} for k, v in sorted(self.observations.items())]
        return r


def _plain(x):
    from bcc.api import _j

    if isinstance(x, dict):
        return {k: _plain(v) for k, v in x.items()}
    if isinstance(x, (list, tuple)):
        return [_plain(v) for v in x]
    return _j(x)


def _mk(tier):
    nmax = 4 if tier == "quick" else 5
    kmax = 2 if tier == "quick" else 3
    a = ObsCheck("partitions", "write()/close() of " + ", ".join(CLASSNAME.values()) + " (+ HDF5 mode 'a'); md.load",
                 bound=f"every composition of n frames, n <= {nmax}{'' if tier == 'quick' else ' (+ 6 seeded random compositions of n = 8 and n = 13)'}, into consecutive write() calls x 11 writer classes (+ HDF5 append sessions) x every (cell,time) schema "
                       f"the class accepts x atoms in {[N_ATOMS] if tier == 'quick' else [N_ATOMS, 11]}; per-frame varying orthorhombic cell, non-uniform times",
                 rule="exhaustive; oracle = md.load of the one-shot file [n]; arrays compared exactly; non-trivial = at least two write calls",
                 stands_in_for="writer invariant Rep(W) of the pyx writers (xtc, trr, dcd, dtr) and of PyTables / netCDF4 append", exhaustive=True)
    b = ObsCheck("refusal", "write() after an accepted write with a different schema",
                 bound="11 writer classes (+ HDF5 mode 'a') x ragged kinds {atom-count, drop-cell, add-cell, drop-time, add-time} that are ragged by FORMAT for the class "
                       "x accepted prefix k in {1,2} x every first schema",
                 rule="exhaustive; must raise, and after close() md.load returns exactly the k accepted frames (oracle: a clean file with those k frames)",
                 stands_in_for="exceptional postcondition frames' = frames of write()", exhaustive=True)
    c = ObsCheck("crash", "write()+flush() in a child process killed before close(); md.load in the parent",
                 bound=f"targets {CRASH_TARGETS} x k <= {kmax} batches x positions {{after-flush, before-close (contractual), after-write (observation)}} x kill in {{os._exit(1), SIGKILL}}",
                 rule="exhaustive over the stated grid; contract: frames written before a returned flush() all load; oracle = a cleanly closed file with the same frames",
                 stands_in_for="assumed third-party durability (PyTables flush, netCDF4 sync, xdr_flush, DCD header rewrite)", exhaustive=True)
    return a, b, c


def run(tier, seed, hint):
    a, b, c = _mk(tier)
    check_partitions(a, tier, seed)
    check_refusal(b, tier, seed)
    check_crash(c, tier, seed)
    return [a, b, c]


def replay(payload):
    inp = payload.get("input") or payload.get("failing_input")
    what = inp["what"]
    seed = inp.get("seed", 0)
    if what == "partition":
        fmt, n = inp["format"], inp["n"]
        with Scratch("c19r") as d:
            t = make_traj(n_frames=n, n_atoms=inp.get("n_atoms", N_ATOMS), cell="ortho", seed=seed)
            ref_path, path = os.path.join(d, "ref." + fmt), os.path.join(d, "p." + fmt)
            write_partition(fmt, ref_path, t, [n], inp["cell"], inp["time"], "w")
            ref = fields(load(fmt, ref_path, t.topology))
            try:
                write_partition(fmt, path, t, inp["parts"], inp["cell"], inp["time"], inp["mode"])
                got = fields(load(fmt, path, t.topology))
            except Exception as e:
                return {"reproduced": True, "error": f"{type(e).__name__}: {e}"}
            diff = same(ref, got, not (fmt in ("xtc", "trr") and not inp["time"]))
            return {"reproduced": bool(diff), "differs": diff}
    if what == "refusal":
        with Scratch("c19r") as d:
            status, detail = refusal_case(inp["format"], inp["mode"], inp["kind"], tuple(inp["first"]), tuple(inp["second"]), inp["other_atoms"], inp["k"], seed, d)
        return {"reproduced": status in ("accepted", "left-data"), "status": status, "detail": _plain(detail)}
    if what == "crash":
        with Scratch("c19r") as d:
            res = crash_case(inp["format"], inp["mode"], inp["batches"], inp["position"], inp["kill"], seed, d, 0)
        return {"reproduced": res["status"] in ("lost", "no-flush"), "result": _plain(res)}
    return {"reproduced": False, "error": "unknown input"}
