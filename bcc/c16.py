"""C16 bounded contract check: derived descriptors against their documented closed forms (specs/descriptors.py, float64).

TOLERANCE (stated once): mdtraj stores coordinates and most results in float32.  A result r computed from float32
data of magnitude X carries a relative error of a few 2^-23 plus an absolute error of a few ulp32(X) from
differences of coordinates.  TOL(r, X) = 1e-5*|r| + 8 * 2^-23 * X is used for every continuous quantity
(X = largest |coordinate| or cell length, times the natural unit of the quantity); index bookkeeping (residue
pairs, atom quartets, bin centres, array shapes, -1/0 fill values) is compared EXACTLY.
Special cases, derived in place: eigenvector directions (angle <= 1e-5/relative eigen-gap), DRID third moment
(compared as cubes, sensitivity 3 nu^2 delta), RDF bin counts (distances within TOL of a bin edge may fall on either
side => [lo, hi] bounds), Karplus couplings ((2|A|+|B|) * 1e-5 rad).

Recorded, not alarmed (documentation gives no / an obviously garbled formula):
  * compute_rg(masses=...): the docstring gives no formula; the check accepts mass-weighting about the centre of mass
    OR about the unweighted centre of geometry and reports which one the tree implements.
  * asphericity: the docstring's formula lacks the leading lambda_3 term; compute_gyration_tensor's lacks the 1/N.  The
    standard (Theodorou-Suter) definitions are used as the spec.
  * contacts='all' is checked as "same-chain pairs j >= i+3" (the docstring does not mention the chain restriction).
  * soft_min is only compared where beta/d_min <= 80 (float32 exp overflows beyond ~88; the docstring warns about it).
"""
import itertools
import json
import warnings

import numpy as np

from bcc.api import Check
from bcc.c08 import build_system, make_frames
from specs import descriptors as D

EPS = 2.0 ** -23
SCHEMES = ["ca", "closest", "closest-heavy", "sidechain", "sidechain-heavy"]


def tol(r, X):
    return 1e-5 * np.abs(r) + 8 * EPS * X


# ------------------------------------------------------------------------------------------------ systems
def make_system(variant, seed):
    """variant 0: three unequal chains (caps, glycines, a LEU that lost its CA, proline), 5 waters, Na+/Cl-; orthorhombic cell
    variant 1: same topology family with other sequences, triclinic cell, system straddling the cell faces
    variant 2: no unit cell at all"""
    import mdtraj as md

    if variant in (0, 2):
        chains = [(["ACE", "ALA", "GLY", "LYS", "SER", "LEU", "ASP", "GLY", "VAL", "PRO", "ALA", "NME"], "CHHHHHHHCCCC"),
                  (["SER", "CYS", "GLY", "LEU", "LYS", "ALA", "VAL"], "EEEEEEE"),
                  (["ALA", "ASP", "GLY", "ALA"], "CCCC")]
        drop = {(0, 5, "CA")}
    else:
        chains = [(["GLY", "LEU", "ASP", "ALA", "SER", "GLY", "LYS", "VAL"], "CEEEECCC"),
                  (["ACE", "PRO", "ALA", "CYS", "GLY", "ALA", "LYS", "SER", "VAL", "ALA", "NME"], "CPPHHHHHHHC")]
        drop = {(1, 4, "CA"), (0, 2, "HA")}
    top, xyz0 = build_system(chains, n_water=5, ions=("Na", "Cl"), seed=seed * 13 + variant, spacing=1.0, drop=drop)
    frames = make_frames(xyz0, 3, seed * 13 + variant, sd=0.03)
    n_frames = 3
    if variant == 0:
        L = np.array([[3.6, 3.9, 4.4], [3.7, 3.8, 4.5], [3.5, 4.0, 4.3]], dtype=np.float32)
        A = np.full((3, 3), 90.0, dtype=np.float32)
        frames = frames + np.float32(0.4)
    elif variant == 1:
        L = np.array([[3.2, 3.4, 3.6], [3.3, 3.3, 3.7], [3.1, 3.5, 3.5]], dtype=np.float32)
        A = np.array([[85.0, 95.0, 100.0], [88.0, 93.0, 97.0], [90.0, 90.0, 105.0]], dtype=np.float32)
        frames = frames - np.float32(0.6)  # the solute straddles the cell faces: minimum image matters
    else:
        L = A = None
    whole = md.Trajectory(frames.copy(), top, unitcell_lengths=L, unitcell_angles=A)
    if L is not None:
        # every ATOM wrapped into the primary cell (as MD engines write them): molecules are broken across the faces, so
        # periodic=True must undo it by the minimum image and periodic=False must not
        wrapped = frames.astype(np.float64)
        for f in range(n_frames):
            B = D.box_vectors(L[f], A[f])
            frac = wrapped[f] @ np.linalg.inv(B)
            wrapped[f] = wrapped[f] - np.floor(frac) @ B
        frames = wrapped.astype(np.float32)
    t = md.Trajectory(frames.copy(), top, unitcell_lengths=L, unitcell_angles=A)
    atoms = [{"name": a.name, "element": a.element.symbol, "resid": a.residue.index, "resname": a.residue.name, "chain": a.residue.chain.index}
             for a in top.atoms]
    masses = np.array([a.element.mass for a in top.atoms])
    bonds = [(a.index, b.index) for a, b in top.bonds]
    boxes = None if L is None else [D.box_vectors(L[f], A[f]) for f in range(n_frames)]
    return {"traj": t, "whole": whole, "atoms": atoms, "masses": masses, "bonds": bonds, "boxes": boxes, "L": L, "A": A, "variant": variant, "seed": seed,
            "X": float(max(np.abs(frames).max(), 0 if L is None else L.max()))}


def _cmp(chk, clause, wc, what, inp, got, exp, X, extra_tol=0.0):
    got = np.asarray(got, dtype=np.float64)
    exp = np.asarray(exp, dtype=np.float64)
    if got.shape != exp.shape:
        chk.fail(clause + "-shape", wc, f"{what}: shape {got.shape}, expected {exp.shape}", inp, observed=list(got.shape), expected=list(exp.shape))
        return False
    bad = ~(np.abs(got - exp) <= tol(exp, X) + extra_tol)
    if bad.any():
        k = np.unravel_index(int(np.argmax(np.abs(got - exp) - tol(exp, X) - extra_tol)), got.shape) if got.ndim else ()
        chk.fail(clause, wc, f"{what}: entry {tuple(int(i) for i in k)} is {got[k]:.8g}, documented formula gives {exp[k]:.8g} "
                 f"(tolerance {float(np.asarray(tol(exp, X) + extra_tol)[k] if np.ndim(tol(exp, X) + extra_tol) else tol(exp, X) + extra_tol):.3g})",
                 inp, observed=float(got[k]), expected=float(exp[k]))
        return False
    chk.ok(nontrivial=(clause, wc, json.dumps(inp, sort_keys=True, default=str)))
    return True


# ------------------------------------------------------------------------------------------------ contacts
def check_contacts_all(chk, s):
    import mdtraj as md

    t, atoms = s["traj"], s["atoms"]
    for scheme in SCHEMES:
        for periodic in (True, False):
            for ignore_np in (True, False):
                inp = {"what": "contacts-all", "variant": s["variant"], "seed": s["seed"], "scheme": scheme, "periodic": periodic, "ignore_nonprotein": ignore_np}
                wc = f"compute_contacts:all:{scheme}"
                exp_pairs = D.all_pairs(atoms, ignore_nonprotein=ignore_np, same_chain=True)
                members = D.scheme_members(atoms, scheme)
                if scheme == "ca":
                    exp_pairs = [p for p in exp_pairs if len(members[p[0]]) == 1 and len(members[p[1]]) == 1]
                elif any(len(members[p[0]]) == 0 or len(members[p[1]]) == 0 for p in exp_pairs):
                    continue  # a requested residue has no designated atom (e.g. water side chain): mdtraj raises; outside the quantifier
                try:
                    with warnings.catch_warnings():
                        warnings.simplefilter("ignore")
                        d, rp = md.compute_contacts(t, "all", scheme, ignore_nonprotein=ignore_np, periodic=periodic)
                except Exception as e:
                    chk.fail("raises", wc + f":{type(e).__name__}", f"compute_contacts('all', {scheme}, ignore_nonprotein={ignore_np}) raised {type(e).__name__}: {e}", inp)
                    continue
                if [tuple(int(x) for x in p) for p in np.asarray(rp).reshape(-1, 2)] != exp_pairs:
                    chk.fail("residue-pairs-labels", wc, f"returned residue_pairs differ from the same-chain pairs with j>=i+3 ({len(rp)} vs {len(exp_pairs)})", inp,
                             observed=np.asarray(rp)[:8], expected=exp_pairs[:8])
                    continue
                boxes = s["boxes"] if (periodic and s["boxes"] is not None) else None
                exp = D.contact_distances(t.xyz, atoms, exp_pairs, scheme, boxes)
                if _cmp(chk, "contact-distance-equals-min", wc, f"scheme={scheme}, periodic={periodic}", inp, d, exp, s["X"]):
                    chk.ok(nontrivial=(s["seed"], s["variant"], scheme, periodic, ignore_np), sample={"scheme": scheme, "n_pairs": len(exp_pairs), "periodic": periodic})


def check_contacts_pairs(chk, s):
    import mdtraj as md

    t, atoms = s["traj"], s["atoms"]
    rng = np.random.RandomState(s["seed"] * 3 + s["variant"])
    members_all = D.residues_of(atoms)
    n_res = len(members_all)
    for scheme in SCHEMES:
        members = D.scheme_members(atoms, scheme)
        usable = [r for r in range(n_res) if len(members[r]) > 0]
        pairs = []
        for _ in range(14):
            a, b = rng.choice(usable, 2, replace=False)
            pairs.append((int(a), int(b)))  # any order, adjacent, inter-chain, solvent where the scheme designates atoms
        pairs.append(pairs[0])  # duplicate
        if scheme == "ca":
            noca = [r for r in range(n_res) if len(members[r]) == 0]
            pairs.insert(3, (usable[0], noca[0]))
            pairs.insert(7, (noca[-1], usable[2]))
        for periodic in (True, False):
            inp = {"what": "contacts-pairs", "variant": s["variant"], "seed": s["seed"], "scheme": scheme, "periodic": periodic}
            wc = f"compute_contacts:pairs:{scheme}"
            with warnings.catch_warnings():
                warnings.simplefilter("ignore")
                try:
                    d, rp = md.compute_contacts(t, pairs, scheme, periodic=periodic)
                except Exception as e:
                    chk.fail("raises", wc + f":{type(e).__name__}", f"compute_contacts(pairs, {scheme}) raised {type(e).__name__}: {e}", inp)
                    continue
            exp_pairs = [p for p in pairs if len(members[p[0]]) == 1 and len(members[p[1]]) == 1] if scheme == "ca" else pairs
            if [tuple(int(x) for x in p) for p in np.asarray(rp).reshape(-1, 2)] != exp_pairs:
                chk.fail("residue-pairs-labels", wc, "returned residue_pairs do not mirror the requested pairs (minus pairs without alpha carbon for 'ca')", inp,
                         observed=np.asarray(rp), expected=exp_pairs)
                continue
            boxes = s["boxes"] if (periodic and s["boxes"] is not None) else None
            exp = D.contact_distances(t.xyz, atoms, exp_pairs, scheme, boxes)
            ok = _cmp(chk, "contact-distance-equals-min", wc, f"explicit pairs, scheme={scheme}, periodic={periodic}", inp, d, exp, s["X"])
            # squareform
            sq = md.geometry.squareform(d, rp)
            n = int(np.max(rp)) + 1
            ref = np.zeros((t.n_frames, n, n))
            for k, (i, j) in enumerate(exp_pairs):
                ref[:, i, j] = d[:, k]
                ref[:, j, i] = d[:, k]
            if sq.shape != ref.shape or not np.array_equal(np.asarray(sq, dtype=np.float64), ref):
                ok = False
                chk.fail("squareform-placement", "squareform", "contact map entries do not sit at [frame, i, j] and [frame, j, i] of the labelled pairs (zeros elsewhere)",
                         inp, observed=list(np.asarray(sq).shape), expected=list(ref.shape))
            # soft-min (documented formula), only where float32 exp cannot overflow
            if scheme != "ca":
                for beta in (20.0, 5.0):
                    with warnings.catch_warnings():
                        warnings.simplefilter("ignore")
                        ds, rps = md.compute_contacts(t, pairs, scheme, periodic=periodic, soft_min=True, soft_min_beta=beta)
                    exps = D.contact_distances(t.xyz, atoms, exp_pairs, scheme, boxes, soft_min=True, beta=beta)
                    safe = beta / exp <= 80.0
                    if not np.array_equal(np.asarray(rps), np.asarray(rp)):
                        ok = False
                        chk.fail("residue-pairs-labels", wc + ":soft_min", "soft_min changes the returned residue_pairs", dict(inp, beta=beta))
                    elif safe.any():
                        g, e = np.where(safe, ds, 0.0), np.where(safe, exps, 0.0)
                        ok &= _cmp(chk, "soft-min-equals-documented-formula", wc + ":soft_min", f"soft_min beta={beta}, scheme={scheme}", dict(inp, beta=beta), g, e, s["X"])
            if ok:
                chk.ok(nontrivial=(s["seed"], s["variant"], scheme, periodic), sample={"scheme": scheme, "pairs": pairs[:4]})


# ------------------------------------------------------------------------------------------------ centres / shape
def check_shape(chk, s):
    import mdtraj as md

    t, atoms, masses, X = s["traj"], s["atoms"], s["masses"], s["X"]
    xyz = t.xyz
    base = {"what": "shape", "variant": s["variant"], "seed": s["seed"]}
    N = t.n_atoms
    ok = True
    ok &= _cmp(chk, "equals-formula", "compute_center_of_mass", "centre of mass", base, md.compute_center_of_mass(t), D.center_of_mass(xyz, masses), X)
    for selname, pred in (("element C", lambda a: a["element"] == "C"), ("name CA", lambda a: a["name"] == "CA"), ("water", lambda a: a["resname"] == "HOH")):
        idx = [i for i, a in enumerate(atoms) if pred(a)]
        ok &= _cmp(chk, "equals-formula", "compute_center_of_mass:select", f"centre of mass of '{selname}'", dict(base, select=selname),
                   md.compute_center_of_mass(t, select=selname), D.center_of_mass(xyz[:, idx], masses[idx]), X)
    ok &= _cmp(chk, "equals-formula", "compute_center_of_geometry", "centre of geometry", base, md.compute_center_of_geometry(t), D.center_of_geometry(xyz), X)
    ok &= _cmp(chk, "equals-formula", "compute_rg", "radius of gyration (uniform weights)", base, md.compute_rg(t), D.rg(xyz), X)
    got = md.compute_rg(t, masses=masses)
    a = D.rg(xyz, masses, about="mass")
    b = D.rg(xyz, masses, about="geometry")
    if np.all(np.abs(got - a) <= tol(a, X)):
        which = "mass-weighted about the centre of mass"
    elif np.all(np.abs(got - b) <= tol(b, X)):
        which = "mass-weighted about the UNWEIGHTED centre of geometry (no documented formula; recorded, not alarmed)"
    else:
        which = None
        ok = False
        chk.fail("equals-formula", "compute_rg:masses", "compute_rg(masses) matches neither mass-weighting about the centre of mass nor about the centre of geometry", base,
                 observed=got, expected=a)
    S = D.gyration_tensor(xyz)
    scale = np.trace(S, axis1=1, axis2=2).max()
    ok &= _cmp(chk, "equals-formula", "compute_gyration_tensor", "gyration tensor (1/N sum r r^T about the centre of geometry)", base, md.compute_gyration_tensor(t), S, X * np.sqrt(scale))
    pm = md.principal_moments(t)
    if not np.all(np.diff(pm, axis=1) >= 0):
        ok = False
        chk.fail("ascending-order", "principal_moments", "principal moments not in ascending order", base, observed=pm)
    ok &= _cmp(chk, "equals-formula", "principal_moments", "principal moments", base, pm, D.principal_moments(xyz), X * np.sqrt(scale))
    ok &= _cmp(chk, "equals-formula", "asphericity", "asphericity l3-(l1+l2)/2", base, np.ravel(md.asphericity(t)), D.asphericity(xyz), X * np.sqrt(scale))
    ok &= _cmp(chk, "equals-formula", "acylindricity", "acylindricity l2-l1", base, np.ravel(md.acylindricity(t)), D.acylindricity(xyz), X * np.sqrt(scale))
    ok &= _cmp(chk, "equals-formula", "relative_shape_anisotropy", "relative shape anisotropy", base, np.ravel(md.relative_shape_antisotropy(t)),
               D.relative_shape_anisotropy(xyz), 1.0, extra_tol=1e-5)
    I = D.inertia_tensor(xyz, masses)
    ok &= _cmp(chk, "equals-formula", "compute_inertia_tensor", "inertia tensor about the centre of mass", base, md.compute_inertia_tensor(t), I,
               X * np.sqrt(np.trace(I, axis1=1, axis2=2).max() * masses.sum()))
    # directors / nematic order
    chains = {}
    for i, a_ in enumerate(atoms):
        chains.setdefault(a_["chain"], []).append(i)
    big_res = [idx for idx in D.residues_of(atoms) if len(idx) >= 5]
    for label, groups, arg in (("chains", list(chains.values()), "chains"), ("list-of-lists", big_res, [list(map(int, g)) for g in big_res])):
        exp_dir, gap = D.directors(xyz, masses, groups)
        try:
            got_dir = md.compute_directors(t, indices=arg)
            got_s2 = md.compute_nematic_order(t, indices=arg)
        except Exception as e:
            ok = False
            chk.fail("raises", f"compute_directors:{label}:{type(e).__name__}", f"compute_directors/nematic_order({label}) raised {type(e).__name__}: {e}", dict(base, groups=label))
            continue
        if got_dir.shape != exp_dir.shape:
            ok = False
            chk.fail("equals-formula-shape", f"compute_directors:{label}", f"shape {got_dir.shape} vs {exp_dir.shape}", dict(base, groups=label))
            continue
        gd = got_dir / np.linalg.norm(got_dir, axis=2, keepdims=True)
        cosang = np.abs(np.sum(gd * exp_dir, axis=2))
        lim = 0.5 * (1e-5 / np.maximum(gap, 1e-12)) ** 2 + 1e-12
        if np.any(1 - cosang > lim):
            ok = False
            k = np.unravel_index(int(np.argmax(1 - cosang - lim)), cosang.shape)
            chk.fail("director-is-smallest-inertia-axis", f"compute_directors:{label}", f"frame {k[0]} group {k[1]}: director deviates from the eigenvector of the smallest "
                     f"moment of inertia (|cos| = {cosang[k]:.8f}, relative eigen-gap {gap[k]:.3g})", dict(base, groups=label), observed=got_dir[k], expected=exp_dir[k])
        ok &= _cmp(chk, "equals-formula", f"compute_nematic_order:{label}", "nematic order S2 = largest eigenvalue of Q", dict(base, groups=label), got_s2,
                   D.nematic_order(exp_dir), 1.0, extra_tol=1e-5 / max(gap.min(), 1e-6))
    if ok:
        chk.ok(nontrivial=("shape", s["seed"], s["variant"]), sample={"variant": s["variant"], "compute_rg(masses) implements": which})


# ------------------------------------------------------------------------------------------------ rdf / density
def check_rdf_density(chk, s):
    import mdtraj as md

    if s["L"] is None:
        return
    t, atoms, masses, X = s["traj"], s["atoms"], s["masses"], s["X"]
    sel = [i for i, a in enumerate(atoms) if a["element"] in ("O", "N", "Na", "Cl", "S")]
    pairs = np.array(list(itertools.combinations(sel, 2)))
    settings = [dict(), dict(r_range=(0.0, 1.0), bin_width=0.125), dict(r_range=(0.25, 1.0), bin_width=0.0625), dict(r_range=(0.2, 1.2), n_bins=10),
                dict(r_range=(0.0, 0.9), n_bins=7, bin_width=0.5), dict(r_range=(0.1, 1.3), n_bins=1)]
    for kw in settings:
        for periodic in (True, False):
            for opt in (True, False):
                inp = {"what": "rdf", "variant": s["variant"], "seed": s["seed"], "kw": {k: list(v) if isinstance(v, tuple) else v for k, v in kw.items()}, "periodic": periodic, "opt": opt}
                r_range = kw.get("r_range", (0.0, 1.0))
                if "n_bins" in kw:
                    nb = kw["n_bins"]
                else:
                    q = (r_range[1] - r_range[0]) / kw.get("bin_width", 0.005)
                    if not float(q).is_integer():
                        continue  # range not an exact multiple of the width in floating point: bin count is a rounding decision
                    nb = int(q)
                r, g = md.compute_rdf(t, pairs, periodic=periodic, opt=opt, **kw)
                er, glo, ghi = D.rdf_bounds(t.xyz, pairs, s["L"], s["A"], r_range, nb, periodic=periodic, rel=1e-5, abs_tol=8 * EPS * X)
                wc = "compute_rdf"
                if r.shape != er.shape or np.max(np.abs(r - er)) > 1e-12:
                    chk.fail("bin-centres", wc, f"{kw}: returned radii are not the centres of {nb} equal bins on {r_range}", inp, observed=r[:5], expected=er[:5])
                    continue
                bad = (g < glo * (1 - 1e-5) - 1e-300) | (g > ghi * (1 + 1e-5) + 1e-300)
                if bad.any():
                    k = int(np.argmax(bad))
                    chk.fail("shell-normalisation", wc, f"{kw}, periodic={periodic}: g(r={r[k]:.4f}) = {g[k]:.8g}, formula H/(n_pairs*V_shell*sum 1/V_cell) gives [{glo[k]:.8g}, {ghi[k]:.8g}]",
                             inp, observed=float(g[k]), expected=[float(glo[k]), float(ghi[k])])
                    continue
                chk.ok(nontrivial=(s["seed"], s["variant"], str(kw), periodic, opt), sample={"kw": inp["kw"], "n_pairs": len(pairs), "nonzero_bins": int(np.sum(g > 0))})
    for label, m in (("element-masses", None), ("custom-masses", np.linspace(1.0, 30.0, t.n_atoms))):
        got = md.density(t, masses=m)
        exp = D.density(masses if m is None else m, s["L"], s["A"])
        if _cmp(chk, "equals-formula", f"density:{label}", "mass density sum m / V * 1.66053906660 kg/m^3", {"what": "density", "variant": s["variant"], "seed": s["seed"], "masses": label},
                got, exp, 0.0):
            chk.ok(nontrivial=("density", s["seed"], s["variant"], label))


# ------------------------------------------------------------------------------------------------ DRID
def check_drid(chk, s):
    import mdtraj as md

    t, atoms, X = s["traj"], s["atoms"], s["X"]
    ca = [i for i, a in enumerate(atoms) if a["name"] in ("CA", "N", "C")]
    rng = np.random.RandomState(s["seed"] + 41)
    for label, ai in (("all-atoms", None), ("backbone-subset", ca), ("unsorted-subset", rng.permutation(t.n_atoms)[:40].tolist())):
        inp = {"what": "drid", "variant": s["variant"], "seed": s["seed"], "atoms": label}
        got = md.compute_drid(t, atom_indices=None if ai is None else np.array(ai))
        exp, ymax = D.drid(t.xyz, s["bonds"], ai)
        wc = f"compute_drid:{label}"
        if got.shape != exp.shape:
            chk.fail("shape", wc, f"shape {got.shape}, expected {exp.shape}", inp)
            continue
        g3 = got.reshape(got.shape[0], -1, 3)
        e3 = exp.reshape(exp.shape[0], -1, 3)
        delta = 1e-5 * ymax + 8 * EPS * X * ymax ** 2  # perturbation of one reciprocal distance from float32 coordinates
        ok = True
        for m, name, lim in ((0, "mean", delta), (1, "second central moment (sqrt)", 2 * delta), (None, "third central moment", 3 * e3[:, :, 1] ** 2 * delta * 2)):
            if m is None:
                a, b = g3[:, :, 2] ** 3, e3[:, :, 2] ** 3
            else:
                a, b = g3[:, :, m], e3[:, :, m]
            bad = np.abs(a - b) > lim + 1e-12 * np.abs(b)
            if bad.any():
                ok = False
                k = np.unravel_index(int(np.argmax(np.abs(a - b) - lim)), a.shape)
                chk.fail("equals-formula", wc, f"{name} of 1/d for selected atom #{k[1]} in frame {k[0]}: {a[k]:.8g} vs formula {b[k]:.8g} (allowed {lim[k]:.3g})", inp,
                         observed=float(a[k]), expected=float(b[k]))
                break
        if ok:
            chk.ok(nontrivial=(s["seed"], s["variant"], label), sample={"atoms": label, "n": exp.shape[1] // 3})


# ------------------------------------------------------------------------------------------------ dipole / J
def check_dipole_j(chk, s):
    import mdtraj as md

    t, atoms, X = s["traj"], s["atoms"], s["X"]
    base = {"variant": s["variant"], "seed": s["seed"]}
    if s["L"] is not None:
        rng = np.random.RandomState(s["seed"] + 77)
        q = rng.uniform(-1, 1, size=t.n_atoms)
        q -= q.mean()  # neutral: the dipole is origin independent
        got = md.dipole_moments(t, q)
        exp = D.dipole_moments(t.xyz, q, atoms, s["L"], s["A"])
        scale = np.abs(q).sum()
        lim = 1e-5 * np.abs(exp) + 8 * EPS * X * scale
        inp = dict(base, what="dipole")
        if np.all(np.abs(got - exp) <= lim):
            chk.ok(nontrivial=("dipole", s["seed"], s["variant"]))
        elif np.all(np.abs(got + exp) <= lim):
            chk.fail("dipole-equals-sum-q-r", "dipole_moments:sign-reversed",
                     f"dipole_moments returns MINUS sum_i q_i r_i for a neutral system: {got[0].tolist()} vs {exp[0].tolist()} (it accumulates displacements "
                     "first_atom - atom and atom0 - first_atom, i.e. r_0 - r_i)", inp, observed=got[0], expected=exp[0])
        else:
            chk.fail("dipole-equals-sum-q-r", "dipole_moments:value", f"dipole moment {got[0].tolist()} vs sum q r = {exp[0].tolist()}", inp, observed=got[0], expected=exp[0])
    for kind, fn, models in (("HN_HA", md.compute_J3_HN_HA, ["Bax2007", "Ruterjans1999", "Bax1997"]), ("HN_C", md.compute_J3_HN_C, ["Bax2007"]),
                             ("HN_CB", md.compute_J3_HN_CB, ["Bax2007"])):
        for model in models:
            inp = dict(base, what="j3", kind=kind, model=model)
            wc = f"compute_J3_{kind}"
            # documented: "does not take into account periodic boundary conditions" => evaluated on whole molecules
            idx, J = fn(s["whole"], model=model)
            eidx, eJ, slope = D.j3(s["whole"].xyz, atoms, kind, model)
            if np.asarray(idx).shape != eidx.shape or not np.array_equal(np.asarray(idx), eidx):
                chk.fail("phi-quartet-labels", wc, "returned indices are not the (C[i-1], N, CA, C) quartets of consecutive same-chain residues", inp,
                         observed=np.asarray(idx)[:4], expected=eidx[:4])
                continue
            if _cmp(chk, "equals-karplus-formula", wc, f"{kind} {model}: A cos^2(phi+phi0) + B cos(phi+phi0) + C", inp, J, eJ, 0.0, extra_tol=slope * 1e-5):
                chk.ok(nontrivial=(s["seed"], s["variant"], kind, model), sample={"kind": kind, "model": model, "n_phi": int(eidx.shape[0])})
    # default model is Bax2007
    if not np.array_equal(md.compute_J3_HN_HA(t)[1], md.compute_J3_HN_HA(t, model="Bax2007")[1]):
        chk.fail("default-model", "compute_J3_HN_HA", "default model is not Bax2007", dict(base, what="j3-default"))


# ------------------------------------------------------------------------------------------------ driver
def run(tier, seed, hint):
    reps = 1 if tier == "quick" else 10
    bound_sys = (f"{3 * reps} synthetic solvated systems (seed={seed}): 2-3 peptide chains of unequal length with ACE/NME caps (no CA), glycines, proline, one "
                 "residue stripped of its CA, one of its HA, 5 waters, Na+/Cl-; 3 frames each; orthorhombic / triclinic (solute straddling the faces) / no cell")
    c1 = Check("contacts-all", "md.compute_contacts(contacts='all')", bound_sys + "; 5 schemes x periodic {T,F} x ignore_nonprotein {T,F}",
               rule="returned residue_pairs == same-chain pairs j>=i+3 (with alpha carbon when ignore_nonprotein; 'ca' drops residues without CA); every column == min over the scheme's atom pairs (MIC by brute force over 125 images)",
               stands_in_for="concat-segment / running-offset obligation of compute_contacts")
    c2 = Check("contacts-pairs-softmin-squareform", "md.compute_contacts(explicit pairs, soft_min), md.geometry.squareform",
               bound_sys + "; 15-17 explicit residue pairs per scheme (any order, adjacent, inter-chain, duplicate, residues without CA for 'ca'); beta in {20,5}",
               rule="labels mirror the request; distances == min; soft-min == beta/log sum exp(beta/d) where beta/d_min<=80; squareform symmetric placement, zeros elsewhere")
    c3 = Check("centres-rg-shape-order", "compute_center_of_mass/geometry, compute_rg, compute_gyration_tensor, principal_moments, asphericity, acylindricity, "
               "relative_shape_antisotropy, compute_inertia_tensor, compute_directors, compute_nematic_order", bound_sys + "; COM selections {element C, name CA, water}; "
               "director groups: chains, residues with >=5 atoms as list of lists", rule="each equals its closed form in float64 on the same float32 coordinates and element masses")
    c4 = Check("rdf-density", "md.compute_rdf, md.density", bound_sys + "; pairs = all N/O/S/ion pairs; 6 (r_range, bin_width/n_bins) settings x periodic x opt; element and custom masses",
               rule="bin centres exact; g within [lo,hi] of H/(n_pairs V_shell sum 1/V_cell) (edge-ambiguous distances either side)")
    c5 = Check("drid", "md.compute_drid", bound_sys + "; all atoms, backbone subset, unsorted random subset of 40", rule="mean / sqrt 2nd / cbrt 3rd central moments of 1/d over non-bonded selected partners")
    c6 = Check("dipole-jcouplings", "md.dipole_moments, md.compute_J3_HN_HA/HN_C/HN_CB", bound_sys + "; neutral random charges; all documented Karplus models",
               rule="dipole == sum q r with residues whole and first atoms at minimum image; J == Karplus formula with the published coefficients on the phi quartets; indices exact")
    for rep in range(reps):
        for variant in (0, 1, 2):
            s = make_system(variant, seed * 10 + rep)
            check_contacts_all(c1, s)
            check_contacts_pairs(c2, s)
            check_shape(c3, s)
            check_rdf_density(c4, s)
            check_drid(c5, s)
            check_dipole_j(c6, s)
    return [c1, c2, c3, c4, c5, c6]


_DISPATCH = {"contacts-all": check_contacts_all, "contacts-pairs": check_contacts_pairs, "shape": check_shape, "rdf": check_rdf_density, "density": check_rdf_density,
             "drid": check_drid, "dipole": check_dipole_j, "j3": check_dipole_j, "j3-default": check_dipole_j}


def replay(payload):
    inp = payload.get("input") or payload.get("failing_input")
    chk = Check("replay", "", "", "")
    s = make_system(inp["variant"], inp["seed"])
    _DISPATCH[inp["what"]](chk, s)
    want = payload.get("key")
    fails = [f for f in chk.failures if want is None or f["key"] == want] or chk.failures
    return {"reproduced": bool(fails), "failures": fails}
