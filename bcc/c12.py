"""C12 bounded contract check: Topology.select / select_expression against the reference evaluator
of the documented selection language (specs/selection_ref.py, written from docs/atom_selection.rst).

Four checks, all on the 67-atom fixture of specs.selection_ref (8 protein residues in 2 chains, a
ligand, 2 waters, Na+/Cl-/Ca2+ ions, 3 chains, 2 segments, repeated atom names and residue numbers):

  leaf-forms        every keyword alias x every applicable comparison spelling x literal forms
                    (bare / 'single' / "double" / int / float), flipped operands, implicit equality,
                    implicit lists, ranges, regular expressions; each alone, parenthesised and negated.
  operator-pairs    every ordered pair of operator spellings that can stand next to each other without
                    parentheses (comparison|implicit|range|regex  x  and && or ||, connective x connective,
                    not/! x connective): the documented binding strength not > comparison > and > or.
  nesting           grammar-directed enumeration of ALL expression trees to nesting depth 2 over
                    {and, or, not} x leaves {bool keyword, condition}, rendered under every spelling scheme
                    (and|&&) x (or|||) x (not|! |!) x condition category (symbolic / word comparison, implicit,
                    regex) + a per-node random scheme; thorough adds fully parenthesised renderings and a
                    seeded sample of depth-3 trees.  Expressions containing an operator pair that already
                    failed in `operator-pairs` are subsumed (skipped): same finding.
  malformed         300 strings outside the language must raise instead of selecting.

Contract per well-formed e:  list(top.select(e)) == reference(e)  (increasing indices) and
eval(top.select_expression(e), {topology, re}) == the same list.
"""
from __future__ import annotations

import itertools
import os
import random
import re
from concurrent.futures import ProcessPoolExecutor

from bcc.api import Check
from specs import selection_ref as R

# --------------------------------------------------------------------------------------------------
# fixture topology (built through the public Topology API from the spec's record table)
# --------------------------------------------------------------------------------------------------
_TOP = None
_RECS = None


def fixture_topology():
    global _TOP, _RECS
    if _TOP is not None:
        return _TOP, _RECS
    import mdtraj as md
    from mdtraj.core import element

    recs, bonds = R.fixture()
    top = md.Topology()
    chains = {}
    atoms = []
    for ri, (rn, rs, ch, seg, ratoms, _rb) in enumerate(R.RESIDUES):
        if ch not in chains:
            chains[ch] = top.add_chain()
        res = top.add_residue(rn, chains[ch], resSeq=rs, segment_id=seg)
        for an, sym in ratoms:
            atoms.append(top.add_atom(an, element.get_by_symbol(sym), res))
    for i, j in bonds:
        top.add_bond(atoms[i], atoms[j])
    _TOP, _RECS = top, recs
    return top, recs


def _select_both(expr, want_source=True):
    """run the real code on one string: select() and (optionally) eval(select_expression()).
    The calls are made from a fresh thread, i.e. from an (almost) empty Python call stack, so that
    a RecursionError does not depend on how deep the caller of this check happens to be: it is only
    reported when the parser exceeds the default recursion limit even from the top level."""
    import threading

    box = {}
    th = threading.Thread(target=lambda: box.update(_select_both0(expr, want_source)))
    th.start()
    th.join()
    return box


def _select_both0(expr, want_source):
    top, _ = fixture_topology()
    out = {}
    try:
        out["select"] = [int(i) for i in top.select(expr)]
    except BaseException as e:  # RecursionError etc. included; KeyboardInterrupt re-raised below
        if isinstance(e, (KeyboardInterrupt, SystemExit)):
            raise
        out["select_exc"] = f"{type(e).__name__}: {str(e).splitlines()[0][:120] if str(e) else ''}"
    if not want_source:
        out["no_source"] = True
        return out
    try:
        src = top.select_expression(expr)
        out["source"] = src
        try:
            out["eval"] = [int(i) for i in eval(src, {"topology": top, "re": re})]
        except Exception as e:
            out["eval_exc"] = f"{type(e).__name__}: {str(e)[:120]}"
    except BaseException as e:
        if isinstance(e, (KeyboardInterrupt, SystemExit)):
            raise
        out["source_exc"] = f"{type(e).__name__}: {str(e).splitlines()[0][:120] if str(e) else ''}"
    return out


def _work(chunk):
    return [_select_both(e, w) for e, w in chunk]


def _evaluate_many(exprs, pool, want=None):
    """exprs: list of strings; want: optional list of bools (evaluate select_expression too?)"""
    items = [(e, True if want is None else bool(want[i])) for i, e in enumerate(exprs)]
    if pool is None or len(items) < 64:
        return _work(items)
    n = max(8, min(100, len(items) // 128))
    chunks = [items[i:i + n] for i in range(0, len(items), n)]
    out = []
    for r in pool.map(_work, chunks):
        out.extend(r)
    return out


# --------------------------------------------------------------------------------------------------
# leaves
# --------------------------------------------------------------------------------------------------
SYM_OPS = ["<", "<=", "==", "!=", ">=", ">"]
WORD_OPS = ["lt", "le", "eq", "ne", "ge", "gt"]
BOOL_KW = [a for a, c in R.ALIAS.items() if R.KEYWORDS[c][1] == "bool"]
NUM_KW = [a for a, c in R.ALIAS.items() if R.KEYWORDS[c][1] in ("int", "float")]
STR_KW = [a for a, c in R.ALIAS.items() if R.KEYWORDS[c][1] == "str"]

NUM_LITS = {"index": ["5", "40", "12.5"], "n_bonds": ["1", "3", "2.5"], "mass": ["5.5", "13", "20"],
            "residue": ["2", "101", "4.5"], "resid": ["1", "7", "3.5"], "chainid": ["0", "1", "1.5"]}
STR_LITS = {"name": ["CA", "O", "H1", "XX"], "type": ["C", "Na", "H", "Zn"], "resname": ["ALA", "HOH", "CA", "TRP"],
            "rescode": ["A", "G", "K", "W"], "segment_id": ["SA", "SB", "SC"]}
STR_LISTS = {"name": [["CA", "CB"], ["N", "O", "H1"]], "type": [["N", "O"], ["Na", "Cl", "Ca"]],
             "resname": [["ALA", "GLY"], ["HOH", "NA", "LIG"]], "rescode": [["A", "G"], ["K", "E", "W"]],
             "segment_id": [["SA", "SB"], ["SB", "SC"]]}
NUM_LISTS = {"index": [["0", "5"], ["1", "2", "66"]], "n_bonds": [["0", "1"], ["2", "3", "4"]],
             "residue": [["1", "2"], ["5", "10", "102"]], "resid": [["0", "5"], ["1", "2", "13"]], "chainid": [["0", "2"], ["1", "2", "3"]]}
RANGES = {"index": [("3", "17"), ("60", "99")], "n_bonds": [("2", "3"), ("0", "0")], "mass": [("5.5", "20"), ("13", "15.5")],
          "residue": [("1", "5"), ("10", "102")], "resid": [("1", "5"), ("6", "20")], "chainid": [("0", "1"), ("1", "1")]}
REGEX = {"name": ["^C[1-4]$", "^H.*$", "^[NO]$"], "type": ["^[CN]$", "^C.+$"], "resname": ["^[AG]L[AY]$", "^H.H$"],
         "segment_id": ["^S[AB]$", "^.A$"]}
QUOTE = [lambda s: s, lambda s: f"'{s}'", lambda s: f'"{s}"']


class Leaf:
    __slots__ = ("text", "cat", "op")

    def __init__(self, text, cat, op):
        self.text, self.cat, self.op = text, cat, op  # cat in B S W I R ; op = operator pseudo-token

    def __repr__(self):
        return self.text


def leaves():
    """every leaf form of the documented language (see module docstring)"""
    out = {"B": [], "S": [], "W": [], "I": [], "R": []}
    for kw in BOOL_KW:
        out["B"].append(Leaf(kw, "B", "bool"))
    for alias in NUM_KW:
        canon = R.ALIAS[alias]
        lits = NUM_LITS[canon]
        for ops, cat in ((SYM_OPS, "S"), (WORD_OPS, "W")):
            for op in ops:
                if canon == "mass" and op in ("==", "!=", "eq", "ne"):
                    continue
                for k, lit in enumerate(lits):
                    out[cat].append(Leaf(f"{alias} {op} {lit}", cat, op))
                    if k == 0:
                        out[cat].append(Leaf(f"{lit} {op} {alias}", cat, op))
        if canon != "mass":
            out["I"].append(Leaf(f"{alias} {lits[0]}", "I", "implicit-eq"))
            for lst in NUM_LISTS[canon]:
                out["I"].append(Leaf(f"{alias} {' '.join(lst)}", "I", "implicit-list"))
        for lo, hi in RANGES[canon]:
            out["I"].append(Leaf(f"{alias} {lo} to {hi}", "I", "range"))
    for alias in STR_KW:
        canon = R.ALIAS[alias]
        lits = STR_LITS[canon]
        for ops, cat in ((["==", "!="], "S"), (["eq", "ne"], "W")):
            for op in ops:
                for k, lit in enumerate(lits):
                    for q in QUOTE if k < 2 else QUOTE[:1]:
                        out[cat].append(Leaf(f"{alias} {op} {q(lit)}", cat, op))
                out[cat].append(Leaf(f"'{lits[0]}' {op} {alias}", cat, op))
        for k, lit in enumerate(lits):
            for q in QUOTE if k == 0 else QUOTE[:1]:
                out["I"].append(Leaf(f"{alias} {q(lit)}", "I", "implicit-eq"))
        for lst in STR_LISTS[canon]:
            out["I"].append(Leaf(f"{alias} {' '.join(lst)}", "I", "implicit-list"))
        out["I"].append(Leaf(f"{alias} '{STR_LISTS[canon][0][0]}' \"{STR_LISTS[canon][0][1]}\"", "I", "implicit-list"))
        for pat in REGEX.get(canon, []):
            out["R"].append(Leaf(f"{alias} =~ '{pat}'", "R", "=~"))
            out["R"].append(Leaf(f'{alias} =~ "{pat}"', "R", "=~"))
    out["I"].append(Leaf("name \"O5'\"", "I", "implicit-eq"))
    out["S"].append(Leaf("name == \"O5'\"", "S", "=="))
    return out


# --------------------------------------------------------------------------------------------------
# trees, rendering with minimal / full parentheses, operator adjacency
# --------------------------------------------------------------------------------------------------
# tree: Leaf | ("not", spelling, child) | ("and"|"or", spelling, left, right)
def depth(t):
    if isinstance(t, Leaf):
        return 0
    if t[0] == "not":
        return 1 + depth(t[2])
    return 1 + max(depth(t[2]), depth(t[3]))


def _needs_paren(parent, child, right):
    if isinstance(child, Leaf):
        return parent == "not" and child.cat in ("S", "W", "R")   # `not x == 1` is left unspecified by the docs
    k = child[0]
    if parent == "not":
        return k != "not"
    if k == "not":
        return False
    if parent == "and":
        return k == "or" or (k == "and" and right)
    return k == "or" and right  # parent == "or"


def render(t, full=False):
    """-> (string, flat operator sequences).  A flat sequence lists the operator spellings that meet
    without parentheses in between, in token order."""
    seqs = []

    def go(t, seq):
        if isinstance(t, Leaf):
            seq.append(t.op)
            return t.text
        if t[0] == "not":
            seq.append(t[1].strip())
            return t[1] + sub(t[2], "not", False, seq)
        l = sub(t[2], t[0], False, seq)
        seq.append(t[1])
        r = sub(t[3], t[0], True, seq)
        return f"{l} {t[1]} {r}"

    def sub(child, parent, right, seq):
        if _needs_paren(parent, child, right) or (full and not (isinstance(child, Leaf) and child.cat == "B")):
            inner = []
            s = go(child, inner)
            seqs.append(inner)
            return f"({s})"
        return go(child, seq)

    top = []
    s = go(t, top)
    seqs.append(top)
    return s, seqs


def pairs_of(seqs):
    out = set()
    for seq in seqs:
        ops = [o for o in seq if o != "bool"]
        out.update(zip(ops[:-1], ops[1:]))
    return out


def op_category(op):
    if op in SYM_OPS:
        return "symbolic-comparison"
    if op in WORD_OPS:
        return "word-comparison"
    if op == "=~":
        return "regex"
    if op in ("implicit-eq", "implicit-list", "range"):
        return op
    if op in ("not", "!"):
        return "negation-" + op
    return op  # connective spelling itself: and && or ||


def pair_class(a, b):
    ca, cb = op_category(a), op_category(b)
    conn = ("and", "&&", "or", "||")
    if a in conn and b in conn:
        return f"precedence:{a}-next-to-{b}"
    if a in conn or b in conn:
        c, x = (a, cb) if a in conn else (b, ca)
        return f"precedence:{x}-inside-{c}"
    return f"precedence:{ca}-next-to-{cb}"


# --------------------------------------------------------------------------------------------------
# the contract
# --------------------------------------------------------------------------------------------------
def _judge(expr, res, recs):
    """-> None (holds) | (clause, kind, what, observed, expected); raises Unspecified if out of quantifier"""
    exp = R.evaluate(expr, recs)
    if "select_exc" in res:
        return ("select-equals-reference", res["select_exc"].split(":")[0],
                f"well-formed expression {expr!r} rejected: {res['select_exc']}", res["select_exc"], exp)
    if res["select"] != exp:
        return ("select-equals-reference", "wrong-atoms",
                f"select({expr!r}) returned {len(res['select'])} atoms, the documented meaning selects {len(exp)}"
                f" (python: {res.get('source', '?')[45:-1]})", res["select"], exp)
    if res.get("no_source"):
        return None
    if "source_exc" in res or "eval_exc" in res:
        msg = res.get("source_exc") or res.get("eval_exc")
        return ("select_expression-equals-select", msg.split(":")[0],
                f"select_expression({expr!r}) cannot be evaluated: {msg}", msg, exp)
    if res["eval"] != exp:
        return ("select_expression-equals-select", "wrong-atoms",
                f"eval(select_expression({expr!r})) differs from select()", res["eval"], exp)
    return None


# --------------------------------------------------------------------------------------------------
# checks
# --------------------------------------------------------------------------------------------------
def check_leaf_forms(pool, recs, L, tier):
    chk = Check("leaf-forms", "Topology.select, Topology.select_expression, parse_selection (keywords, literals, comparison, list, range, regex)",
                bound="", rule="exhaustive over the listed forms; non-trivial = selection neither empty nor everything",
                stands_in_for="C12 keyword-table / per-class denotation obligations", exhaustive=True)
    ctxs = [("parenthesised", "({})"), ("negated", "not ({})"), ("negated", "!({})")]
    cases = []
    k = 0
    for cat in "BSWIR":
        for lf in L[cat]:
            cases.append((lf, lf.text, "alone"))
            if tier == "thorough":
                for name, fmt in ctxs:
                    cases.append((lf, fmt.format(lf.text), name))
            else:
                name, fmt = ctxs[k % 3]
                k += 1
                cases.append((lf, fmt.format(lf.text), name))
    results = _evaluate_many([c[1] for c in cases], pool)
    n_forms = sum(len(v) for v in L.values())
    chk.bound = (f"{n_forms} leaf forms = {len(BOOL_KW)} bool keyword spellings + {len(NUM_KW)} numeric and {len(STR_KW)} string keyword "
                 f"aliases x (6 symbolic + 6 word comparison spellings | ==,!=,eq,ne for strings) x 2-4 literals x bare/'/\" quoting, "
                 f"flipped operands, implicit equality, 2-3 element lists, ranges, =~ patterns; each alone and in "
                 + ("the 3 contexts (x), not (x), !(x)" if tier == "thorough" else "one of the contexts (x), not (x), !(x) in rotation")
                 + f" = {len(cases)} expressions")
    failed = []
    for (lf, expr, ctx), res in zip(cases, results):
        try:
            v = _judge(expr, res, recs)
        except R.Unspecified:
            continue
        if v is None:
            n = len(res["select"])
            chk.ok(nontrivial=expr if 0 < n < len(recs) else None, sample={"expr": expr, "n_selected": n})
            continue
        words = lf.text.split()
        kw = words[0] if words[0] in R.ALIAS else words[-1]
        failed.append((lf, expr, ctx, v, R.ALIAS.get(kw, kw), op_category(lf.op) if lf.cat != "B" else "bool-keyword"))
    # witness class: the leaf form when it fails for >= 3 different keywords (a defect of the form),
    # else keyword + form (a defect of the keyword table); the context only when the form passes alone
    alone_bad = {lf.text for lf, _, ctx, _, _, _ in failed if ctx == "alone"}
    kws_per_form = {}
    for lf, _, _, (clause, _, _, _, _), canon, form in failed:
        kws_per_form.setdefault((clause, form), set()).add(canon)
    for lf, expr, ctx, (clause, kind, what, obs, exp), canon, form in sorted(failed, key=lambda f: (f[2] != "alone", len(f[1]))):
        if ctx != "alone" and lf.text in alone_bad:
            chk.evaluations += 1
            continue
        wc = f"leaf:{form}" if len(kws_per_form[(clause, form)]) >= 3 else f"leaf:{canon}:{form}"
        if ctx != "alone":
            wc += f":{ctx}"
        chk.fail(clause, f"{wc}:{kind}", what, {"expr": expr}, observed=obs, expected=exp)
    return chk, {lf.text for lf, *_ in failed}


def _pick(L, cat, k):
    xs = L[cat]
    return xs[k % len(xs)]


NONTRIVIAL_BOOL = ["protein", "is_protein", "water", "waters", "is_water", "backbone", "is_backbone", "sidechain", "is_sidechain"]


def check_operator_pairs(pool, recs, L, seed):
    chk = Check("operator-pairs", "parse_selection._initialize (infixNotation precedence table), Topology.select",
                bound="", rule="exhaustive over ordered pairs of operator spellings; per pair 2 seeded operand instances + 1 with the literal "
                               "on the left, against a bool keyword that is neither all nor none, and against a second condition",
                stands_in_for="C12 precedence-table obligation (not > comparison > and > or)", exhaustive=True)
    conn = [("and", "and"), ("and", "&&"), ("or", "or"), ("or", "||")]
    nots = ["not ", "! ", "!"]
    cond_ops = {}
    for cat in "SWIR":
        for lf in L[cat]:
            cond_ops.setdefault(lf.op, []).append(lf)
    cases = []
    rng = random.Random(seed * 7919 + 1)

    def boolkw():
        return Leaf(NONTRIVIAL_BOOL[rng.randrange(len(NONTRIVIAL_BOOL))], "B", "bool")

    for op, lfs in sorted(cond_ops.items()):
        flipped = [lf for lf in lfs if lf.text.split()[0] not in R.ALIAS]
        for kind, sp in conn:
            xs = [lfs[rng.randrange(len(lfs))] for _ in range(2)]
            if flipped:
                xs.append(flipped[rng.randrange(len(flipped))])
            for x in xs:
                b = boolkw()
                cases.append(((kind, sp, x, b), (op, sp)))
                cases.append(((kind, sp, b, x), (sp, op)))
            y = lfs[rng.randrange(len(lfs))]
            cases.append(((kind, sp, xs[0], y), (op, sp)))
    for (k1, s1), (k2, s2) in itertools.product(conn, conn):
        a, b, c = boolkw(), boolkw(), boolkw()
        # `a s1 b s2 c` as a flat string; its documented tree depends on the kinds
        if k1 == "or" and k2 == "and":
            t = ("or", s1, a, ("and", s2, b, c))
        else:
            t = (k2, s2, (k1, s1, a, b), c)
        cases.append((t, (s1, s2)))
        x, y = _pick(L, "I", rng.randrange(1000)), _pick(L, "I", rng.randrange(1000))
        t2 = ("or", s1, x, ("and", s2, b, y)) if (k1 == "or" and k2 == "and") else (k2, s2, (k1, s1, x, b), y)
        cases.append((t2, (s1, s2)))
    for n in nots:
        for kind, sp in conn:
            a, b = boolkw(), _pick(L, "I", rng.randrange(1000))
            cases.append(((kind, sp, ("not", n, a), b), (n.strip(), sp)))
            cases.append(((kind, sp, b, ("not", n, a)), (sp, n.strip())))
            cases.append(((kind, sp, ("not", n, b), a), (n.strip(), sp)))
        for n2 in nots:
            cases.append((("not", n, ("not", n2, boolkw())), (n.strip(), n2.strip())))
            cases.append((("not", n, ("not", n2, _pick(L, "I", rng.randrange(1000)))), (n.strip(), n2.strip())))
    rendered = [render(t) for t, _ in cases]
    results = _evaluate_many([s for s, _ in rendered], pool)
    bad = {}
    n_pairs = len({p for _, p in cases})
    chk.bound = (f"{n_pairs} ordered operator-spelling pairs: {len(cond_ops)} condition operators (12 comparison spellings, =~, implicit-eq, "
                 f"implicit-list, range) x {{and,&&,or,||}} in both orders; 16 connective-connective pairs; {{not,!}} x connectives; "
                 f"not-not; {len(cases)} expressions")
    for (t, pair), (expr, seqs), res in zip(cases, rendered, results):
        try:
            v = _judge(expr, res, recs)
        except R.Unspecified:
            continue
        if v is None:
            chk.ok(nontrivial=pair, sample={"expr": expr, "pair": list(pair)})
            continue
        clause, kind, what, obs, exp = v
        bad.setdefault(pair, expr)
        chk.fail(clause, pair_class(*pair), what + f"  [operators {pair[0]!r} then {pair[1]!r} without parentheses]",
                 {"expr": expr}, observed=obs, expected=exp, explains=["C12/parse_selection._initialize/precedence-table"])
    return chk, bad


def _paren_depth(s):
    d = m = 0
    q = None
    for ch in s:
        if q:
            if ch == q:
                q = None
        elif ch in "'\"":
            q = ch
        elif ch == "(":
            d += 1
            m = max(m, d)
        elif ch == ")":
            d -= 1
    return m


MAX_PAREN = 6


def check_paren_depth(pool, recs, L, seed, bad_pairs):
    chk = Check("parenthesis-depth", "parse_selection (recursive-descent depth of the infixNotation grammar), Topology.select",
                bound=f"parenthesis nesting 1..{MAX_PAREN} x 3 shapes (k pairs around one condition; right-nested chain a and (b and (c and (...))); not (not (... x))) "
                      f"x 5 leaf categories x and/&&/or/||",
                rule="exhaustive; Python's default recursion limit (1000) is left untouched; chains containing an operator pair "
                     "already reported by `operator-pairs` are skipped",
                stands_in_for="C12 parentheses clause", exhaustive=True)
    rng = random.Random(seed * 613 + 3)
    cases = []
    for k in range(1, MAX_PAREN + 1):
        for cat in "BSWIR":
            lf = _pick(L, cat, rng.randrange(1000))
            cases.append(("(" * k + lf.text + ")" * k, k, "wrapped"))
            for kind, sp in (("and", "and"), ("and", "&&"), ("or", "or"), ("or", "||")):
                t = _pick(L, cat, rng.randrange(1000))
                for i in range(k):
                    t = (kind, sp, _pick(L, cat if i % 2 else "B", rng.randrange(1000)), t)
                s, seqs = render(t)
                if not (pairs_of(seqs) & bad_pairs):
                    cases.append((s, k, "chain"))
            for sp in NOTS:
                s = lf.text
                for i in range(k):
                    s = f"{sp}({s})"
                cases.append((s, k, "negation-chain"))
    results = _evaluate_many([c[0] for c in cases], pool)
    limit = {}
    for (expr, k, shape), res in sorted(zip(cases, results), key=lambda cr: cr[0][1]):
        try:
            v = _judge(expr, res, recs)
        except R.Unspecified:
            continue
        if v is None:
            chk.ok(nontrivial=(k, shape), sample={"expr": expr, "depth": k})
            continue
        clause, kind, what, obs, exp = v
        limit.setdefault(kind, k)
        chk.fail(clause, f"parentheses:nested:{kind}", what + f"  [parenthesis nesting depth {k}]",
                 {"expr": expr}, observed=obs, expected=exp)
    return chk, limit.get("RecursionError")


def _structures(max_depth):
    """all trees over leaf slots {B, X} and nodes {not, and, or}, by increasing depth"""
    levels = [["B", "X"]]
    upto = list(levels[0])
    for d in range(1, max_depth + 1):
        new = []
        prev = levels[-1]
        older = [t for lv in levels[:-1] for t in lv]
        for t in prev:
            new.append(("not", t))
        for kind in ("and", "or"):
            for a in prev:
                for b in upto:
                    new.append((kind, a, b))
            for a in older:
                for b in prev:
                    new.append((kind, a, b))
        levels.append(new)
        upto = upto + new
    return levels


def _random_structure(rng, d):
    if d == 0:
        return rng.choice(["B", "X"])
    r = rng.random()
    if r < 0.2:
        return ("not", _random_structure(rng, d - 1))
    kind = "and" if r < 0.6 else "or"
    deep = _random_structure(rng, d - 1)
    other = _random_structure(rng, rng.randrange(d))
    return (kind, deep, other) if rng.random() < 0.5 else (kind, other, deep)


NOTS = ["not ", "! ", "!"]


def _instantiate(st, scheme, L, counter, rng=None):
    """structure + spelling scheme -> concrete tree.
    scheme = (and, or, not | None (rotate), Xcat) or 'mixed' (every choice from rng)"""
    def go(s):
        if s == "B":
            counter[0] += 1
            return _pick(L, "B", counter[0])
        if s == "X":
            counter[0] += 1
            cat = scheme[3] if scheme != "mixed" else rng.choice("SWIR")
            return _pick(L, cat, counter[0] * 7 + 3)
        if s[0] == "not":
            if scheme == "mixed":
                sp = rng.choice(NOTS)
            elif scheme[2] is None:
                counter[1] += 1
                sp = NOTS[counter[1] % 3]
            else:
                sp = scheme[2]
            return ("not", sp, go(s[1]))
        if scheme == "mixed":
            sp = rng.choice({"and": ["and", "&&"], "or": ["or", "||"]}[s[0]])
        else:
            sp = scheme[0] if s[0] == "and" else scheme[1]
        return (s[0], sp, go(s[1]), go(s[2]))
    return go(st)


def _subtrees(t):
    yield t
    if isinstance(t, Leaf):
        return
    for c in t[2:]:
        yield from _subtrees(c)


def _size(t):
    return 1 if isinstance(t, Leaf) else 1 + sum(_size(c) for c in t[2:])


def _diagnose(tree, recs):
    """smallest sub-expression that fails on its own -> witness class"""
    best = None
    for sub in sorted((s for s in _subtrees(tree) if not isinstance(s, Leaf)), key=_size):
        expr, seqs = render(sub)
        try:
            v = _judge(expr, _select_both(expr), recs)
        except R.Unspecified:
            continue
        if v is not None:
            best = (expr, seqs, v)
            break
    if best is None:
        return None
    expr, seqs, v = best
    classes = sorted({pair_class(*p) for p in pairs_of(seqs)})
    return expr, classes, v


def check_nesting(pool, recs, L, tier, seed, bad_pairs, paren_limit):
    chk = Check("nesting", "parse_selection (infixNotation), BinaryInfixOperand/UnaryInfixOperand.ast, Topology.select, select_expression",
                bound="", rule="grammar-directed enumeration, smallest first; leaves rotate through every leaf form (offset by seed); "
                               "expressions containing an operator pair already reported by `operator-pairs` are subsumed; non-trivial = selection neither empty nor everything",
                stands_in_for="C12 per-class denotation obligations composed over nesting", exhaustive=True)
    levels = _structures(2)
    if tier == "thorough":
        schemes = [(a, o, n, x) for a in ("and", "&&") for o in ("or", "||") for n in NOTS for x in "SWIR"]
    else:
        schemes = [(a, o, None, x) for a in ("and", "&&") for o in ("or", "||") for x in "SWIR"]
    rng = random.Random(seed * 104729 + 5)
    counter = [seed * 31, seed]
    seen = set()
    cases = []
    n_sub = 0

    def add(tree, full):
        nonlocal n_sub
        s, seqs = render(tree, full)
        if s in seen:
            return 0
        seen.add(s)
        if pairs_of(seqs) & bad_pairs:
            n_sub += 1
            return 0
        cases.append((s, depth(tree), tree))
        return 1

    n_struct = 0
    for lv in levels:
        for st in lv:
            n_struct += 1
            for sc in schemes + ["mixed"]:
                t = _instantiate(st, sc, L, counter, rng)
                add(t, False)
                if tier == "thorough" and sc == "mixed":
                    add(t, True)
    n_d3 = 0
    if tier == "thorough":
        for _ in range(16000):
            st = _random_structure(rng, 3)
            sc = "mixed" if rng.random() < 0.5 else rng.choice(schemes)
            t = _instantiate(st, sc, L, counter, rng)
            n_d3 += add(t, rng.random() < 0.1)
    chk.bound = (f"all {n_struct} trees of nesting depth <= 2 over {{not, and, or}} x leaf slots {{bool keyword, condition}}, each under "
                 f"{len(schemes)} uniform spelling schemes (and|&&) x (or|||) x "
                 + ("(not|! |!)" if tier == "thorough" else "(not,! ,! in rotation)")
                 + " x condition category (symbolic cmp, word cmp, implicit/list/range, regex) + a per-node random scheme"
                 + (f", the latter also fully parenthesised; plus {n_d3} seeded random depth-3 trees (sampled, not exhaustive)" if tier == "thorough" else ", minimal parentheses")
                 + f"; {len(cases)} distinct expressions evaluated, {n_sub} subsumed by an already-reported operator pair")
    cases.sort(key=lambda c: (c[1], len(c[0])))
    # select_expression is evaluated for every expression in thorough, for every third one in quick
    want = [True if tier == "thorough" else (i % 3 == 0) for i in range(len(cases))]
    results = _evaluate_many([c[0] for c in cases], pool, want)
    n_diag = 0
    for (expr, d, tree), res in zip(cases, results):
        try:
            v = _judge(expr, res, recs)
        except R.Unspecified:
            continue
        if v is None:
            n = len(res["select"])
            chk.ok(nontrivial=expr if 0 < n < len(recs) else None, sample={"expr": expr, "n_selected": n})
            continue
        clause, kind, what, obs, exp = v
        wc, inp = f"nesting:{kind}", {"expr": expr}
        if kind == "RecursionError":
            wc = "parentheses:nested:RecursionError"
        elif n_diag < 40:
            n_diag += 1
            dg = _diagnose(tree, recs)
            if dg is not None:
                small, classes, v2 = dg
                clause, kind, what, obs, exp = v2
                inp = {"expr": small}
                wc = classes[0] if len(classes) == 1 else f"nesting:{kind}:" + "+".join(c.replace("precedence:", "") for c in classes[:3])
        chk.fail(clause, wc, what, inp, observed=obs, expected=exp)
    return chk


# --------------------------------------------------------------------------------------------------
# malformed strings
# --------------------------------------------------------------------------------------------------
def malformed_strings(seed, L, n=300):
    rng = random.Random(seed * 15485863 + 11)
    good = [lf.text for cat in "BSWIR" for lf in L[cat]]

    def g():
        return good[rng.randrange(len(good))]

    out = [("", "empty"), (" ", "empty"), ("\t\n", "empty"), ("()", "empty-parentheses"), ("( )", "empty-parentheses"),
           ("(())", "empty-parentheses"),
           ("and", "operator-alone"), ("or", "operator-alone"), ("&&", "operator-alone"), ("||", "operator-alone"), ("not", "operator-alone"),
           ("!", "operator-alone"), ("==", "operator-alone"), ("=~", "operator-alone"), ("to", "operator-alone"), ("<", "operator-alone"),
           ("CA", "single-literal"), ("5", "single-literal"), ("'x'", "single-literal"), ("5.5", "single-literal"), ('"ALA"', "single-literal"),
           ("(CA)", "single-literal"), ("foo", "single-literal"),
           ("1 < 2", "literal-comparison"), ("CA == CB", "literal-comparison"), ("'a' eq 'a'", "literal-comparison"), ("5 != 6", "literal-comparison"),
           ("CA =~ 'C.*'", "literal-comparison"), ("foo == 1", "unknown-keyword"), ("foo 1", "unknown-keyword"), ("foo 1 to 5", "unknown-keyword"),
           ("foo CA CB", "unknown-keyword"), ("atomname CA", "unknown-keyword"), ("resnum 5", "unknown-keyword"), ("foo =~ 'C.*'", "unknown-keyword"),
           ("protein and foo", "literal-as-truth"), ("foo or water", "literal-as-truth"), ("protein and CA", "literal-as-truth"),
           ("5 or water", "literal-as-truth"), ("not CA", "literal-as-truth"), ("! 5", "literal-as-truth"), ("'x' && all", "literal-as-truth"),
           ("resid 1 to", "broken-range"), ("resid to 5", "broken-range"), ("to 5", "broken-range"), ("1 to 5", "broken-range"),
           ("resid 1 to to 5", "broken-range"), ("resid 1 to 5 to 9", "broken-range"), ("mass to", "broken-range"), ("resid 1 to 5 7", "broken-range"),
           ("resid = 1", "bad-token"), ("resid === 1", "bad-token"), ("resid =< 1", "bad-token"), ("resid => 1", "bad-token"),
           ("resid <> 1", "bad-token"), ("protein & water", "bad-token"), ("protein | water", "bad-token"), ("name @CA", "bad-token"),
           ("resid #1", "bad-token"), ("protein; water", "bad-token"), ("resid 1..5 x", "bad-token"), ("name CA,CB", "bad-token"),
           ("resid 1 - 5", "bad-token"), ("name 'CA", "unterminated-quote"), ('name "CA', "unterminated-quote"), ("name == 'CA\"", "unterminated-quote"),
           ("resid 1 $", "bad-token"), ("protein ~ water", "bad-token"), ("resid [1, 2]", "bad-token"), ("{protein}", "bad-token")]
    templates = [
        (lambda a, b: f"({a}", "unbalanced-parenthesis"), (lambda a, b: f"{a})", "unbalanced-parenthesis"),
        (lambda a, b: f"(({a})", "unbalanced-parenthesis"), (lambda a, b: f"({a}))", "unbalanced-parenthesis"),
        (lambda a, b: f"({a} and ({b})", "unbalanced-parenthesis"), (lambda a, b: f"{a}) or ({b}", "unbalanced-parenthesis"),
        (lambda a, b: f"){a}(", "unbalanced-parenthesis"),
        (lambda a, b: f"{a} and", "dangling-operator"), (lambda a, b: f"{a} or", "dangling-operator"), (lambda a, b: f"{a} &&", "dangling-operator"),
        (lambda a, b: f"{a} ||", "dangling-operator"), (lambda a, b: f"and {a}", "dangling-operator"), (lambda a, b: f"or {a}", "dangling-operator"),
        (lambda a, b: f"&& {a}", "dangling-operator"), (lambda a, b: f"|| {a}", "dangling-operator"), (lambda a, b: f"({a}) not", "dangling-operator"),
        (lambda a, b: f"({a}) !", "dangling-operator"), (lambda a, b: f"({a} and) {b}", "dangling-operator"),
        (lambda a, b: f"{a} and and {b}", "doubled-operator"), (lambda a, b: f"{a} or or {b}", "doubled-operator"),
        (lambda a, b: f"{a} && || {b}", "doubled-operator"), (lambda a, b: f"{a} and or {b}", "doubled-operator"),
        (lambda a, b: f"{a} || && {b}", "doubled-operator"),
        (lambda a, b: f"({a}) ({b})", "missing-connective"), (lambda a, b: f"({a}) protein", "missing-connective"),
        (lambda a, b: f"({a}) == ", "dangling-operator"), (lambda a, b: f"({a}) and ()", "empty-parentheses"),
    ]
    cmp_templates = [
        (lambda k, o: f"{k} {o}", "dangling-operator"), (lambda k, o: f"{o} {k}", "dangling-operator"),
        (lambda k, o: f"{k} {o} {o} 1", "doubled-operator"), (lambda k, o: f"{k} {o} and protein", "dangling-operator"),
        (lambda k, o: f"{k} {o} )", "unbalanced-parenthesis"),
    ]
    i = 0
    while len(out) < n:
        if i % 3 == 2:
            f, cat = cmp_templates[(i // 3) % len(cmp_templates)]
            k = (NUM_KW + STR_KW)[rng.randrange(len(NUM_KW + STR_KW))]
            o = (SYM_OPS + WORD_OPS + ["=~"])[rng.randrange(13)]
            s = f(k, o)
        else:
            f, cat = templates[i % len(templates)]
            s = f(g(), g())
        i += 1
        if all(s != t for t, _ in out):
            out.append((s, cat))
    return out[:n]


def check_malformed(pool, recs, L, seed):
    chk = Check("malformed", "parse_selection.__call__ error paths, Topology.select",
                bound="300 strings outside the documented language: 70 fixed (empty, lone operators, single literals, literal-literal "
                      "comparisons, unknown keywords, literals as truth values, broken ranges, undefined tokens, unterminated quotes) + 230 "
                      "seeded mutations of well-formed leaves (unbalanced parentheses, dangling / doubled operators, missing connective)",
                rule="each string is first confirmed malformed by the reference parser (Malformed raised); contract: select raises",
                stands_in_for="C12 malformed-input obligation (every ParseException / literal-only case ends in an error)")
    cases = []
    for s, cat in malformed_strings(seed, L):
        try:
            R.evaluate(s, recs)
        except R.Malformed:
            cases.append((s, cat))
        except R.Unspecified:
            continue
        # strings the reference accepts are not malformed: dropped (generator artefact)
    results = _evaluate_many([c[0] for c in cases], pool)
    for (s, cat), res in zip(cases, results):
        if "select_exc" in res and "source_exc" in res:
            chk.ok(nontrivial=cat, sample={"expr": s, "raised": res["select_exc"][:60]})
        else:
            which = "select" if "select_exc" not in res else "select_expression"
            chk.fail("malformed-rejected", f"malformed:{cat}", f"{which}({s!r}) does not raise: returned {res.get('select', res.get('source'))!r}",
                     {"expr": s, "malformed": True}, observed=res.get("select", res.get("source")), expected="an exception")
    return chk


# --------------------------------------------------------------------------------------------------
def check_history(recs):
    """select is an observer of the CURRENT topology: repeat a selection after in-place edits made through public
    attributes (atom/residue names, residue numbers, segment ids) and compare with the reference on the edited records"""
    import copy as _copy
    chk = Check("history-after-in-place-edits", "Topology.select (repeated on one object with edits in between)",
                bound="fixture topology; 6 selection strings; 4 in-place edits (rename atom, rename residue, renumber residue, set segment id); "
                      "select before, edit, same string again",
                rule="exhaustive over strings x edits; non-trivial = the edit changes the reference answer", exhaustive=True)
    global _TOP, _RECS
    strings = ["name CA", "resname ALA", "resSeq 1 to 2", "water and name O", "protein", "segment_id SOLV"]
    edits = ["rename-atom", "rename-residue", "renumber-residue", "set-segment"]
    for e in edits:
        for sel in strings:
            _TOP = None
            top, recs0 = fixture_topology()
            recs2 = _copy.deepcopy(recs0)
            try:
                first = sorted(int(i) for i in top.select(sel))
            except Exception:
                continue
            res = top.residue(0)
            if e == "rename-atom":
                a = next(a for a in top.atoms if a.name == "CA")
                a.name = "QX"
                recs2[a.index]["name"] = "QX"
                if recs2[a.index].get("backbone"):
                    recs2[a.index]["backbone"], recs2[a.index]["sidechain"] = False, recs2[a.index]["protein"]
            elif e == "rename-residue":
                res.name = "HOH"
                for r in recs2:
                    if r["resid"] == 0:
                        r.update(resname="HOH", protein=False, water=True, backbone=False, sidechain=False, rescode=None)
            elif e == "renumber-residue":
                res.resSeq = res.resSeq + 100
                for r in recs2:
                    if r["resid"] == 0:
                        r["resSeq"] = r["resSeq"] + 100
            else:
                res.segment_id = "SOLV"
                for r in recs2:
                    if r["resid"] == 0:
                        r["segment_id"] = "SOLV"
            want = R.evaluate(sel, recs2)
            if not isinstance(want, list):
                continue
            got = sorted(int(i) for i in top.select(sel))
            inp = {"expr": sel, "edit": e, "history": True}
            if got != sorted(want):
                chk.fail("select-reflects-in-place-edits", f"repeat-after:{e}", f"select({sel!r}) repeated after {e} returns {got[:8]}..., the edited topology's answer is {sorted(want)[:8]}...",
                         inp, observed=got[:20], expected=sorted(want)[:20])
            else:
                chk.ok(nontrivial=(e, sel) if sorted(want) != first else None, sample=inp)
    _TOP = None
    return chk


def run(tier, seed, hint):
    top, recs = fixture_topology()
    c_hist = check_history(recs)
    top, recs = fixture_topology()
    L = leaves()
    workers = min(16, os.cpu_count() or 1)
    with ProcessPoolExecutor(max_workers=workers) as pool:
        c1, bad_leaves = check_leaf_forms(pool, recs, L, tier)
        if bad_leaves:  # leaves that fail on their own are not reused as operands (same finding)
            L = {cat: ([lf for lf in lfs if lf.text not in bad_leaves] or lfs) for cat, lfs in L.items()}
        c2, bad = check_operator_pairs(pool, recs, L, seed)
        c5, paren_limit = check_paren_depth(pool, recs, L, seed, set(bad))
        c3 = check_nesting(pool, recs, L, tier, seed, set(bad), paren_limit)
        c4 = check_malformed(pool, recs, L, seed)
    return [c1, c2, c5, c3, c4, c_hist]


def replay(payload):
    inp = payload.get("input") or payload.get("failing_input")
    if inp.get("history"):
        chk = check_history(None)
        fl = [f for f in chk.failures if f["input"].get("edit") == inp.get("edit")]
        return {"reproduced": bool(fl), "failures": fl[:3]}
    top, recs = fixture_topology()
    expr = inp["expr"]
    res = _select_both(expr)
    if inp.get("malformed"):
        rep = not ("select_exc" in res and "source_exc" in res)
        return {"reproduced": rep, "expr": expr, "observed": res}
    v = _judge(expr, res, recs)
    return {"reproduced": v is not None, "expr": expr, "violation": None if v is None else {"clause": v[0], "what": v[2]},
            "observed": res.get("select", res.get("select_exc")), "expected": R.evaluate(expr, recs)}
