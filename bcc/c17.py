"""C17 bounded contract check: unit-cell lengths/angles and box vectors describe the same cell.

Oracle: /verif/specs/unitcell.py (Gram matrix of the cell, Cholesky factor as the standard orientation,
a*b*c*sqrt(D) as the volume) -- none of it taken from mdtraj.

Tolerances (derived, stated once here and used everywhere below)
----------------------------------------------------------------
REL64 = 1e-9   float64 evaluation: ~10 flops on O(1..10) numbers, 2e-16 each, and deg->rad with a rounded pi;
                 1e-9 leaves > 5 orders of magnitude.
REL32 = 1e-4   float32 evaluation / float32-stored lengths and angles (eps32 = 1.2e-7; ~10 flops -> ~1e-6;
                 1e-4 is the tolerance stated in the design, two orders above the rounding).
SNAP  = 1e-6   lengths_and_angles_to_box_vectors documents "components that are almost 0 are set exactly
                 to 0" with 1e-6: every reported component may differ from the exact one by < 1e-6 (absolute,
                 nm).  It enters a dot product v_i.v_j as  sqrt(3)*SNAP*(|v_i|+|v_j|).
All comparisons are made on well-conditioned quantities: dot products v_i.v_j against
|v_i||v_j| cos(angle) (tolerance REL*|v_i||v_j| + snap term), and angles in degrees with the tolerance
propagated through arccos:  d(angle) = d(cos)/sin(angle).  Cells are restricted to lengths in [0.5, 20] nm
(so that SNAP is far below the lengths) and to height ratio sqrt(D)/sin(gamma) >= 0.02 (so that the
cancellation in c_z^2 = c^2 - c_x^2 - c_y^2, which loses a factor 1/ratio^2 = 2500 of eps32 = 3e-4 relative in
c_z, leaves c_z positive and the *dot products* at full precision; volumes are therefore compared relative
to a*b*c with the conditioning factor 1/ratio made explicit).
"""
import itertools
import os

import numpy as np

import mdtraj as md
from bcc.api import Check
from bcc.fixtures import Scratch, make_topology
from mdtraj.utils import unitcell as uc
from specs import unitcell as S

REL64, REL32, SNAP = 1e-9, 1e-4, 1e-6
MIN_RATIO = 0.02
TET = float(np.degrees(np.arccos(-1.0 / 3.0)))  # 109.4712206...
TET2 = float(np.degrees(np.arccos(1.0 / 3.0)))  # 70.5287794...


# ------------------------------------------------------------------------------------------------
# cell families
# ------------------------------------------------------------------------------------------------
def families(tier):
    F = {}
    F["cubic"] = [(L, L, L, 90.0, 90.0, 90.0) for L in (1.0, 2.5, 7.3)]
    F["orthorhombic"] = [(2.0, 3.0, 4.5, 90.0, 90.0, 90.0), (6.25, 0.75, 3.5, 90.0, 90.0, 90.0)]
    F["monoclinic"] = [(2.0, 3.1, 4.3, 90.0, be, 90.0) for be in (75.0, 100.0, 110.0)] + \
                      [(2.0, 3.1, 4.3, al, 90.0, 90.0) for al in (75.0, 110.0)] + \
                      [(2.0, 3.1, 4.3, 90.0, 90.0, ga) for ga in (75.0, 110.0)]
    F["hexagonal"] = [(3.0, 3.0, 5.0, 90.0, 90.0, 120.0), (3.0, 3.0, 5.0, 90.0, 90.0, 60.0),
                      (3.0, 5.0, 3.0, 90.0, 120.0, 90.0), (5.0, 3.0, 3.0, 60.0, 90.0, 90.0)]
    F["truncated-octahedron"] = [(4.0, 4.0, 4.0, TET, TET, TET), (4.0, 4.0, 4.0, TET2, TET, TET2)]
    F["rhombic-dodecahedron"] = [(4.0, 4.0, 4.0, 60.0, 60.0, 90.0), (4.0, 4.0, 4.0, 60.0, 60.0, 60.0),
                                 (4.0, 4.0, 4.0, 60.0, 90.0, 60.0), (4.0, 4.0, 4.0, 90.0, 60.0, 60.0)]
    step = 15.0 if tier == "quick" else 7.5
    grid = np.arange(45.0, 135.0 + 1e-9, step)
    tri = []
    for al, be, ga in itertools.product(grid, repeat=3):
        c = (2.0, 3.1, 4.3, float(al), float(be), float(ga))
        if S.positivity(c) > 0 and S.height_ratio(c) >= 0.1:
            tri.append(c)
    F["triclinic-grid"] = tri
    nd = []
    for c in [(2.0, 3.1, 4.3, 60.0, 60.0, 119.0), (2.0, 3.1, 4.3, 119.0, 60.0, 60.0), (2.0, 3.1, 4.3, 120.0, 120.0, 119.0),
              (4.3, 2.0, 3.1, 45.0, 46.0, 90.0), (12.0, 0.6, 19.0, 100.0, 30.0, 128.0), (3.0, 3.0, 3.0, 119.9, 119.9, 119.9),
              (2.0, 3.1, 4.3, 60.0, 60.0, 119.9), (2.0, 3.1, 4.3, 119.9, 60.0, 60.0), (2.0, 3.1, 4.3, 60.0, 119.9, 60.0),
              (2.0, 3.1, 4.3, 120.0, 120.0, 119.9), (2.0, 3.1, 4.3, 119.95, 120.0, 120.0), (4.3, 2.0, 3.1, 45.0, 45.05, 90.0),
              (4.3, 2.0, 3.1, 90.0, 45.0, 45.05), (3.0, 3.0, 3.0, 119.99, 119.99, 119.99), (5.0, 5.0, 5.0, 30.0, 30.0, 59.9),
              (5.0, 5.0, 5.0, 135.0, 135.0, 89.9)]:
        assert S.positivity(c) > 0 and MIN_RATIO <= S.height_ratio(c) < 0.21, c
        nd.append(c)
    F["near-degenerate"] = nd
    return F


def rotations(seed, n):
    rng = np.random.RandomState(1000 + seed)
    Rs = [("identity", np.eye(3)),
          ("cyclic-xyz", np.array([[0.0, 1, 0], [0, 0, 1], [1, 0, 0]])),
          ("flip-x", np.diag([1.0, -1, -1])),
          ("flip-z", np.diag([-1.0, -1, 1])),
          # proper rotation (180 degrees about (1,-1,0)) that makes EVERY component of a standard-orientation box with
          # angles <= 90 non-positive -- a legal description that sign-sensitive code mistakes for "no box"
          ("half-turn-about-(1,-1,0)", np.array([[0.0, -1, 0], [-1, 0, 0], [0, 0, -1]]))]
    for i in range(n):
        Rs.append((f"random", S.random_rotation(rng)))
    return Rs


# ------------------------------------------------------------------------------------------------
# contracts
# ------------------------------------------------------------------------------------------------
def _t(c):
    return tuple(round(float(x), 6) for x in c)


def _cond(family):
    """witness class component: conditioning of the cell family (a defect that only shows on nearly flat cells is a different finding)"""
    return "near-degenerate" if family == "near-degenerate" else "well-conditioned"


def _rel(dtype):
    return REL32 if np.dtype(dtype) == np.float32 else REL64


def gram_violations(v, cell, rel, snap=SNAP):
    """v: (3,3) reported vectors; cell: 6 numbers.  Returns list of (clause, observed, expected, tol)."""
    v = np.asarray(v, dtype=np.float64)
    out = []
    if v.shape != (3, 3) or not np.all(np.isfinite(v)):
        return [("vectors-finite", v.tolist(), "finite (3,3)", 0)]
    G, Gs = S.gram_of_vectors(v), S.gram(cell)
    n = np.sqrt(np.diag(Gs))
    names = {(0, 0): "length-a", (1, 1): "length-b", (2, 2): "length-c", (1, 2): "angle-alpha", (0, 2): "angle-beta", (0, 1): "angle-gamma"}
    for (i, j), nm in names.items():
        tol = rel * n[i] * n[j] + np.sqrt(3) * snap * (n[i] + n[j]) + 3 * snap * snap
        if abs(G[i, j] - Gs[i, j]) > tol:
            if i == j:
                out.append((nm, float(np.sqrt(G[i, i])), float(n[i]), float(tol / (2 * n[i]))))
            else:
                li, lj = np.sqrt(G[i, i]), np.sqrt(G[j, j])
                obs = float(np.degrees(np.arccos(np.clip(G[i, j] / (li * lj), -1, 1))))
                out.append((nm, obs, float(cell[3 + {(1, 2): 0, (0, 2): 1, (0, 1): 2}[(i, j)]]), f"|dot-dot*|<={tol:.3g}"))
    return out


def orientation_violations(v):
    """standard orientation: v1 = (+,0,0), v2 = (.,+,0), v3 = (.,.,+)"""
    v = np.asarray(v, dtype=np.float64)
    out = []
    if not (v[0, 0] > 0 and v[0, 1] == 0 and v[0, 2] == 0):
        out.append(("orientation-v1-along-x", v[0].tolist(), "(+,0,0)", 0))
    if not (v[1, 1] > 0 and v[1, 2] == 0):
        out.append(("orientation-v2-in-xy-plane", v[1].tolist(), "(.,+,0)", 0))
    if not (v[2, 2] > 0):
        out.append(("orientation-v3-positive-z", v[2].tolist(), "(.,.,+)", 0))
    return out


def angle_tol_deg(cell, k, rel):
    """tolerance on angle k (0 alpha,1 beta,2 gamma) in degrees: d(cos) = rel  =>  d(angle) = rel/sin(angle)"""
    s = np.sqrt(max(1e-12, 1.0 - float(S.cosd(cell[3 + k])) ** 2))
    return float(np.degrees(rel / s))


def la_violations(obs_l, obs_a, cell, rel):
    out = []
    obs_l, obs_a = np.asarray(obs_l, dtype=np.float64), np.asarray(obs_a, dtype=np.float64)
    for k, nm in enumerate("abc"):
        if not abs(obs_l[k] - cell[k]) <= rel * cell[k]:
            out.append((f"length-{nm}", float(obs_l[k]), float(cell[k]), rel * cell[k]))
    for k, nm in enumerate(("alpha", "beta", "gamma")):
        tol = angle_tol_deg(cell, k, rel)
        if not abs(obs_a[k] - cell[3 + k]) <= tol:
            out.append((f"angle-{nm}", float(obs_a[k]), float(cell[3 + k]), tol))
    return out


def volume_tol(cell, rel):
    """|V - V*| <= rel * a*b*c / ratio   (ratio = c_z/c: the conditioning of c_z, see module docstring)"""
    return float(rel * cell[0] * cell[1] * cell[2] / max(S.height_ratio(cell), MIN_RATIO))


# ------------------------------------------------------------------------------------------------
# check A: the two conversion functions
# ------------------------------------------------------------------------------------------------
def eval_la2b(cells, dtype, form):
    """returns (n,3,3) reported vectors for the given cells"""
    cells = np.asarray(cells, dtype=np.float64)
    if form == "scalar":
        out = []
        for c in cells:
            args = [np.dtype(dtype).type(x) for x in c] if dtype != "pyfloat" else [float(x) for x in c]
            v = uc.lengths_and_angles_to_box_vectors(*args)
            out.append(np.array([np.asarray(x) for x in v]))
        return np.array(out)
    arr = cells.astype(dtype)
    v1, v2, v3 = uc.lengths_and_angles_to_box_vectors(*[arr[:, k] for k in range(6)])
    return np.stack([v1, v2, v3], axis=1)


def eval_b2la(vecs, dtype, form):
    vecs = np.asarray(vecs).astype(dtype)
    if form == "scalar":
        out = [uc.box_vectors_to_lengths_and_angles(v[0], v[1], v[2]) for v in vecs]
        return np.array(out, dtype=np.float64)
    r = uc.box_vectors_to_lengths_and_angles(vecs[:, 0], vecs[:, 1], vecs[:, 2])
    return np.array(r, dtype=np.float64).T


def check_functions(tier, seed, only=None):
    fam = families(tier)
    nrot = 3 if tier == "quick" else 12
    Rs = rotations(seed, nrot)
    if only and only.get("R") is not None:
        R0 = np.array(only["R"], dtype=np.float64)
        Rs = [("identity" if np.allclose(R0, np.eye(3)) else "replayed", R0)]
    ncell = sum(len(v) for v in fam.values())
    chk = Check("conversion-functions", "mdtraj.utils.unitcell.lengths_and_angles_to_box_vectors / box_vectors_to_lengths_and_angles",
                bound=f"{ncell} cells in families {[(k, len(v)) for k, v in fam.items()]} (lengths in [0.6,19] nm, angles 30..135 deg, "
                      f"height ratio >= {MIN_RATIO}); dtype in (float32, float64, python float); scalar and (n,)-array call forms; "
                      f"{len(Rs)} proper rotations (identity, cyclic axis permutation, two 180-degree flips, {nrot} Haar-random from seed) "
                      f"of the exact float64 standard vectors, then cast to dtype",
                rule="exhaustive over the listed cells x dtypes x forms x rotations; non-trivial = cell with three distinct angles "
                     "(angle-naming mix-ups invisible otherwise)",
                stands_in_for="NRA obligations on la2b/b2la evaluated in reals; this evaluates them in float32/float64 with the 1e-6 snapping",
                exhaustive=True)
    for name, cells in fam.items():
        cells = np.array(cells)
        for dtype in ("float32", "float64", "pyfloat"):
            for form in ("scalar", "array"):
                if dtype == "pyfloat" and form == "array":
                    continue
                if only and (only.get("fn") != "la2b" or only["family"] != name or only["dtype"] != dtype or only["form"] != form):
                    continue
                rel = REL32 if dtype == "float32" else REL64
                inp = {"fn": "la2b", "family": name, "dtype": dtype, "form": form, "tier": tier}
                try:
                    V = eval_la2b(cells, dtype, form)
                except Exception as e:
                    chk.fail("raises", f"la2b:{dtype}:{form}:{_cond(name)}:{type(e).__name__}", f"lengths_and_angles_to_box_vectors raised {type(e).__name__}: {e}", inp)
                    continue
                for c, v in zip(cells, V):
                    bad = gram_violations(v, c, rel) + (orientation_violations(v) if np.all(np.isfinite(v)) else [])
                    if bad:
                        cl, o, e, tol = bad[0]
                        chk.fail(cl, f"la2b:{dtype}:{_cond(name)}", f"lengths_and_angles_to_box_vectors{_t(c)} [{name}] as {dtype} ({form}): {cl}: {o} vs {e} (tol {tol})",
                                 dict(inp, cell=list(map(float, c))), observed=np.asarray(v, dtype=float), expected=S.standard_vectors(c))
                    else:
                        chk.ok(nontrivial=(tuple(c), dtype, form) if len({c[3], c[4], c[5]}) == 3 else None,
                               sample={"cell": list(map(float, c)), "dtype": dtype, "form": form})
        # inverse direction on rotated descriptions
        Vstd = S.standard_vectors(cells)  # (n,3,3) float64, exact to 1e-16
        for (rname, R) in Rs:
            Vrot = Vstd @ R.T
            for dtype in ("float32", "float64"):
                for form in ("scalar", "array"):
                    if only and (only.get("fn") != "b2la" or only["family"] != name or only["dtype"] != dtype or only["form"] != form
                                 or not np.allclose(only["R"], R)):
                        continue
                    rel = _rel(dtype)
                    inp = {"fn": "b2la", "family": name, "dtype": dtype, "form": form, "R": R.tolist(), "tier": tier}
                    try:
                        LA = eval_b2la(Vrot, dtype, form)
                    except Exception as e:
                        chk.fail("raises", f"b2la:{dtype}:{form}:{_cond(name)}:{type(e).__name__}", f"box_vectors_to_lengths_and_angles raised {type(e).__name__}: {e}", inp)
                        continue
                    for c, la in zip(cells, LA):
                        bad = la_violations(la[:3], la[3:], c, rel)
                        if bad:
                            cl, o, e, tol = bad[0]
                            chk.fail(cl, f"b2la:{dtype}:{_cond(name)}:{'rotated' if rname != 'identity' else 'standard'}",
                                     f"box_vectors_to_lengths_and_angles on the {rname}-rotated vectors of cell {_t(c)} [{name}] ({dtype},{form}): {cl}: {o} vs {e} (tol {tol})",
                                     dict(inp, cell=list(map(float, c))), observed=la, expected=c)
                        else:
                            chk.ok(nontrivial=(tuple(c), dtype, form, rname) if len({c[3], c[4], c[5]}) == 3 and rname != "identity" else None)
    return chk


# ------------------------------------------------------------------------------------------------
# check B: Trajectory getters / setters
# ------------------------------------------------------------------------------------------------
def _traj(F, cells=None, n_atoms=3):
    xyz = np.zeros((F, n_atoms, 3), dtype=np.float32)
    xyz[:, :, 0] = np.arange(F)[:, None] + 0.25 * np.arange(n_atoms)[None, :]
    top = make_topology(n_atoms)
    kw = {}
    if cells is not None:
        cells = np.asarray(cells, dtype=np.float64)
        kw = dict(unitcell_lengths=cells[:, :3].copy(), unitcell_angles=cells[:, 3:].copy())
    return md.Trajectory(xyz, top, time=np.arange(F, dtype=np.float32) * 2.0 + 1.0, **kw)


def batches(tier, seed):
    """per-frame varying trajectories: each family as one trajectory (frame i = cell i), all families
    concatenated in a seed-dependent order, and every window of 1 and 3 consecutive cells of that order
    (F = 1 and F = 3 are the shapes where frame and vector axes can be confused)."""
    fam = families(tier)
    out = [(name, np.array(cells)) for name, cells in fam.items()]
    allc = np.concatenate([np.array(c) for c in fam.values()])
    perm = np.random.RandomState(seed).permutation(len(allc))
    allc = allc[perm]
    out.append(("all-shuffled", allc))
    stepw = 7 if tier == "quick" else 1
    for i in range(0, len(allc) - 2, stepw):
        out.append(("window3", allc[i:i + 3]))
        out.append(("window1", allc[i:i + 1]))
    return out


def traj_cell_violations(t, cells, rel, what):
    """t must report, frame by frame, a complete cell equal to `cells`; returns (clause, frame, obs, exp, tol) or None"""
    F = len(cells)
    L, A = t.unitcell_lengths, t.unitcell_angles
    if L is None or A is None:
        return ("cell-missing", None, [L is not None, A is not None], "lengths and angles", 0)
    if np.shape(L) != (F, 3) or np.shape(A) != (F, 3):
        return ("cell-shape", None, [list(np.shape(L)), list(np.shape(A))], [F, 3], 0)
    V = t.unitcell_vectors
    if V is None or np.shape(V) != (F, 3, 3):
        return ("vectors-shape", None, None if V is None else list(np.shape(V)), [F, 3, 3], 0)
    vol = t.unitcell_volumes
    if vol is None or np.shape(vol) != (F,):
        return ("volumes-shape", None, None if vol is None else list(np.shape(vol)), [F], 0)
    for i in range(F):
        c = cells[i]
        bad = la_violations(L[i], A[i], c, rel)
        if bad:
            return ("stored-" + bad[0][0], i) + tuple(bad[0][1:])
        bad = gram_violations(V[i], c, rel) + orientation_violations(V[i])
        if bad:
            return (bad[0][0], i) + tuple(bad[0][1:])
        # the reported vectors have the *stored* lengths and angles
        stored = np.concatenate([np.asarray(L[i], dtype=np.float64), np.asarray(A[i], dtype=np.float64)])
        if S.positivity(stored) > 0:
            bad = gram_violations(V[i], stored, rel)
            if bad:
                return ("stored-vs-vectors-" + bad[0][0], i) + tuple(bad[0][1:])
        # volume == triple product of the reported vectors (float32 det of float32-derived vectors: 10 eps32 |a||b||c|)
        tp = float(S.triple_product(V[i]))
        abc = float(c[0] * c[1] * c[2])
        tol_tp = (1e-5 if np.asarray(V).dtype == np.float32 else 1e-12) * abc
        if not abs(float(vol[i]) - tp) <= tol_tp:
            return ("volume-triple-product", i, float(vol[i]), tp, tol_tp)
        if not abs(float(vol[i]) - float(S.volume(c))) <= volume_tol(c, rel) + np.sqrt(3) * SNAP * abc * (1 / c[0] + 1 / c[1] + 1 / c[2]) / max(S.height_ratio(c), MIN_RATIO):
            return ("volume-cell", i, float(vol[i]), float(S.volume(c)), volume_tol(c, rel))
        if not vol[i] > 0:
            return ("volume-positive", i, float(vol[i]), "> 0", 0)
    return None


def check_trajectory(tier, seed, only=None):
    nrot = 2 if tier == "quick" else 8
    Rs = rotations(seed, nrot)
    bs = batches(tier, seed)
    chk = Check("trajectory-cell-accessors", "Trajectory.unitcell_lengths/angles/vectors/volumes getters and setters",
                bound=f"{len(bs)} per-frame-varying trajectories (each family as one trajectory, all {len(bs[-1]) and sum(len(c) for n, c in bs[:len(families(tier))])} cells shuffled by seed, "
                      f"windows of 3 and of 1 consecutive cells); route 'la' (lengths/angles given to the constructor in float64, stored by mdtraj in float32) "
                      f"and route 'vectors' (unitcell_vectors = exact standard vectors rotated by each of {len(Rs)} proper rotations, float32 and float64)",
                rule="exhaustive over the listed trajectories x routes x rotations x dtypes; every frame checked separately; "
                     "non-trivial = trajectory with >= 2 distinct cells",
                stands_in_for="float32 storage of lengths/angles and the dstack/swapaxes frame bookkeeping of the getter", exhaustive=True)
    for bi, (bname, cells) in enumerate(bs):
        F = len(cells)
        routes = [("la", None, None, None)] + [("vectors", rn, R, dt) for rn, R in Rs for dt in ("float32", "float64")]
        for route, rname, R, dtype in routes:
            inp = {"check": "trajectory", "batch": bi, "batch_name": bname, "route": route, "dtype": dtype,
                   "R": None if R is None else R.tolist(), "tier": tier, "seed": seed}
            if only and (only["batch"] != bi or only["route"] != route or only["dtype"] != dtype
                         or (R is not None and not np.allclose(only["R"], R))):
                continue
            try:
                if route == "la":
                    t = _traj(F, cells)
                    rel = REL32
                else:
                    t = _traj(F, None)
                    t.unitcell_vectors = (S.standard_vectors(cells) @ R.T).astype(dtype)
                    rel = _rel(dtype)
                bad = traj_cell_violations(t, cells, rel, route)
            except Exception as e:
                chk.fail("raises", f"Trajectory:{route}:{bname if bname.startswith('window') else 'family'}:{type(e).__name__}",
                         f"route {route} on batch {bname} raised {type(e).__name__}: {e}", inp)
                continue
            if bad:
                cl, fr, o, e, tol = bad
                shape = "F=1" if F == 1 else ("F=3" if F == 3 else "F>3")
                chk.fail(cl, f"Trajectory:{route}{'' if dtype is None else ':' + dtype}:{shape}",
                         f"batch {bname} (F={F}) route {route} {rname or ''} {dtype or ''}: frame {fr} cell {None if fr is None else _t(cells[fr])}: {cl}: {o} vs {e} (tol {tol})",
                         dict(inp, frame=fr, cell=None if fr is None else list(map(float, cells[fr]))), observed=o, expected=e)
            else:
                chk.ok(nontrivial=(bi, route, rname, dtype) if len({tuple(c) for c in cells}) > 1 else None,
                       sample={"batch": bname, "F": F, "route": route, "dtype": dtype})
    return chk


# ------------------------------------------------------------------------------------------------
# check C: assignment histories
# ------------------------------------------------------------------------------------------------
HF = 3  # frames of the history trajectory (3 on purpose: same as the vector dimension)
H_CELLS = {
    "C1": np.array([(2.0, 3.1, 4.3, 80.0, 95.0, 110.0), (2.5, 3.5, 4.5, 70.0, 100.0, 120.0), (3.0, 3.0, 3.0, 90.0, 90.0, 90.0)]),
    "C2": np.array([(5.0, 6.0, 7.0, 60.0, 60.0, 90.0), (5.5, 6.5, 7.5, TET, TET, TET), (4.0, 4.0, 6.0, 90.0, 90.0, 120.0)]),
}
# every angle triple above is valid on its own, so any combination lengths(Ci) x angles(Cj) is a valid cell


def history_alphabet():
    ops = []
    for k in ("C1", "C2"):
        ops += [("vectors", k), ("lengths", k), ("angles", k)]
    ops += [("vectors", "None"), ("vectors", "zeros"), ("lengths", "None"), ("angles", "None")]
    return ops


def _hist_rot():
    # a fixed proper rotation (not seed dependent: the history space is exhaustive)
    return S.random_rotation(np.random.RandomState(4242))


def apply_history(start, ops):
    """returns (trajectory, model_lengths, model_angles, model_source) or ('setter-raised', exc, index)"""
    t = _traj(HF, H_CELLS["C1"] if start == "cell" else None)
    mL = H_CELLS["C1"][:, :3] if start == "cell" else None
    mA = H_CELLS["C1"][:, 3:] if start == "cell" else None
    R = _hist_rot()
    for i, (field, val) in enumerate(ops):
        if field == "vectors":
            if val == "None":
                v = None
            elif val == "zeros":
                v = np.zeros((HF, 3, 3))
            else:
                v = S.standard_vectors(H_CELLS[val]) @ R.T
            t.unitcell_vectors = v
            if val in ("None", "zeros"):
                mL = mA = None
            else:
                mL, mA = H_CELLS[val][:, :3], H_CELLS[val][:, 3:]
        elif field == "lengths":
            t.unitcell_lengths = None if val == "None" else H_CELLS[val][:, :3].copy()
            mL = None if val == "None" else H_CELLS[val][:, :3]
        else:
            t.unitcell_angles = None if val == "None" else H_CELLS[val][:, 3:].copy()
            mA = None if val == "None" else H_CELLS[val][:, 3:]
    return t, mL, mA


def history_verdict(start, ops):
    """None if fine, else (clause, what, observed, expected)"""
    try:
        t, mL, mA = apply_history(start, ops)
    except Exception as e:
        # an error is an acceptable way of refusing an assignment that would leave a half-set cell;
        # it is a violation only if the refused assignment led to a complete / absent cell
        return ("setter-raises", f"{type(e).__name__}: {e}", None, None, True)
    L, A = t.unitcell_lengths, t.unitcell_angles
    complete = mL is not None and mA is not None
    absent = mL is None and mA is None
    if (L is None) != (mL is None) or (A is None) != (mA is None):
        return ("stored-presence", "which of lengths/angles are set differs from the assignments made", [L is not None, A is not None], [mL is not None, mA is not None])
    if t._have_unitcell != complete:
        return ("have-unitcell", "_have_unitcell disagrees with the assignments", bool(t._have_unitcell), complete)
    if complete:
        cells = np.concatenate([mL, mA], axis=1)
        bad = traj_cell_violations(t, cells, REL32, "history")
        if bad:
            return (bad[0], f"frame {bad[1]}: {bad[0]}", bad[2], bad[3])
        return None
    # half-set or absent: nothing resembling a cell may be visible through the derived accessors
    for acc in ("unitcell_vectors", "unitcell_volumes"):
        try:
            v = getattr(t, acc)
        except Exception:
            continue  # an error is fine
        if v is not None:
            return (f"{'half-set' if not absent else 'absent'}-cell-visible", f"{acc} returned an array although the cell is {'half-set' if not absent else 'absent'}",
                    np.asarray(v), None)
    return None


def _hist_class(ops):
    return ";".join(f"{f}={'value' if v in H_CELLS else v}" for f, v in ops)


def check_histories(tier, seed, only=None):
    Lmax = 3
    alpha = history_alphabet()
    chk = Check("cell-assignment-histories", "Trajectory.unitcell_vectors/unitcell_lengths/unitcell_angles setters, then every cell getter",
                bound=f"start in (no cell, complete cell) x all sequences of length <= {Lmax} over {len(alpha)} assignments "
                      f"(vectors/lengths/angles = one of two per-frame-varying values, None; vectors = zeros), {HF}-frame trajectory",
                rule="exhaustive; after the whole history: complete cell => accessors report the last-assigned values (REL32); "
                     "half-set or absent => unitcell_vectors and unitcell_volumes are None or raise; non-trivial = history ending half-set",
                stands_in_for="setter/getter frame conditions over all assignment histories", exhaustive=True)
    failed = []
    for start in ("none", "cell"):
        for n in range(1, Lmax + 1):
            for ops in itertools.product(alpha, repeat=n):
                if only and (only["start"] != start or [list(o) for o in ops] != only["ops"]):
                    continue
                if any(start == s and _contains(ops, f) for s, f in failed):
                    continue
                r = history_verdict(start, ops)
                inp = {"check": "history", "start": start, "ops": [list(o) for o in ops]}
                if r is None:
                    chk.ok(nontrivial=(start, ops) if _ends_half(start, ops) else None, sample=inp)
                elif r[0] == "setter-raises":
                    if _ends_half_any_prefix(start, ops):
                        chk.ok()
                    else:
                        failed.append((start, ops))
                        chk.fail("setter-raises", f"history:{start}:{_hist_class(ops)}", f"history {ops} from {start}: {r[1]}", inp)
                else:
                    failed.append((start, ops))
                    chk.fail(r[0], f"history:{start}:{_hist_class(ops)}", f"history {ops} from start={start}: {r[1]}", inp, observed=r[2], expected=r[3])
    return chk


def _contains(ops, sub):
    n = len(sub)
    return any(tuple(ops[i:i + n]) == tuple(sub) for i in range(len(ops) - n + 1))


def _model_states(start, ops):
    L = A = (start == "cell")
    out = []
    for f, v in ops:
        if f == "vectors":
            L = A = v in H_CELLS
        elif f == "lengths":
            L = v in H_CELLS
        else:
            A = v in H_CELLS
        out.append((L, A))
    return out


def _ends_half(start, ops):
    L, A = _model_states(start, ops)[-1]
    return L != A


def _ends_half_any_prefix(start, ops):
    return any(L != A for L, A in _model_states(start, ops))


# ------------------------------------------------------------------------------------------------
# check D: cell presence through slice / join / stack / atom_slice / save+load
# ------------------------------------------------------------------------------------------------
OPS_F = 4
P_CELLS = np.array([(2.0, 3.1, 4.3, 80.0, 95.0, 110.0), (2.5, 3.5, 4.5, 70.0, 100.0, 120.0),
                    (3.0, 3.25, 3.5, 90.0, 90.0, 90.0), (4.0, 4.0, 4.0, 60.0, 60.0, 90.0)])
P_ORTHO = np.array([(2.0, 3.1, 4.3, 90.0, 90.0, 90.0), (2.5, 3.5, 4.5, 90.0, 90.0, 90.0),
                    (3.0, 3.25, 3.5, 90.0, 90.0, 90.0), (4.0, 4.0, 4.0, 90.0, 90.0, 90.0)])
KEYS = {"int": 2, "neg-int": -1, "slice": slice(1, 3), "reversed": slice(None, None, -1), "index-list": [0, 2],
        "bool-mask": np.array([True, False, True, True]), "empty-slice": slice(2, 2)}
# (length tol nm, angle tol deg, per-frame cell stored?) from each format's documented precision
FMT_TOL = {
    "h5": (1e-6, 1e-5, True),        # float32 lengths (nm) and angles stored as given
    "nc": (1e-5, 1e-4, True),        # float64 angstrom / degrees, back to float32
    "xtc": (1e-4, 2e-3, True),       # float32 box vectors: d(cos) ~ 1e-6 -> 1e-4 deg; generous
    "trr": (1e-4, 2e-3, True),
    "dcd": (1e-4, 2e-3, True),       # double lengths (angstrom), angles as degrees/cosines in double
    "dtr": (1e-4, 2e-3, True),       # float box vectors
    "lammpstrj": (1e-3, 2e-2, True),  # text, bounds/tilts
    "gro": (2e-5, 2e-3, True),       # box vectors printed with 5 decimals (nm): 5e-6 per component
    "pdb": (1e-3, 1e-2, False),      # CRYST1: %9.3f angstrom, %7.2f degrees; ONE record (first model) -> only frame 0 compared
    "mdcrd": (1e-3, 1e-6, True),     # %8.3f angstrom box lengths, rectilinear only
}
NEEDS_TOP = {"nc", "xtc", "trr", "dcd", "dtr", "lammpstrj", "mdcrd", "xyz"}


def _ptraj(state, ortho=False):
    cells = P_ORTHO if ortho else P_CELLS
    t = _traj(OPS_F, cells if state == "complete" else None, n_atoms=4)
    if state == "lengths-only":
        t.unitcell_lengths = cells[:, :3].copy()
    elif state == "angles-only":
        t.unitcell_angles = cells[:, 3:].copy()
    return t, cells


def op_list(tier):
    ops = [("slice", k) for k in KEYS] + [("slice-nocopy", k) for k in ("slice", "index-list", "int")]
    ops += [("join", None), ("plus", None), ("md.join", None), ("stack", "same"), ("stack", "right-no-cell"),
            ("atom_slice", False), ("atom_slice", True)]
    ops += [("save-load", f) for f in list(FMT_TOL) + ["xyz"]]
    return ops


def eval_op(op, arg, state, d):
    """returns (result trajectory, expected cells or None if no complete cell expected, value tolerances)"""
    ortho = op == "save-load" and arg == "mdcrd"
    t, cells = _ptraj(state, ortho)
    tol = (1e-6, 1e-5)
    frames0 = None
    if op in ("slice", "slice-nocopy"):
        key = KEYS[arg]
        r = t[key] if op == "slice" else t.slice(key, copy=False)
        exp = cells[[key]] if isinstance(key, int) else cells[key]
    elif op == "join":
        r = t.join(_ptraj(state)[0])
        exp = np.concatenate([cells, cells])
    elif op == "plus":
        r = t + _ptraj(state)[0]
        exp = np.concatenate([cells, cells])
    elif op == "md.join":
        r = md.join([t, _ptraj(state)[0], _ptraj(state)[0]])
        exp = np.concatenate([cells, cells, cells])
    elif op == "stack":
        other = _ptraj(state if arg == "same" else "none")[0]
        r = t.stack(other)
        exp = cells
    elif op == "atom_slice":
        r = t.atom_slice([0, 2], inplace=arg)
        if arg:
            r = t
        exp = cells
    elif op == "save-load":
        path = os.path.join(d, f"c17.{arg}")
        if os.path.exists(path):
            (os.remove if os.path.isfile(path) else __import__("shutil").rmtree)(path)
        t.save(path)
        r = md.load(path, top=t.topology) if arg in NEEDS_TOP else md.load(path)
        exp = cells
        if arg in FMT_TOL:
            tol = FMT_TOL[arg][:2]
            if not FMT_TOL[arg][2]:
                frames0 = [0]
    return r, exp, tol, frames0


def check_presence(tier, seed, only=None):
    ops = op_list(tier)
    states = ("complete", "none", "lengths-only", "angles-only")
    chk = Check("cell-presence-through-operations", "Trajectory.slice/__getitem__/join/+/md.join/stack/atom_slice/save+load (cell clauses)",
                bound=f"{len(ops)} operations (7 key kinds incl. empty slice, copy=False, join/+/md.join of 2-3, stack, atom_slice in/out of place, "
                      f"save+load in {list(FMT_TOL) + ['xyz']}) x input cell state in {states}; {OPS_F}-frame trajectory with a different cell in every frame",
                rule="exhaustive; result has a complete per-frame cell (both (F',3), finite, equal to the same numpy indexing/concatenation of the input cell within the "
                     "carrier's printed precision) iff the input had one; an exception for an input without complete cell is acceptable; "
                     "xyz cannot hold a cell and is only used for inputs without one; non-trivial = input with complete or half-set cell",
                stands_in_for="cell clauses of C03 slice/join/stack/atom_slice and C01 savers/loaders", exhaustive=True)
    with Scratch("c17") as d:
        for state in states:
            for op, arg in ops:
                if only and (only["op"] != op or only["arg"] != arg or only["state"] != state):
                    continue
                if op == "save-load" and arg == "xyz" and state == "complete":
                    continue  # carrier cannot hold a cell
                if op == "stack" and arg == "right-no-cell" and state != "complete":
                    continue
                inp = {"check": "presence", "op": op, "arg": arg, "state": state}
                wc = f"{op}{'' if arg is None else ':' + str(arg)}:{state}"
                try:
                    r, exp, tol, frames0 = eval_op(op, arg, state, d)
                except Exception as e:
                    if state == "complete":
                        chk.fail("raises", wc, f"{op}({arg}) on a trajectory with a complete cell raised {type(e).__name__}: {e}", inp)
                    else:
                        chk.ok()  # refusing an input without a (complete) cell is a clear error, not a silent wrong answer
                    continue
                L, A = r.unitcell_lengths, r.unitcell_angles
                got = L is not None and A is not None
                if state != "complete":
                    half_out = (L is None) != (A is None)
                    if got:
                        chk.fail("cell-presence", wc, f"{op}({arg}): input had {'no' if state == 'none' else 'a half-set (' + state + ')'} cell, result reports a complete cell",
                                 inp, observed={"lengths": np.asarray(L), "angles": np.asarray(A)}, expected="no complete cell")
                    elif r.unitcell_vectors is not None:
                        chk.fail("cell-presence", wc + ":vectors", f"{op}({arg}): result.unitcell_vectors is not None for an input without complete cell", inp)
                    else:
                        chk.ok(nontrivial=(op, str(arg), state) if state != "none" else None, sample=dict(inp, half_set_output=half_out))
                    continue
                Fp = len(r)
                if not got:
                    chk.fail("cell-presence", wc, f"{op}({arg}): input had a complete per-frame cell, result has lengths={L is not None}, angles={A is not None}", inp,
                             observed=[L is not None, A is not None], expected=[True, True])
                    continue
                if np.shape(L) != (Fp, 3) or np.shape(A) != (Fp, 3) or Fp != len(exp):
                    chk.fail("cell-shape", wc, f"{op}({arg}): result has {Fp} frames, lengths {np.shape(L)}, angles {np.shape(A)}; expected {len(exp)} frames", inp,
                             observed=[Fp, list(np.shape(L)), list(np.shape(A))], expected=[len(exp), 3])
                    continue
                bad = None
                for i in (frames0 if frames0 is not None else range(Fp)):
                    dl = np.abs(np.asarray(L[i], dtype=np.float64) - exp[i, :3])
                    da = np.abs(np.asarray(A[i], dtype=np.float64) - exp[i, 3:])
                    if not (np.all(dl <= tol[0] + REL32 * 0 + 1e-6 * exp[i, :3]) and np.all(da <= tol[1] + 1e-5)):
                        bad = (i, np.concatenate([L[i], A[i]]), exp[i])
                        break
                if bad:
                    chk.fail("cell-values", wc, f"{op}({arg}): frame {bad[0]} of the result has cell {bad[1]}, the same numpy indexing of the input gives {bad[2]} "
                                                f"(tol {tol[0]} nm / {tol[1]} deg)", inp, observed=bad[1], expected=bad[2])
                    continue
                V = r.unitcell_vectors
                if Fp and (V is None or np.shape(V) != (Fp, 3, 3) or not np.all(np.isfinite(V))):
                    chk.fail("vectors-shape", wc, f"{op}({arg}): unitcell_vectors of the result is {None if V is None else np.shape(V)}", inp)
                    continue
                chk.ok(nontrivial=(op, str(arg), state), sample=inp)
    # join with a LIST of others: the cell-presence guard must hold for every element
    for self_state, others in (("none", ("none", "complete")), ("none", ("complete", "none")), ("complete", ("complete", "none")), ("complete", ("none", "complete"))):
        t0 = _ptraj(self_state)[0]
        lst = [_ptraj(o)[0] for o in others]
        inp = {"check": "presence", "op": "join-list-mixed", "arg": [self_state, list(others)], "state": self_state}
        try:
            r = t0.join(lst)
        except ValueError:
            chk.ok(nontrivial=("join-list-mixed", self_state, others), sample=inp)
            continue
        except Exception as e:  # any other loud failure is not a silent change of the cell
            chk.ok(nontrivial=("join-list-mixed-raises", type(e).__name__), sample=inp)
            continue
        chk.fail("cell-presence", "join(list):mixed-cell-and-no-cell-accepted",
                 f"join of a {self_state}-cell trajectory with a list {others} was accepted; result has cell={r.unitcell_lengths is not None}",
                 inp, observed=str(r), expected="ValueError")
    return chk


# ------------------------------------------------------------------------------------------------
def run(tier, seed, hint):
    return [check_functions(tier, seed), check_trajectory(tier, seed), check_histories(tier, seed), check_presence(tier, seed)]


def replay(payload):
    inp = payload.get("input") or payload.get("failing_input")
    if "fn" in inp:
        chk = check_functions(inp.get("tier", "quick"), 0, only=inp)
    elif inp.get("check") == "trajectory":
        chk = check_trajectory(inp.get("tier", "quick"), inp.get("seed", 0), only=inp)
    elif inp.get("check") == "history":
        chk = check_histories("quick", 0, only=inp)
    else:
        chk = check_presence("quick", 0, only=inp)
    return {"reproduced": bool(chk.failures), "failures": chk.failures, "evaluations": chk.evaluations}
