"""C03 bounded contract check: slicing, joining, stacking act like array indexing on all fields;
no hidden cached state goes stale; results do not alias inputs; analysis/save functions do not modify their input.

A NumPy *model* of the current trajectory (xyz, time, unitcell lengths/angles, the recipe of atom columns and the
topology view) is carried along every operation sequence and updated with the same NumPy indexing / concatenation
of the inputs; after EVERY step the real object is compared with the model (exactly: the operations of the property
only move numbers, they never compute with them).  Operations that do compute coordinates (center_coordinates, superpose,
make_molecules_whole, image_molecules) are checked against their own light contract (centroid at the origin and
a pure per-frame translation / a rigid motion / other fields untouched) and the model then adopts the observed coordinates.

Tolerances (derived)
 * fields moved by indexing/concatenation: exact (np.array_equal).
 * center_coordinates: coordinates O(1..3 nm) in float32 (ulp 2.4e-7): |centroid| <= 2e-5 nm, translation constant over atoms within 2e-5 nm.
 * superpose: all pair distances of a frame preserved within 1e-4 nm (float32 rotation of O(3 nm) coordinates: ~20 ulp).
 * cached traces: |trace_i - sum_a |x_ia|^2| <= 1e-4 * trace_i + 1e-5 (float32 SSE accumulation of <= 40 terms).
 * RMSD: md.rmsd works in float32 with the QCP closed form  msd = (G_a + G_b - 2 lambda)/n, so its absolute error in msd is
   <= delta = 32 * eps32 * (G_a + G_b)/n; the tolerance on the RMSD r is therefore  max(1e-4 nm, sqrt(r^2 + delta) - r)
   (1e-4 nm as stated in the design wherever r is not tiny; the square-root blow-up at r ~ 0 is made explicit).
   The reference value is the float64 Kabsch/SVD RMSD of /verif/specs/rmsd.py computed on a fresh copy of the coordinates.
"""
import itertools
import os
from concurrent.futures import ProcessPoolExecutor

os.environ.setdefault("OMP_WAIT_POLICY", "passive")  # idle OpenMP workers sleep instead of spinning (thousands of tiny kernels below)

import numpy as np  # noqa: E402

import mdtraj as md  # noqa: E402
from bcc.api import Check
from bcc.c04 import observe, spec_join, spec_subset
from bcc.fixtures import Scratch
from mdtraj.core import element as E
from specs.rmsd import kabsch

EPS32 = 1.1920929e-07
WATER = "HOH"


# ------------------------------------------------------------------------------------------------
# base data
# ------------------------------------------------------------------------------------------------
def base_topology():
    top = md.Topology()
    ch = top.add_chain()
    for i, rn in enumerate(["ALA", "GLY", "ALA"]):
        r = top.add_residue(rn, ch, resSeq=i + 1)
        for nm, el in (("N", E.nitrogen), ("H", E.hydrogen), ("CA", E.carbon), ("C", E.carbon), ("O", E.oxygen)):
            top.add_atom(nm, el, r)
    ch2 = top.add_chain()
    w = top.add_residue(WATER, ch2, resSeq=4)
    for nm, el in (("O", E.oxygen), ("H1", E.hydrogen), ("H2", E.hydrogen)):
        top.add_atom(nm, el, w)
    top.create_standard_bonds()
    return top


N_BASE = 18
IS_WATER = [False] * 15 + [True] * 3


def base_arrays(which, seed):
    """which: 'A' (5 frames, triclinic per-frame cell) or 'B' (4 frames, orthorhombic per-frame cell)"""
    F = 5 if which == "A" else 4
    rng = np.random.RandomState(seed * 10 + (1 if which == "A" else 2))
    xyz = rng.uniform(0.3, 2.7, size=(F, N_BASE, 3)).astype(np.float32)
    # keep bonded neighbours close so that make_molecules_whole / image_molecules have something sensible to do
    for a in range(1, N_BASE):
        xyz[:, a] = xyz[:, a - 1] + rng.uniform(-0.12, 0.12, size=(F, 3)).astype(np.float32)
    xyz = np.mod(xyz, 2.9).astype(np.float32) + 0.05
    time = (np.cumsum(1.0 + 0.5 * (np.arange(F) % 3)) + (0 if which == "A" else 100)).astype(np.float32)
    L = (np.tile([[3.0, 3.2, 3.4]], (F, 1)) + 0.125 * np.arange(F)[:, None]).astype(np.float32)
    A = np.tile([[80.0, 95.0, 110.0]] if which == "A" else [[90.0, 90.0, 90.0]], (F, 1)).astype(np.float32)
    return xyz, time, L, A


class Model:
    def __init__(self, xyz, time, L, A, cols, view):
        self.xyz, self.time, self.L, self.A, self.cols, self.view = xyz, time, L, A, list(cols), view

    @property
    def F(self):
        return self.xyz.shape[0]

    @property
    def n(self):
        return self.xyz.shape[1]

    def copy(self):
        return Model(self.xyz.copy(), self.time.copy(), None if self.L is None else self.L.copy(), None if self.A is None else self.A.copy(),
                     self.cols, self.view)


def fresh(which, seed, top=None):
    xyz, time, L, A = base_arrays(which, seed)
    top = base_topology() if top is None else top
    t = md.Trajectory(xyz.copy(), top, time=time.copy(), unitcell_lengths=L.copy(), unitcell_angles=A.copy())
    m = Model(xyz, time, L, A, range(N_BASE), observe(top)[0])
    return t, m


def operand(model, seed, top, which="B", like_cell=True):
    """a second trajectory with the same atom columns as the current one (numbers taken from base B)"""
    xyz, time, L, A = base_arrays(which, seed)
    xyz = np.ascontiguousarray(xyz[:, model.cols])
    has = model.L is not None and model.A is not None
    t = md.Trajectory(xyz.copy(), top, time=time.copy(), unitcell_lengths=L.copy() if has else None, unitcell_angles=A.copy() if has else None)
    m = Model(xyz, time, L if has else None, A if has else None, model.cols, model.view)
    return t, m


# ------------------------------------------------------------------------------------------------
# operations
# ------------------------------------------------------------------------------------------------
KEYS = ("int", "neg-int", "slice", "reversed", "index-list", "bool-mask")


def make_key(name, F):
    if name == "int":
        return 3 if F > 3 else None
    if name == "neg-int":
        return -1
    if name == "slice":
        return slice(1, 4) if F >= 2 else None
    if name == "reversed":
        return slice(None, None, -1)
    if name == "index-list":
        return [0, 2] if F >= 3 else None
    if name == "bool-mask":
        return np.array([i % 2 == 0 for i in range(F)])
    raise ValueError(name)


def np_take(a, key):
    """the 'same numpy indexing' with an integer key keeping the frame axis (a 1-frame trajectory)"""
    if a is None:
        return None
    if isinstance(key, (int, np.integer)):
        return a[[key]]
    return a[key]


def alphabet():
    ops = [("getitem", k) for k in KEYS]
    ops += [("slice-nocopy", "slice"), ("slice-nocopy", "index-list")]
    ops += [("join", "method"), ("join", "plus"), ("join", "md.join")]
    ops += [("stack", None)]
    ops += [("atom_slice", "drop-last", False), ("atom_slice", "even", False), ("atom_slice", "drop-last", True), ("atom_slice", "even", True)]
    ops += [("remove_solvent", None), ("center", None), ("superpose", None)]
    ops += [("set-xyz", None), ("set-time", None), ("set-cell", "value"), ("set-cell", "None")]
    ops += [("make_molecules_whole", None), ("image_molecules", None)]
    return ops


def kind(op):
    return ":".join(str(x) for x in op if x is not None)


def coarse(op):
    """witness class of aliasing / cache findings: the operation without its key kind (one root cause per operation)"""
    if op[0] == "getitem":
        return "getitem"
    if op[0] == "slice-nocopy":
        return "slice(copy=False)"
    if op[0] == "atom_slice":
        return f"atom_slice(inplace={op[2]})"
    if op[0] == "join":
        return "md.join" if op[1] == "md.join" else "join"
    return kind(op)


class Skip(Exception):
    """the operation is not applicable to the current state (outside the quantifier, e.g. index out of range)"""


def apply_op(op, t, m, seed):
    """returns (result object, new model, inputs, freshness, note)
    freshness: 'all' (shares no mutable data with the inputs), 'xyz' (coordinates fresh), 'view-allowed', 'inplace'"""
    name = op[0]
    if name in ("getitem", "slice-nocopy"):
        key = make_key(op[1], m.F)
        if key is None:
            raise Skip
        r = t[key] if name == "getitem" else t.slice(key, copy=False)
        nm = Model(np_take(m.xyz, key), np_take(m.time, key), np_take(m.L, key), np_take(m.A, key), m.cols, m.view)
        if nm.F == 0:
            raise Skip
        fr = "all" if name == "getitem" else ("xyz" if op[1] == "index-list" else "view-allowed")
        return r, nm, [t], fr
    if name == "join":
        if (m.L is None) != (m.A is None):
            raise Skip
        o1, m1 = operand(m, seed, t.topology)
        if op[1] == "method":
            r, parts, ins = t.join(o1), [m, m1], [t, o1]
        elif op[1] == "plus":
            r, parts, ins = t + o1, [m, m1], [t, o1]
        else:
            o2, m2 = operand(m, seed, t.topology, which="A")
            r, parts, ins = md.join([t, o1, o2]), [m, m1, m2], [t, o1, o2]
        cat = lambda f: None if getattr(m, f) is None else np.concatenate([getattr(p, f) for p in parts])  # noqa: E731
        nm = Model(cat("xyz"), cat("time"), cat("L"), cat("A"), m.cols, m.view)
        return r, nm, ins, "all"
    if name == "stack":
        if m.n > 40:
            raise Skip
        o = md.Trajectory((m.xyz + 0.5).astype(np.float32), t.topology, time=m.time + 1000.0)
        r = t.stack(o)
        nm = Model(np.hstack([m.xyz, (m.xyz + 0.5).astype(np.float32)]), m.time, m.L, m.A, m.cols + m.cols, spec_join(m.view, m.view))
        return r, nm, [t, o], "xyz"
    if name == "atom_slice":
        if m.n < 4:
            raise Skip
        sel = list(range(m.n - 1)) if op[1] == "drop-last" else list(range(0, m.n, 2))
        r = t.atom_slice(sel, inplace=op[2])
        nm = Model(m.xyz[:, sel], m.time, m.L, m.A, [m.cols[i] for i in sel], spec_subset(m.view, sel))
        if op[2]:
            return t, nm, [t], "inplace", (r is t)
        return r, nm, [t], "all"
    if name == "remove_solvent":
        sel = [i for i, c in enumerate(m.cols) if not IS_WATER[c]]
        if not sel or len(sel) == m.n:
            raise Skip
        r = t.remove_solvent()
        nm = Model(m.xyz[:, sel], m.time, m.L, m.A, [m.cols[i] for i in sel], spec_subset(m.view, sel))
        return r, nm, [t], "all"
    if name == "center":
        before = t.xyz.copy()
        r = t.center_coordinates()
        x = np.asarray(t.xyz, dtype=np.float64)
        cen = np.abs(x.mean(axis=1)).max()
        shift = x - before
        spread = np.abs(shift - shift.mean(axis=1, keepdims=True)).max()
        nm = m.copy()
        nm.xyz = np.array(t.xyz, dtype=np.float32, copy=True)
        note = None
        if cen > 2e-5 or spread > 2e-5:
            note = ("center-contract", f"after center_coordinates: |centroid| max {cen:.3g} nm, translation not constant over atoms by {spread:.3g} nm")
        return t, nm, [t], "inplace", (r is t), note
    if name == "superpose":
        if m.n < 3:
            raise Skip
        ref, _ = operand(m, seed, t.topology)
        before = np.asarray(t.xyz, dtype=np.float64).copy()
        r = t.superpose(ref, 0, parallel=False)
        x = np.asarray(t.xyz, dtype=np.float64)
        d0 = np.linalg.norm(before[:, :, None, :] - before[:, None, :, :], axis=-1)
        d1 = np.linalg.norm(x[:, :, None, :] - x[:, None, :, :], axis=-1)
        note = None
        if np.abs(d0 - d1).max() > 1e-4:
            note = ("superpose-contract", f"superpose changed interatomic distances by up to {np.abs(d0 - d1).max():.3g} nm")
        nm = m.copy()
        nm.xyz = np.array(t.xyz, dtype=np.float32, copy=True)
        return t, nm, [t], "inplace", (r is t), note
    if name == "set-xyz":
        new = (m.xyz[::-1] * 0.5 + 0.25).astype(np.float32)
        t.xyz = new.copy()
        nm = m.copy()
        nm.xyz = new
        return t, nm, [t], "inplace", True
    if name == "set-time":
        new = np.arange(m.F, dtype=np.float64) * 3.0 + 1.0
        t.time = new.copy()
        nm = m.copy()
        nm.time = new
        return t, nm, [t], "inplace", True
    if name == "set-cell":
        nm = m.copy()
        if op[1] == "None":
            t.unitcell_vectors = None
            nm.L = nm.A = None
        else:
            L = (np.tile([[4.0, 4.5, 5.0]], (m.F, 1)) + 0.25 * np.arange(m.F)[:, None]).astype(np.float32)
            A = np.tile([[90.0, 90.0, 90.0]], (m.F, 1)).astype(np.float32)
            t.unitcell_lengths = L.copy()
            t.unitcell_angles = A.copy()
            nm.L, nm.A = L, A
        return t, nm, [t], "inplace", True
    if name in ("make_molecules_whole", "image_molecules"):
        if m.L is None or m.A is None or not m.view["bonds"]:
            raise Skip
        try:
            if name == "image_molecules":
                # the anchor heuristic wants molecules of > 15 atoms; name the largest molecule as anchor explicitly
                mols = sorted(t.topology.find_molecules(), key=len, reverse=True)
                if len(mols) < 2:
                    raise Skip
                r = t.image_molecules(inplace=True, anchor_molecules=mols[:1], other_molecules=mols[1:])
            else:
                r = t.make_molecules_whole(inplace=True)
        except Skip:
            raise
        except Exception:
            raise Skip  # C11's business (e.g. nothing to image after atom slicing)
        nm = m.copy()
        nm.xyz = np.array(t.xyz, dtype=np.float32, copy=True)
        return t, nm, [t], "inplace", (r is t)
    raise ValueError(op)


# ------------------------------------------------------------------------------------------------
# observers
# ------------------------------------------------------------------------------------------------
def fields_vs_model(r, m):
    """(clause, observed, expected) or None"""
    if r.xyz.shape != m.xyz.shape:
        return ("xyz-shape", list(r.xyz.shape), list(m.xyz.shape))
    if len(r.time) != m.F or r.n_frames != m.F or len(r) != m.F:
        return ("field-lengths", [r.n_frames, len(r.time)], m.F)
    for nm, o, e in (("unitcell_lengths", r.unitcell_lengths, m.L), ("unitcell_angles", r.unitcell_angles, m.A)):
        if (o is None) != (e is None):
            return (nm + "-presence", o is not None, e is not None)
        if e is not None and np.shape(o) != (m.F, 3):
            return ("field-lengths", list(np.shape(o)), [m.F, 3])
    if not np.array_equal(r.xyz, m.xyz):
        bad = np.argwhere(np.asarray(r.xyz) != m.xyz)[0].tolist()
        return ("xyz", {"first-difference-at": bad, "value": float(r.xyz[tuple(bad)])}, float(m.xyz[tuple(bad)]))
    if not np.array_equal(np.asarray(r.time, dtype=np.float64), np.asarray(m.time, dtype=np.float64)):
        return ("time", np.asarray(r.time), m.time)
    for nm, o, e in (("unitcell_lengths", r.unitcell_lengths, m.L), ("unitcell_angles", r.unitcell_angles, m.A)):
        if e is not None and not np.array_equal(np.asarray(o, dtype=np.float64), np.asarray(e, dtype=np.float64)):
            return (nm, np.asarray(o), e)
    if r.topology is None or r.topology.n_atoms != m.n:
        return ("topology-atoms", None if r.topology is None else r.topology.n_atoms, m.n)
    v, _ = observe(r.topology)  # (well-formedness of copied topologies is C04's clause, not repeated here)
    if v != m.view:
        return ("topology", "view differs", "same numpy/atom subset of the input topology")
    return None


def aliasing(r, inputs, freshness):
    """(clause, detail) or None"""
    arrays = lambda x: [("xyz", x.xyz), ("time", x.time), ("unitcell_lengths", x.unitcell_lengths), ("unitcell_angles", x.unitcell_angles)]  # noqa: E731
    for k, inp in enumerate(inputs):
        if inp is r:
            continue
        if freshness in ("all", "xyz") and np.shares_memory(r.xyz, inp.xyz):
            return ("xyz-shares-memory", f"result.xyz shares memory with input {k}.xyz")
        if freshness == "all":
            for n1, a1 in arrays(r):
                for n2, a2 in arrays(inp):
                    if a1 is not None and a2 is not None and np.shares_memory(a1, a2):
                        return ("shares-mutable-data", f"result.{n1} shares memory with input {k}.{n2}")
            if r.topology is not None and r.topology is inp.topology:
                return ("shares-mutable-data", f"result.topology is input {k}.topology (same object)")
    return None


def traces_problem(t):
    tr = getattr(t, "_rmsd_traces", None)
    if tr is None:
        return None
    tr = np.asarray(tr, dtype=np.float64)
    x = np.asarray(t.xyz, dtype=np.float64)
    if tr.shape != (x.shape[0],):
        return f"cached traces have shape {tr.shape} for {x.shape[0]} frames"
    cen = np.abs(x.mean(axis=1)).max() if x.size else 0.0
    g = (x ** 2).sum(axis=(1, 2))
    if cen > 2e-5:
        return f"traces are cached but the coordinates are not centred (|centroid| up to {cen:.3g} nm)"
    bad = np.abs(tr - g) > 1e-4 * g + 1e-5
    if bad.any():
        i = int(np.argmax(bad))
        return f"cached trace of frame {i} is {tr[i]:.6g}, the coordinates give {g[i]:.6g}"
    return None


def rmsd_observer(t):
    """md.rmsd(t, t, 0, precentered=True) against the float64 Kabsch RMSD of a fresh copy.  Returns (ok, observed, expected, tol)."""
    x = np.array(t.xyz, dtype=np.float64, copy=True)
    n = x.shape[1]
    exp = np.array([kabsch(x[i], x[0])[0] for i in range(x.shape[0])])
    xc = x - x.mean(axis=1, keepdims=True)
    G = (xc ** 2).sum(axis=(1, 2))
    delta = 32 * EPS32 * (G + G[0]) / n
    tol = np.maximum(1e-4, np.sqrt(exp ** 2 + delta) - exp)
    import warnings
    with warnings.catch_warnings():
        warnings.simplefilter("ignore")
        obs = np.asarray(md.rmsd(t, t, 0, precentered=True, parallel=False), dtype=np.float64)
    ok = obs.shape == exp.shape and bool(np.all(np.abs(obs - exp) <= tol))
    return ok, obs, exp, tol


# ------------------------------------------------------------------------------------------------
# sequences
# ------------------------------------------------------------------------------------------------
def _fail(chk, clause, wc, what, inp, observed=None, expected=None, weak=False):
    """weak: a witness on which the public observer happens to agree; it is reported only if no stronger witness of the same key turns up"""
    if weak and hasattr(chk, "_weak"):
        chk._weak.append((clause, wc, what, inp))
        chk.evaluations += 1
    else:
        chk.fail(clause, wc, what, inp, observed=observed, expected=expected)
    return ("fail", wc)


def run_sequence(chk, base, ops, seed, reported):
    """returns False if not applicable, True if clean, ("fail", witness_class) on a violation"""
    t, m = fresh(base, seed)
    inp = {"check": "sequence", "base": base, "seed": seed, "ops": [list(o) for o in ops]}
    centred = False
    for k, op in enumerate(ops):
        hist = "after-center:" if centred else ""
        try:
            res = apply_op(op, t, m, seed)
        except Skip:
            return False
        except Exception as e:
            return _fail(chk, "raises", f"{hist}{kind(op)}:{type(e).__name__}", f"{base}: {[kind(o) for o in ops[:k + 1]]}: {type(e).__name__}: {e}", inp)
        r, nm, inputs, fr = res[:4]
        returned_self = res[4] if len(res) > 4 else None
        note = res[5] if len(res) > 5 else None
        wc = hist + kind(op)
        if fr == "inplace" and returned_self is False and op[0] in ("atom_slice", "center", "superpose", "make_molecules_whole", "image_molecules"):
            return _fail(chk, "inplace-returns-self", wc, f"{kind(op)} (in place) did not return the trajectory itself", inp)
        if note:
            return _fail(chk, note[0], wc, f"{base}: {[kind(o) for o in ops[:k + 1]]}: {note[1]}", inp)
        bad = fields_vs_model(r, nm)
        if bad:
            return _fail(chk, bad[0], wc, f"{base}: after {[kind(o) for o in ops[:k + 1]]} the field {bad[0]} differs from the same NumPy indexing/concatenation of the inputs", inp,
                     observed=bad[1], expected=bad[2])
        al = aliasing(r, inputs, fr)
        if al:
            return _fail(chk, al[0], coarse(op), f"{base}: {[kind(o) for o in ops[:k + 1]]}: {al[1]}", inp)
        tp = traces_problem(r)
        if tp:
            # hidden cached state inconsistent with the coordinates: show it through the observer of the property
            ok, obs, exp, tol = rmsd_observer(r) if nm.n >= 3 else (True, None, None, None)
            if not ok:
                return _fail(chk, "stale-rmsd-cache", hist + coarse(op), f"{base}: after {[kind(o) for o in ops[:k + 1]]}: {tp}; md.rmsd(t, t, 0, precentered=True) differs from the RMSD "
                                                            f"computed from scratch on a copy of the coordinates", inp, observed=obs, expected=exp)
            else:
                return _fail(chk, "stale-rmsd-cache", hist + coarse(op), f"{base}: after {[kind(o) for o in ops[:k + 1]]}: {tp} (md.rmsd(precentered=True) happens to agree on this input)", inp, weak=True)
        if op[0] == "center":
            centred = True
        elif op[0] in ("set-xyz", "superpose"):
            centred = False
        t, m = r, nm
    # end of a clean history: the observer of the property
    if m.n >= 3:
        try:
            ok, obs, exp, tol = rmsd_observer(t)
        except Exception as e:
            return _fail(chk, "rmsd-raises", ">".join(kind(o) for o in ops), f"md.rmsd(precentered=True) after {[kind(o) for o in ops]} raised {type(e).__name__}: {e}", inp)
        if not ok:
            return _fail(chk, "rmsd-precentered", ("after-center:" if centred else "") + coarse(ops[-1]),
                     f"{base}: after {[kind(o) for o in ops]}: md.rmsd(t, t, 0, precentered=True) = {np.round(obs, 5).tolist()} but the RMSD from scratch is {np.round(exp, 5).tolist()} "
                     f"(tolerance {np.round(tol, 5).tolist()})", inp, observed=obs, expected=exp)
    nt = (base, tuple(ops)) if any(o[0] == "center" for o in ops) and len(ops) > 1 else None
    chk.ok(nontrivial=nt, sample=inp if len(ops) > 1 else None)
    return True


def check_sequences(tier, seed, only=None):
    L = 2 if tier == "quick" else 3
    ops = alphabet()
    chk = Check("operation-sequences", "Trajectory.__getitem__/slice/join/+/md.join/stack/atom_slice/remove_solvent/center_coordinates/superpose/"
                                       "xyz,time,unitcell setters/make_molecules_whole/image_molecules(inplace=True), then md.rmsd(precentered=True)",
                bound=f"2 base trajectories (A: 5 frames, triclinic per-frame cell; B: 4 frames, orthorhombic; 18 atoms = ALA-GLY-ALA backbone with bonds + one water) x "
                      f"all sequences of length <= {L} over {len(ops)} operations ({sum(len(ops) ** k for k in range(1, L + 1))} sequences per base; "
                      f"keys int 3, -1, 1:4, ::-1, [0,2], alternating bool mask)",
                rule="exhaustive; sequences with an inapplicable step (index out of range, empty result, re-imaging without cell/bonds) are outside the quantifier; "
                     "after every step: all fields == NumPy model, field lengths, aliasing, cached traces consistent; at the end md.rmsd(precentered=True) vs float64 Kabsch; "
                     "non-trivial = sequence of >= 2 operations containing center_coordinates",
                stands_in_for="inv_traj preservation over all finite histories; SSE centring/QCP kernels by contract", exhaustive=True)
    jobs = [(base, i, L, (only.get("seed", seed) if only else seed), only) for base in ("A", "B") for i in range(len(ops))]
    if only:
        first = tuple(only["ops"][0])
        jobs = [j for j in jobs if j[0] == only["base"] and list(ops[j[1]]) == list(first)]
        results = [_seq_worker(j) for j in jobs]
    else:
        with ProcessPoolExecutor(max_workers=min(14, len(jobs))) as ex:
            results = list(ex.map(_seq_worker, jobs))
    weak = []
    # merge in enumeration order: shorter histories first, so that the recorded witness of a key is a minimal one
    fails = sorted((f for r in results for f in r["fails"]), key=lambda f: (len(f[3]["ops"]), f[3]["base"]))
    for r in results:
        chk.evaluations += r["evals"]
        for x in r["nontrivial"]:
            chk._distinct.add(x)
        for smp in r["samples"]:
            if len(chk.samples) < 3:
                chk.samples.append(smp)
    for clause, wc, what, inp, obs, exp, is_weak in fails:
        if is_weak:
            weak.append((clause, wc, what, inp))
        else:
            chk.fail(clause, wc, what, inp, observed=obs, expected=exp)
            chk.evaluations -= 1
    for clause, wc, what, inp in weak:
        if f"bcc:{clause}:{wc}" not in chk._fail_keys:
            chk.fail(clause, wc, what, inp)
            chk.evaluations -= 1
    return chk


class _Collector(Check):
    """a Check that keeps every failure with its payload (merged and de-duplicated by the parent process)"""

    def __init__(self):
        super().__init__("worker", "", "", "")
        self.raw = []
        self._weak = None

    def fail(self, clause, witness_class, what, input, observed=None, expected=None, explains=()):
        self.evaluations += 1
        self.raw.append((clause, witness_class, what, input, _plain(observed), _plain(expected), False))


def _plain(x):
    return x.tolist() if isinstance(x, np.ndarray) else x


def _seq_worker(job):
    base, i0, L, seed, only = job
    import warnings
    warnings.simplefilter("ignore")
    ops = alphabet()
    chk = _Collector()
    reported = set()
    weak = []
    for n in range(1, L + 1):
        for rest in itertools.product(ops, repeat=n - 1):
            seq = (ops[i0],) + rest
            if only and only["ops"] != [list(o) for o in seq]:
                continue
            ks = tuple(kind(o) for o in seq)
            if any(_contains(ks, f) for f in reported):
                continue  # contains an already failing history: same finding
            chk._weak = weak_local = []
            res = run_sequence(chk, base, seq, seed, reported)
            for clause, wc, what, inp in weak_local:
                chk.raw.append((clause, wc, what, inp, None, None, True))
            if isinstance(res, tuple):
                reported.add(_culprit(ks, res[1]))
    return {"evals": chk.evaluations, "nontrivial": list(chk._distinct), "samples": chk.samples, "fails": chk.raw}


def _contains(ks, sub):
    n = len(sub)
    return n > 0 and any(ks[i:i + n] == sub for i in range(len(ks) - n + 1))


def _culprit(ks, wc):
    """the shortest suffix of the failing history that identifies it: the failing step alone, or `center ... step` for cache findings"""
    if wc.startswith("after-center:") and "center" in ks:
        i = len(ks) - 1 - ks[::-1].index("center")
        return ks[i:]
    return ks[-1:] if ks else ks


# ------------------------------------------------------------------------------------------------
# analysis and save functions leave their input bit-identical
# ------------------------------------------------------------------------------------------------
def snapshot(t):
    f = lambda a: None if a is None else (np.asarray(a).dtype.str, np.asarray(a).shape, np.asarray(a).tobytes())  # noqa: E731
    return {"xyz": f(t.xyz), "time": f(t.time), "unitcell_lengths": f(t.unitcell_lengths), "unitcell_angles": f(t.unitcell_angles),
            "topology": observe(t.topology)[0], "traces": f(getattr(t, "_rmsd_traces", None))}


PAIRS = np.array([[0, 7], [2, 12], [3, 16], [15, 4]])
TRIPLETS = np.array([[0, 2, 3], [5, 7, 8], [2, 15, 12]])
QUADS = np.array([[0, 2, 3, 5], [3, 5, 7, 8], [2, 7, 12, 15]])
SAVE_FORMATS = ["h5", "xtc", "trr", "dcd", "nc", "netcdf", "mdcrd", "xyz", "xyz.gz", "lammpstrj", "gro", "pdb", "pdb.gz", "dtr", "rst7", "ncrst", "lh5", "gsd", "binpos"]


def analysis_functions(d):
    fs = []
    for per in (True, False):
        for opt in (True, False):
            fs.append((f"compute_distances(periodic={per},opt={opt})", lambda t, per=per, opt=opt: md.compute_distances(t, PAIRS, periodic=per, opt=opt)))
            fs.append((f"compute_displacements(periodic={per},opt={opt})", lambda t, per=per, opt=opt: md.compute_displacements(t, PAIRS, periodic=per, opt=opt)))
            fs.append((f"compute_angles(periodic={per},opt={opt})", lambda t, per=per, opt=opt: md.compute_angles(t, TRIPLETS, periodic=per, opt=opt)))
            fs.append((f"compute_dihedrals(periodic={per},opt={opt})", lambda t, per=per, opt=opt: md.compute_dihedrals(t, QUADS, periodic=per, opt=opt)))
        for scheme in ("closest", "closest-heavy", "ca", "sidechain", "sidechain-heavy"):
            fs.append((f"compute_contacts({scheme},periodic={per})", lambda t, per=per, scheme=scheme: md.compute_contacts(t, contacts=[[0, 2], [0, 1]], scheme=scheme, periodic=per)))
        fs.append((f"compute_neighbors(periodic={per})", lambda t, per=per: md.compute_neighbors(t, 0.6, np.array([0, 1, 2]), periodic=per)))
        fs.append((f"baker_hubbard(periodic={per})", lambda t, per=per: md.baker_hubbard(t, periodic=per)))
        fs.append((f"wernet_nilsson(periodic={per})", lambda t, per=per: md.wernet_nilsson(t, periodic=per)))
        fs.append((f"compute_rdf(periodic={per})", lambda t, per=per: md.compute_rdf(t, PAIRS, r_range=(0.0, 1.0), periodic=per)))
        fs.append((f"compute_phi/psi/omega(periodic={per})", lambda t, per=per: (md.compute_phi(t, periodic=per), md.compute_psi(t, periodic=per), md.compute_omega(t, periodic=per))))
    fs += [
        ("shrake_rupley(atom)", lambda t: md.shrake_rupley(t)),
        ("shrake_rupley(residue)", lambda t: md.shrake_rupley(t, mode="residue")),
        ("compute_dssp", lambda t: md.compute_dssp(t)),
        ("compute_dssp(simplified=False)", lambda t: md.compute_dssp(t, simplified=False)),
        ("kabsch_sander", lambda t: md.kabsch_sander(t)),
        ("compute_rg", lambda t: md.compute_rg(t)),
        ("compute_center_of_mass", lambda t: md.compute_center_of_mass(t)),
        ("compute_center_of_geometry", lambda t: md.compute_center_of_geometry(t)),
        ("compute_inertia_tensor", lambda t: md.compute_inertia_tensor(t)),
        ("compute_gyration_tensor", lambda t: md.compute_gyration_tensor(t)),
        ("principal_moments", lambda t: md.principal_moments(t)),
        ("asphericity/acylindricity/shape_anisotropy", lambda t: (md.asphericity(t), md.acylindricity(t), md.relative_shape_antisotropy(t))),
        ("density", lambda t: md.density(t)),
        ("compute_drid", lambda t: md.compute_drid(t)),
        ("compute_neighborlist", lambda t: md.compute_neighborlist(t, 0.6, frame=1)),
        ("find_closest_contact", lambda t: md.find_closest_contact(t, [0, 1, 2], [10, 11, 12], frame=1)),
        ("compute_directors", lambda t: md.compute_directors(t, [[0, 1, 2, 3, 4], [5, 6, 7, 8, 9]])),
        ("compute_nematic_order", lambda t: md.compute_nematic_order(t, [[0, 1, 2, 3, 4], [5, 6, 7, 8, 9]])),
        ("dipole_moments", lambda t: md.dipole_moments(t, np.linspace(-0.5, 0.5, t.n_atoms))),
        ("static_dielectric", lambda t: md.static_dielectric(t, np.linspace(-0.5, 0.5, t.n_atoms), 300.0)),
        ("isothermal_compressability_kappa_T", lambda t: md.isothermal_compressability_kappa_T(t, 300.0)),
        ("thermal_expansion_alpha_P", lambda t: md.thermal_expansion_alpha_P(t, 300.0, np.linspace(1, 2, t.n_frames))),
        ("compute_chi1", lambda t: md.compute_chi1(t)),
        ("Trajectory.atom_slice(inplace=False)", lambda t: t.atom_slice([0, 2, 4])),
        ("Trajectory.remove_solvent(inplace=False)", lambda t: t.remove_solvent()),
        ("Trajectory.__getitem__", lambda t: t[1:3]),
        ("Trajectory.join", lambda t: t.join(t)),
        ("Trajectory.stack", lambda t: t.stack(t)),
        ("Trajectory.smooth(inplace=False)", lambda t: t.smooth(3)),
        ("Trajectory.make_molecules_whole(inplace=False)", lambda t: t.make_molecules_whole(inplace=False)),
        ("Trajectory.image_molecules(inplace=False)", lambda t: t.image_molecules(inplace=False)),
        ("Trajectory.unitcell_vectors/volumes getters", lambda t: (t.unitcell_vectors, t.unitcell_volumes)),
        ("Trajectory.openmm_boxes/positions", lambda t: (t.openmm_positions(0), t.openmm_boxes(0))),
        ("Trajectory.to_dataframe/topology.to_dataframe", lambda t: t.topology.to_dataframe()),
        ("hash/==", lambda t: (hash(t), t == t)),
    ]
    for fmt in SAVE_FORMATS:
        fs.append((f"save(.{fmt})", lambda t, fmt=fmt: t.save(os.path.join(d, "c03." + fmt))))
    return fs


def check_input_unchanged(tier, seed, only=None):
    chk = Check("analysis-and-save-leave-input-unchanged", "md.compute_* / shrake_rupley / compute_dssp / kabsch_sander / baker_hubbard / wernet_nilsson / compute_neighbors / ... and Trajectory.save to every format",
                bound="every listed function x 4 input trajectories (triclinic cell, orthorhombic cell, no cell, triclinic cell after center_coordinates) of 5 frames x 18 atoms",
                rule="exhaustive over the list; byte-for-byte snapshot of xyz, time, unitcell_lengths, unitcell_angles (dtype, shape, bytes), the topology view and the cached traces "
                     "before and after the call; a function that raises on the toy system is not a violation; md.rmsd / md.rmsf / superpose / center_coordinates / inplace=True methods "
                     "document their in-place work and are not in the list; non-trivial = call that returned without error",
                stands_in_for="frame clauses `modifies = {}` of the analysis entry points whose kernels are C/SSE", exhaustive=True)
    VARIANTS = ("triclinic", "ortho", "no-cell", "triclinic-centred")
    found = {}  # function name -> list of (variant, raised?, changed fields, input)
    with Scratch("c03") as d:
        for vname in VARIANTS:
            for fname, fn in analysis_functions(d):
                inp = {"check": "unchanged", "variant": vname, "function": fname, "seed": seed}
                if only and (only["variant"] != vname or only["function"] != fname):
                    continue
                t = make_variant(vname, only.get("seed", seed) if only else seed)
                before = snapshot(t)
                raised = False
                try:
                    import warnings
                    with warnings.catch_warnings():
                        warnings.simplefilter("ignore")
                        fn(t)
                except Exception:
                    raised = True
                after = snapshot(t)
                if after != before:
                    found.setdefault(fname, []).append((vname, raised, [k for k in before if before[k] != after[k]], inp))
                    chk.evaluations += 1
                else:
                    chk.ok(nontrivial=None if raised else (vname, fname), sample=None if raised else inp)
    for fname, lst in found.items():
        everywhere = {v for v, _, _, _ in lst} == set(VARIANTS) or bool(only)
        for vname, raised, ch, inp in lst:
            wc = fname if everywhere and not only else f"{fname}:{vname}"
            if only and len(lst) == 1:
                wc = fname  # replay of one variant: the class is decided by the full run; report the function
            chk.fail("input-modified", wc, f"{fname} modified its input trajectory's {ch} ({vname} input){' and then raised' if raised else ''}", inp,
                     observed=ch, expected="bit-identical input")
    return chk


def _cellclass(v):
    return v


def make_variant(vname, seed):
    t, _ = fresh("A", seed)
    if vname == "ortho":
        t.unitcell_angles = np.full((t.n_frames, 3), 90.0)
    elif vname == "no-cell":
        t.unitcell_vectors = None
    elif vname == "triclinic-centred":
        t.center_coordinates()
    return t


# ------------------------------------------------------------------------------------------------
def run(tier, seed, hint):
    return [check_sequences(tier, seed), check_input_unchanged(tier, seed)]


def replay(payload):
    inp = payload.get("input") or payload.get("failing_input")
    if inp.get("check") == "sequence":
        chk = Check("replay", "", "", "")
        run_sequence(chk, inp["base"], [tuple(o) for o in inp["ops"]], inp.get("seed", 0), set())
    else:
        chk = check_input_unchanged("quick", inp.get("seed", 0), only=inp)
    return {"reproduced": bool(chk.failures), "failures": chk.failures}
