"""C04 bounded contract check: topology transformations preserve atoms, residues, chains and bonds.

Small-scope enumeration.  A topology is DESCRIBED by plain data (the `view`: chains -> residues -> atoms with
every attribute, plus the multiset of bonds over atom indices with type and order).  `build(view)` constructs
the real mdtraj Topology through its public constructors, `observe(top)` reads a real Topology back into a view
through its public accessors (independent of ==/hash/copy), and every transformation has a *specification on
views* written from the property statement (`spec_subset`, `spec_join`, identity for copy/deepcopy/pickle/
data frame/files).  A step is judged field by field:  observe(T(top)) == spec_T(observe(top)).

What a carrier is required to hold (property: "... and the bond graph (with type and order where the carrier can
hold them)"):
  * copy / deepcopy / pickle / subset / join / Trajectory.atom_slice / stack / slicing: every field.
  * data frame (to_dataframe + from_dataframe): every field (the bonds array has type and order columns).
  * HDF5: every field except bond type/order (the documented topology JSON of docs/hdf5_format.rst stores bonds as
    index pairs).  atom serial and chain identifier are named unconditionally by the statement and are demanded.
  * PDB: every field except bond type/order (CONECT has none).  PDB is a fixed-column format: a chain identifier is
    demanded only when the source has a one-character id (None is replaced by the writer's A,B,C.. default), a serial
    only when the source has one, and topologies the columns cannot express (two adjacent residues of a chain with the same
    name AND number, two adjacent chains with the same id) are not submitted to the PDB round trip.  All residue names
    are non-standard (LG1..LG3) so every bond is a CONECT bond and the reader adds no template bonds.
"""
import copy as _copy
import itertools
import os
import pickle

import numpy as np

import mdtraj as md
from bcc.api import Check
from bcc.fixtures import Scratch
from mdtraj.core import element as E
from mdtraj.core import topology as T

ANY = "<any>"
BOND_TYPES = {"Single": T.Single, "Double": T.Double, "Triple": T.Triple, "Aromatic": T.Aromatic, "Amide": T.Amide}
RESNAMES = ["LG1", "LG2", "LG3"]
ATOMNAMES = [("C1", "C"), ("N1", "N"), ("O1", "O"), ("H1", "H"), ("C2", "C"), ("N2", "N"), ("O2", "O"), ("H2", "H"),
             ("C3", "C"), ("N3", "N"), ("O3", "O"), ("H3", "H")]
BOND_CYCLE = [("Single", 1), ("Double", 2), ("Aromatic", None), (None, None), ("Amide", 1), ("Triple", 3), (None, 2)]
DECORS = ("plain", "rich", "rich2")
RES_CONFIGS = [(1,), (2,), (1, 1), (1, 2), (2, 1), (2, 2)]  # atoms per residue, <= 2 residues x <= 2 atoms


# ------------------------------------------------------------------------------------------------
# descriptions (plain data) and the real objects
# ------------------------------------------------------------------------------------------------
def describe(shape, decor):
    """shape: tuple of chains, each a tuple of atoms-per-residue.  Returns the intended view."""
    chains, bonds = [], []
    ri = ai = 0
    for ci, chain in enumerate(shape):
        residues = []
        for na in chain:
            if decor == "plain":
                name, resSeq, seg = RESNAMES[ri % 3], ri, ""  # resSeq not given -> documented default = residue index
            elif decor == "rich":
                name, resSeq, seg = RESNAMES[ri % 3], [5, 0, 5, 7, 0, 12][ri], ["SA", "", "SB", "SC", "", "SA"][ri]
            else:  # rich2: adjacent residues with the same name and number, zero resSeq away from index 0
                name, resSeq, seg = "LG1", [3, 3, 0, 0, 3, 3][ri], "S%d" % ci
            atoms = []
            for _ in range(na):
                nm, el = ATOMNAMES[ai]
                if decor == "rich" and ai == 1:
                    nm, el = "M1", "VS"  # a virtual site
                if decor == "rich2" and ai == 0:
                    nm, el = "OM", "VS"  # a virtual site whose NAME reads like an element symbol (a carrier must not re-guess it)
                serial = None if decor == "plain" else (10 + 7 * ai if decor == "rich" else ai + 1)
                atoms.append({"name": nm, "element": el, "serial": serial})
                ai += 1
            residues.append({"name": name, "resSeq": resSeq, "segment_id": seg, "atoms": atoms})
            ri += 1
        cid = None if decor == "plain" else (["A", "B", "X"] if decor == "rich" else ["X", "A", "C"])[ci]
        chains.append({"chain_id": cid, "residues": residues})
    n = ai
    pairs = [(i, i + 1) for i in range(n - 1)] + ([(0, n - 1)] if n >= 3 else [])
    for k, (i, j) in enumerate(pairs):
        ty, od = (None, None) if decor == "plain" else BOND_CYCLE[k % len(BOND_CYCLE)]
        bonds.append([i, j, ty, od])
    return {"chains": chains, "bonds": sorted(bonds, key=_bkey)}


def _bkey(b):
    return (b[0], b[1], str(b[2]), -1 if b[3] is None else b[3])


def build(view):
    """construct the real Topology through the public constructors"""
    top = md.Topology()
    atoms = []
    for c in view["chains"]:
        ch = top.add_chain(c["chain_id"]) if c["chain_id"] is not None else top.add_chain()
        for r in c["residues"]:
            res = top.add_residue(r["name"], ch, resSeq=r["resSeq"], segment_id=r["segment_id"])
            for a in r["atoms"]:
                atoms.append(top.add_atom(a["name"], E.get_by_symbol(a["element"]), res, serial=a["serial"]))
    for i, j, ty, od in view["bonds"]:
        top.add_bond(atoms[i], atoms[j], type=None if ty is None else BOND_TYPES[ty], order=od)
    return top


def _norm_int(x):
    if x is None:
        return None
    try:
        if isinstance(x, float) and np.isnan(x):
            return None
        return int(x)
    except (TypeError, ValueError):
        return repr(x)


def observe(top):
    """independent observer: (view, list of well-formedness problems).  Uses only public accessors."""
    problems = []
    chains = []
    ai = ri = 0
    all_atoms = []
    for ci, ch in enumerate(top.chains):
        if ch.index != ci:
            problems.append(("indices", f"chain at position {ci} has index {ch.index}"))
        residues = []
        for res in ch.residues:
            if res.index != ri:
                problems.append(("indices", f"residue at position {ri} has index {res.index}"))
            if res.chain is not ch:
                problems.append(("indices", f"residue {ri}.chain is not its chain"))
            atoms = []
            for at in res.atoms:
                if at.index != ai:
                    problems.append(("indices", f"atom at position {ai} has index {at.index}"))
                if at.residue is not res:
                    problems.append(("indices", f"atom {ai}.residue is not its residue"))
                atoms.append({"name": str(at.name), "element": str(at.element.symbol), "serial": _norm_int(at.serial)})
                all_atoms.append(at)
                ai += 1
            residues.append({"name": str(res.name), "resSeq": _norm_int(res.resSeq), "segment_id": str(res.segment_id), "atoms": atoms})
            ri += 1
        chains.append({"chain_id": None if ch.chain_id is None else str(ch.chain_id), "residues": residues})
    if top.n_atoms != ai or top.n_residues != ri or top.n_chains != len(chains):
        problems.append(("indices", f"n_atoms/n_residues/n_chains = {top.n_atoms}/{top.n_residues}/{top.n_chains}, iteration finds {ai}/{ri}/{len(chains)}"))
    for i in range(min(ai, top.n_atoms)):
        if top.atom(i) is not all_atoms[i]:
            problems.append(("indices", f"top.atom({i}) is not the {i}-th atom of the chain/residue iteration"))
            break
    bonds = []
    for b in top.bonds:
        a1, a2 = b[0], b[1]
        for a in (a1, a2):
            if not (0 <= a.index < ai and all_atoms[a.index] is a):
                problems.append(("bond-endpoints-own-atoms", f"bond ({a1.index},{a2.index}) ends at an Atom object that is not one of this topology's atoms"))
        i, j = sorted((int(a1.index), int(a2.index)))
        bonds.append([i, j, None if b.type is None else type(b.type).__name__, _norm_int(b.order)])
    return {"chains": chains, "bonds": sorted(bonds, key=_bkey)}, problems


def structure(v):
    return [[len(r["atoms"]) for r in c["residues"]] for c in v["chains"]]


def n_atoms(v):
    return sum(sum(s) for s in structure(v))


# ------------------------------------------------------------------------------------------------
# specifications on views
# ------------------------------------------------------------------------------------------------
def spec_subset(v, S):
    S = list(S)
    new_index = {old: k for k, old in enumerate(S)}
    chains, ai = [], 0
    for c in v["chains"]:
        residues = []
        for r in c["residues"]:
            atoms = []
            for a in r["atoms"]:
                if ai in new_index:
                    atoms.append(dict(a))
                ai += 1
            if atoms:
                residues.append({"name": r["name"], "resSeq": r["resSeq"], "segment_id": r["segment_id"], "atoms": atoms})
        if residues:
            chains.append({"chain_id": c["chain_id"], "residues": residues})
    bonds = [[new_index[i], new_index[j], ty, od] for i, j, ty, od in v["bonds"] if i in new_index and j in new_index]
    return {"chains": chains, "bonds": sorted(bonds, key=_bkey)}


def spec_join(v1, v2):
    n1 = n_atoms(v1)
    return {"chains": _copy.deepcopy(v1["chains"]) + _copy.deepcopy(v2["chains"]),
            "bonds": sorted([list(b) for b in v1["bonds"]] + [[i + n1, j + n1, ty, od] for i, j, ty, od in v2["bonds"]], key=_bkey)}


def pdb_can_hold(v):
    ids = [c["chain_id"] for c in v["chains"]]
    if any(i is not None and len(i) != 1 for i in ids):
        return False
    eff = [i if i is not None else chr(ord("A") + k % 26) for k, i in enumerate(ids)]
    if any(a == b for a, b in zip(eff[:-1], eff[1:])):
        return False
    for c in v["chains"]:
        rs = c["residues"]
        if any(r1["name"] == r2["name"] and r1["resSeq"] == r2["resSeq"] for r1, r2 in zip(rs[:-1], rs[1:])):
            return False
        for r in rs:
            if not (0 <= r["resSeq"] <= 9999 and len(r["name"]) <= 3 and len(r["segment_id"]) <= 4 and r["segment_id"] == r["segment_id"].strip()):
                return False
            if any(len(a["name"]) > 3 or (a["serial"] is not None and not 0 < a["serial"] < 99999) for a in r["atoms"]):
                return False
    return n_atoms(v) > 0


def carrier_expectation(op, v):
    """expected view after an attribute-preserving carrier, with ANY where the carrier is not required to hold the field"""
    e = _copy.deepcopy(v)
    if op[0] in ("h5", "pdb"):
        for b in e["bonds"]:
            b[2] = b[3] = ANY
    if op[0] == "pdb":
        for c in e["chains"]:
            if c["chain_id"] is None:
                c["chain_id"] = ANY
            for r in c["residues"]:
                for a in r["atoms"]:
                    if a["serial"] is None:
                        a["serial"] = ANY
    return e


# ------------------------------------------------------------------------------------------------
# the real transformations
# ------------------------------------------------------------------------------------------------
OTHER = ((2,), (1, 1))  # the fixed right operand of join/stack: 2 chains, 3 residues, 4 atoms, decor rich


def _traj(top, n_frames=1):
    n = top.n_atoms
    xyz = np.zeros((n_frames, n, 3), dtype=np.float32)
    xyz[:, :, 0] = 0.3 * np.arange(n)[None, :]
    xyz[:, :, 1] = 0.1 * np.arange(n_frames)[:, None]
    return md.Trajectory(xyz, top)


def selection(name, n):
    if isinstance(name, (list, tuple)):
        return [int(i) for i in name]
    if name == "all" or n < 2:
        return list(range(n))
    if name == "drop-first":
        return list(range(1, n))
    if name == "drop-last":
        return list(range(n - 1))
    if name == "alternate":
        return list(range(0, n, 2))
    raise ValueError(name)


def apply_op(op, top, d):
    k = op[0]
    if k == "copy":
        return top.copy()
    if k == "copy.copy":
        return _copy.copy(top)
    if k == "deepcopy":
        return _copy.deepcopy(top)
    if k == "pickle":
        return pickle.loads(pickle.dumps(top))
    if k == "subset":
        return top.subset(selection(op[1], top.n_atoms))
    if k == "join":
        return top.join(top if op[1] == "self" else build(describe(OTHER, "rich")))
    if k == "df":
        atoms, bonds = top.to_dataframe()
        return md.Topology.from_dataframe(atoms, bonds)
    if k == "h5":
        p = os.path.join(d, "c04.h5")
        _traj(top).save_hdf5(p)
        return md.load(p).topology
    if k == "pdb":
        p = os.path.join(d, "c04.pdb")
        _traj(top).save_pdb(p, ter=bool(op[1]))
        return md.load(p).topology
    if k == "traj.atom_slice":
        return _traj(top, 2).atom_slice(selection(op[1], top.n_atoms)).topology
    if k == "traj.stack":
        return _traj(top, 2).stack(_traj(build(describe(OTHER, "rich")), 2)).topology
    if k == "traj.slice":
        return _traj(top, 3)[1:3].topology
    raise ValueError(op)


def spec_op(op, v):
    """expected view, or None when the input is outside what the carrier can express"""
    k = op[0]
    if k in ("copy", "copy.copy", "deepcopy", "pickle", "df", "traj.slice"):
        return _copy.deepcopy(v)
    if k in ("subset", "traj.atom_slice"):
        return spec_subset(v, selection(op[1], n_atoms(v)))
    if k == "join":
        return spec_join(v, v if op[1] == "self" else describe(OTHER, "rich"))
    if k == "traj.stack":
        return spec_join(v, describe(OTHER, "rich"))
    if k == "h5":
        return carrier_expectation(op, v)
    if k == "pdb":
        return carrier_expectation(op, v) if pdb_can_hold(v) else None
    raise ValueError(op)


def opname(op):
    k = op[0]
    return {"copy": "Topology.copy", "copy.copy": "copy.copy", "deepcopy": "copy.deepcopy", "pickle": "pickle", "subset": "Topology.subset",
            "join": "Topology.join", "df": "to_dataframe+from_dataframe", "h5": "hdf5-save+load", "traj.atom_slice": "Trajectory.atom_slice",
            "traj.stack": "Trajectory.stack", "traj.slice": "Trajectory.slice"}.get(k) or f"pdb-save+load(ter={bool(op[1])})"


# ------------------------------------------------------------------------------------------------
# field-by-field comparison
# ------------------------------------------------------------------------------------------------
def _serial_kind(v):
    s = [a["serial"] for c in v["chains"] for r in c["residues"] for a in r["atoms"]]
    if all(x is None for x in s):
        return "serial=None"
    return "serial=index+1" if s == list(range(1, len(s) + 1)) else "serial=non-contiguous"


def _adjacent_same(v):
    return any(r1["name"] == r2["name"] and r1["resSeq"] == r2["resSeq"]
               for c in v["chains"] for r1, r2 in zip(c["residues"][:-1], c["residues"][1:]))


def diff(obs, problems, exp, op, src):
    """list of (clause, feature, detail, observed, expected).  `feature` refines the witness class (root-cause level)."""
    out = []
    for kind, text in problems[:1]:
        out.append((kind, "", text, None, None))
    if structure(obs) != structure(exp):
        feat = "adjacent-residues-same-name-and-resSeq" if _adjacent_same(src) else ""
        out.append(("structure", feat, "chains/residues/atoms nesting differs", structure(obs), structure(exp)))
        return out
    seen = set()
    multi = "multi-chain" if len(src["chains"]) > 1 else "single-chain"

    def cmp(field, o, e, where, feat=""):
        if e is ANY or o == e or field in seen:
            return
        seen.add(field)
        out.append((field, feat, f"{field} of {where}", o, e))
    for ci, (co, ce) in enumerate(zip(obs["chains"], exp["chains"])):
        cmp("chain_id", co["chain_id"], ce["chain_id"], f"chain {ci}")
        for ri, (ro, re_) in enumerate(zip(co["residues"], ce["residues"])):
            w = f"chain {ci} residue {ri}"
            cmp("residue-name", ro["name"], re_["name"], w)
            if ro["resSeq"] != re_["resSeq"] and re_["resSeq"] == 0 and "resSeq=0" not in seen:
                seen.add("resSeq=0")
                out.append(("resSeq", "resSeq=0", f"resSeq of {w}", ro["resSeq"], 0))
            elif re_["resSeq"] != 0:
                cmp("resSeq", ro["resSeq"], re_["resSeq"], w)
            cmp("segment_id", ro["segment_id"], re_["segment_id"], w)
            for k, (ao, ae) in enumerate(zip(ro["atoms"], re_["atoms"])):
                cmp("atom-name", ao["name"], ae["name"], f"{w} atom {k}")
                cmp("element", ao["element"], ae["element"], f"{w} atom {k}", "virtual-site" if ae["element"] == "VS" else "")
                cmp("serial", ao["serial"], ae["serial"], f"{w} atom {k}", multi if op[0] == "pdb" else "")
    po, pe = [tuple(b[:2]) for b in obs["bonds"]], [tuple(b[:2]) for b in exp["bonds"]]
    if sorted(po) != sorted(pe):
        feat = (multi + ":" + _serial_kind(src)) if op[0] == "pdb" and op[1] else ""
        out.append(("bonds", feat, "multiset of bonded index pairs", sorted(po), sorted(pe)))
    else:
        for bo, be in zip(obs["bonds"], exp["bonds"]):
            cmp("bond-type", bo[2], be[2], f"bond {tuple(bo[:2])}")
            cmp("bond-order", bo[3], be[3], f"bond {tuple(bo[:2])}")
    return out


# ------------------------------------------------------------------------------------------------
# enumeration of base topologies
# ------------------------------------------------------------------------------------------------
def shapes(max_chains):
    out = []
    for nc in range(1, max_chains + 1):
        out += list(itertools.product(RES_CONFIGS, repeat=nc))
    return sorted(out, key=lambda s: (sum(map(sum, s)), len(s), s))


def base_topologies(tier, seed):
    """(shape, decor) list, small first.  quick: all shapes with <= 2 chains + a seed-chosen sample of 3-chain shapes."""
    sh = shapes(3)
    if tier == "quick":
        small = [s for s in sh if len(s) <= 2]
        big = [s for s in sh if len(s) == 3]
        rng = np.random.RandomState(seed)
        pick = [big[i] for i in sorted(rng.choice(len(big), 12, replace=False))]
        sh = small + pick + [((2, 2), (2, 2), (2, 2))]
    return [(s, d) for s in sh for d in DECORS]


SINGLE_OPS = [("copy",), ("copy.copy",), ("deepcopy",), ("pickle",), ("subset", "all"), ("subset", "drop-first"), ("subset", "alternate"),
              ("join", "self"), ("join", "other"), ("df",), ("h5",), ("pdb", True), ("pdb", False),
              ("traj.atom_slice", "drop-last"), ("traj.stack",), ("traj.slice",)]
SEQ_OPS = [("copy",), ("deepcopy",), ("pickle",), ("subset", "drop-first"), ("join", "self"), ("df",), ("h5",), ("pdb", True)]
SEQ_BASES = [(((2, 1),), "rich"), (((1, 2), (2,)), "rich"), (((2,), (1, 1), (1,)), "rich2"), (((1, 1),), "plain")]
EDITS = ("insert_atom", "delete_atom_by_index", "add_bond")


def apply_edit(top, edit):
    if edit == "insert_atom":
        top.insert_atom("XX", E.carbon, top.residue(0), index=0, rindex=0, serial=999)
    elif edit == "delete_atom_by_index":
        top.delete_atom_by_index(0)
    elif edit == "add_bond":
        top.add_bond(top.atom(0), top.atom(top.n_atoms - 1), type=T.Double, order=2)


# ------------------------------------------------------------------------------------------------
# checks
# ------------------------------------------------------------------------------------------------
ALIAS = {"copy.copy": ("copy",), "deepcopy": ("copy",), "traj.slice": ("copy",), "traj.atom_slice": ("subset",), "traj.stack": ("join",)}


def _canonical(op):
    """copy.copy / copy.deepcopy / Trajectory.slice run Topology.copy, Trajectory.atom_slice runs Topology.subset, Trajectory.stack runs
    Topology.join: the same (clause, feature) failing on the canonical operation is the same finding and is reported once, there."""
    return opname(ALIAS.get(op[0], op))


def _fail_step(chk, known, op, history, d_item, inp, src):
    clause, feat, detail, o, e = d_item
    wc = opname(op) + (":" + feat if feat else "")
    if (opname(op), clause, feat) in known or (_canonical(op), clause, feat) in known:
        chk.evaluations += 1
        return  # already reported (on its own / on the canonical operation)
    if history:
        wc = "after[" + ">".join(opname(h) for h in history) + "]:" + wc
    else:
        known.add((opname(op), clause, feat))
    chk.fail(clause, wc, f"{opname(op)}{' after ' + str([opname(h) for h in history]) if history else ''}: {detail}: observed {o!r}, the specification gives {e!r}",
             inp, observed=o, expected=e)


def run_sequence(chk, known, base, ops, d, edits=True, record_ok=True):
    """apply ops one after the other to build(describe(*base)); judge every step on its actual input"""
    shape, decor = base
    v0 = describe(shape, decor)
    inp = {"check": "sequence", "shape": [list(c) for c in shape], "decor": decor, "ops": [list(o) for o in ops]}
    top = build(v0)
    got, problems = observe(top)
    if got != v0 or problems:
        chk.fail("construct", f"decor={decor}", f"add_chain/add_residue/add_atom/add_bond did not build the described topology: {problems[:1]}", inp, observed=got, expected=v0)
        return
    objs = [top]
    v_in = got
    bad = False
    for k, op in enumerate(ops):
        exp = spec_op(op, v_in)
        if exp is None:
            return  # carrier cannot express this input: outside the quantifier
        try:
            res = apply_op(op, objs[-1], d)
            v_out, problems = observe(res)
        except Exception as e:
            _fail_step(chk, known, op, ops[:k], ("raises", type(e).__name__, f"{type(e).__name__}: {e}", None, None), inp, v_in)
            return
        ds = diff(v_out, problems, exp, op, v_in)
        for item in ds:
            bad = True
            _fail_step(chk, known, op, ops[:k], item, inp, v_in)
        objs.append(res)
        if problems:
            return  # ill-formed object: whatever later steps do with it is the same finding
        v_in = v_out
    if not bad and record_ok:
        chk.ok(nontrivial=(shape, decor, tuple(ops)) if decor != "plain" else None, sample=inp if len(ops) > 1 else None)
    return objs


def independence(chk, known, base, ops, d):
    """after the sequence: one edit on either end must not be visible in any other object of the history"""
    shape, decor = base
    for edit in EDITS:
        for side in ("result", "source"):
            inp = {"check": "independence", "shape": [list(c) for c in shape], "decor": decor, "ops": [list(o) for o in ops], "edit": edit, "side": side}
            try:
                objs = [build(describe(shape, decor))]
                for op in ops:
                    if spec_op(op, observe(objs[-1])[0]) is None:
                        return
                    objs.append(apply_op(op, objs[-1], d))
            except Exception:
                return  # reported by the preservation check
            target = objs[-1] if side == "result" else objs[0]
            others = [o for o in objs if o is not target]
            before = [observe(o)[0] for o in others]
            try:
                apply_edit(target, edit)
            except Exception as e:
                # an edit refused with an error changes nothing; not an independence violation
                chk.ok()
                continue
            after = [observe(o)[0] for o in others]
            changed = [i for i, (b, a) in enumerate(zip(before, after)) if a != b]
            if changed:
                names = [opname(o) for o in ops]
                if any((nm, "independence", f"edit-on-{s}") in known or (_canonical(o), "independence", f"edit-on-{s}") in known
                       for o, nm in zip(ops, names) for s in ("result", "source")):
                    chk.evaluations += 1
                    continue  # a single step of this history already breaks independence on its own (reported there)
                if len(ops) == 1:
                    known.add((names[0], "independence", f"edit-on-{side}"))
                i = changed[0]
                chk.fail("independence", f"{'>'.join(names)}:edit-on-{side}",
                         f"{edit} on the {side} of {names} changed another topology of the history (as seen by the independent observer)", inp,
                         observed=after[i], expected=before[i])
            else:
                chk.ok(nontrivial=(shape, decor, tuple(ops), edit, side))


def check_single(tier, seed, only=None, known=None):
    bases = base_topologies(tier, seed)
    chk = Check("single-transformations", "Topology.copy/__copy__/__deepcopy__/pickle/subset/join/to_dataframe/from_dataframe, HDF5 and PDB save+load, Trajectory.atom_slice/stack/slice",
                bound=f"{len(bases)} topologies = shapes (<=3 chains x <=2 residues x <=2 atoms; {'all 42 with <=2 chains + 13 with 3 chains' if tier == 'quick' else 'all 258'}) x decorations {DECORS} "
                      f"(plain: defaults; rich: chain ids A/B/X, resSeq 5,0,5,7,0,12, serials 10+7i, segment ids, one virtual site, typed/ordered bonds along and across residues and chains; "
                      f"rich2: chain ids X/A/C, adjacent residues with equal name and resSeq, serial=index+1, a virtual site named like an element) x {len(SINGLE_OPS)} transformations",
                rule="exhaustive; observe(T(top)) compared field by field with spec_T(observe(top)); non-trivial = decorated topology",
                stands_in_for="copy/subset/join/df/HDF5-JSON/PDB obligations of C04 (PdbStructure parsing and pandas row semantics are assumed there)", exhaustive=True)
    known = set() if known is None else known
    with Scratch("c04") as d:
        for base in bases:
            for op in SINGLE_OPS:
                if only and (only["shape"] != [list(c) for c in base[0]] or only["decor"] != base[1] or only["ops"] != [list(op)]):
                    continue
                run_sequence(chk, known, base, (op,), d)
    return chk


def check_all_subsets(tier, seed, only=None, known=None):
    bases = base_topologies(tier, seed)
    if tier == "quick":
        bases = [b for b in bases if sum(map(sum, b[0])) <= 8]
    chk = Check("all-subsets", "Topology.subset",
                bound=f"every non-empty strictly increasing atom subset of {len(bases)} topologies (up to {max(sum(map(sum, b[0])) for b in bases)} atoms: up to {2 ** max(sum(map(sum, b[0])) for b in bases) - 1} subsets each)",
                rule="exhaustive; non-trivial = subset that empties at least one residue; a (clause, class) already reported by single-transformations is not repeated here", stands_in_for="_topology_from_subset obligations", exhaustive=True)
    known = set() if known is None else known
    for shape, decor in bases:
        v0 = describe(shape, decor)
        n = n_atoms(v0)
        top = build(v0)
        for mask in range(1, 2 ** n):
            S = [i for i in range(n) if mask >> i & 1]
            if only and (only["shape"] != [list(c) for c in shape] or only["decor"] != decor or only["ops"] != [["subset", S]]):
                continue
            op = ("subset", S)
            inp = {"check": "all-subsets", "shape": [list(c) for c in shape], "decor": decor, "ops": [["subset", S]]}
            try:
                v_out, problems = observe(top.subset(S))
            except Exception as e:
                _fail_step(chk, known, op, (), ("raises", type(e).__name__, f"{type(e).__name__}: {e}", None, None), inp, v0)
                continue
            exp = spec_subset(v0, S)
            ds = diff(v_out, problems, exp, op, v0)
            for item in ds:
                _fail_step(chk, known, op, (), item, inp, v0)
            if not ds:
                chk.ok(nontrivial=(shape, decor, mask) if len(exp["chains"]) and sum(map(len, structure(exp))) < sum(map(len, structure(v0))) else None)
        # the source is untouched by subsetting
        if observe(top)[0] != v0:
            chk.fail("independence", "Topology.subset:source-modified", "taking subsets changed the source topology", {"check": "all-subsets", "shape": [list(c) for c in shape], "decor": decor, "ops": []})
    return chk


def check_sequences(tier, seed, only=None, known=None):
    L = 2 if tier == "quick" else 3
    chk = Check("transformation-sequences-then-edit", "sequences of copy/deepcopy/pickle/subset/join/df/h5/pdb, then insert_atom/delete_atom_by_index/add_bond on either end",
                bound=f"{len(SEQ_BASES)} base topologies x all sequences of length <= {L} over {len(SEQ_OPS)} transformations "
                      f"({sum(len(SEQ_OPS) ** k for k in range(1, L + 1))} sequences) x {len(EDITS)} edits x 2 sides",
                rule="exhaustive; each step judged on its actual input (a step that already fails alone -- here or in single-transformations -- is not re-reported in longer histories); after the sequence one edit on the "
                     "final result / on the original must leave every other topology of the history unchanged as seen by the independent observer; non-trivial = edit case evaluated",
                stands_in_for="heap-separation obligations (copy independence) over histories", exhaustive=True)
    known = set() if known is None else known
    with Scratch("c04s") as d:
        for n in range(1, L + 1):
            for base in SEQ_BASES:
                for ops in itertools.product(SEQ_OPS, repeat=n):
                    if only and (only["shape"] != [list(c) for c in base[0]] or only["decor"] != base[1] or only["ops"] != [list(o) for o in ops]):
                        continue
                    if not (only and only.get("check") == "independence"):
                        run_sequence(chk, known, base, ops, d, record_ok=True)
                    if not (only and only.get("check") == "sequence"):
                        independence(chk, known, base, ops, d)
    return chk


# ---- equality and hash ---------------------------------------------------------------------------
VARIANT_FIELDS = ("resSeq", "segment_id", "chain_id", "serial", "residue-name", "atom-name", "element", "bond-type", "bond-order", "bond-pair")


def variant(v, field):
    """a copy of the description differing in exactly one attribute at one place (None if not applicable)"""
    w = _copy.deepcopy(v)
    r = w["chains"][-1]["residues"][-1]
    a = r["atoms"][-1]
    if field == "resSeq":
        r["resSeq"] += 100
    elif field == "segment_id":
        r["segment_id"] = "ZZ"
    elif field == "chain_id":
        w["chains"][-1]["chain_id"] = "Q"
    elif field == "serial":
        a["serial"] = 4321
    elif field == "residue-name":
        r["name"] = "LGX"
    elif field == "atom-name":
        a["name"] = "S9"
    elif field == "element":
        a["element"] = "S"
    elif field in ("bond-type", "bond-order", "bond-pair"):
        if not w["bonds"]:
            return None
        b = w["bonds"][-1]
        if field == "bond-type":
            b[2] = "Triple" if b[2] != "Triple" else "Single"
        elif field == "bond-order":
            b[3] = 3 if b[3] != 3 else 1
        else:
            n = n_atoms(w)
            cand = [(i, j) for i in range(n) for j in range(i + 1, n) if [i, j] not in [x[:2] for x in w["bonds"]]]
            if not cand:
                return None
            b[0], b[1] = cand[0]
        w["bonds"].sort(key=_bkey)
    return w


EQ_OPS = [("copy",), ("deepcopy",), ("pickle",), ("subset", "all"), ("subset", "drop-first"), ("join", "self"), ("df",), ("h5",), ("pdb", True)]


def check_eq_hash(tier, seed, only=None):
    bases = [b for b in base_topologies(tier, seed) if b[1] != "plain" or sum(map(sum, b[0])) <= 3]
    if tier == "quick":
        bases = [b for b in bases if len(b[0]) <= 2]
    chk = Check("equality-and-hash", "Topology.__eq__/__hash__ (and Chain/Residue/Atom/Bond hashes) before and after every transformation",
                bound=f"{len(bases)} topologies x (identity-like transformations copy/deepcopy/pickle: result == source and hashes equal) + "
                      f"x {len(VARIANT_FIELDS)} one-attribute variants (a, a'): a == a' implies hash(a) == hash(a') and T(a) == T(a') for {len(EQ_OPS)} transformations T",
                rule="exhaustive; the implication is only evaluated when mdtraj's == says the pair is equal; non-trivial = pair reported equal by ==",
                stands_in_for="contract implication eq => hash between Topology.__eq__ and the __hash__ methods", exhaustive=True)
    with Scratch("c04e") as d:
        for shape, decor in bases:
            v0 = describe(shape, decor)
            sh = [list(c) for c in shape]
            for op in (("copy",), ("copy.copy",), ("deepcopy",), ("pickle",)):
                inp = {"check": "eq-identity", "shape": sh, "decor": decor, "ops": [list(op)]}
                if only and only != inp:
                    continue
                a = build(v0)
                try:
                    r = apply_op(op, a, d)
                    eq, hq = (r == a) and (a == r), hash(r) == hash(a)
                except Exception as e:
                    chk.fail("eq-raises", f"{opname(op)}:{type(e).__name__}", f"comparing/hashing the result of {opname(op)} raised {type(e).__name__}: {e}", inp)
                    continue
                if not eq:
                    chk.fail("copy-compares-equal", opname(op), f"{opname(op)}(a) == a is False", inp, observed=False, expected=True)
                elif not hq:
                    chk.fail("eq-implies-hash", f"{opname(op)}(a)-vs-a", f"{opname(op)}(a) == a but the hashes differ", inp, observed=[hash(r), hash(a)])
                else:
                    chk.ok(nontrivial=(shape, decor, op))
            for field in VARIANT_FIELDS:
                v1 = variant(v0, field)
                if v1 is None or v1 == v0:
                    continue
                inp = {"check": "eq-variant", "shape": sh, "decor": decor, "field": field}
                if only and {k: only.get(k) for k in inp} != inp:
                    continue
                a, b = build(v0), build(v1)
                try:
                    eq = (a == b)
                    if eq != (b == a):
                        chk.fail("eq-symmetric", f"differ-only-in:{field}", f"a == b is {eq} but b == a is {not eq}", inp)
                        continue
                except Exception as e:
                    chk.fail("eq-raises", f"differ-only-in:{field}:{type(e).__name__}", f"== raised {type(e).__name__}: {e}", inp)
                    continue
                if not eq:
                    chk.ok()  # unequal: nothing is demanded of the hashes
                    continue
                if hash(a) != hash(b):
                    chk.fail("eq-implies-hash", f"differ-only-in:{field}", f"two topologies that differ only in one {field} compare equal (==) but hash differently", inp,
                             observed=[hash(a), hash(b)], expected="equal hashes")
                    continue
                ok = True
                for op in EQ_OPS:
                    if only and only.get("op") and only["op"] != list(op):
                        continue
                    if spec_op(op, v0) is None or spec_op(op, v1) is None:
                        continue
                    try:
                        ra, rb = apply_op(op, a, d), apply_op(op, b, d)
                        if any(diff(*observe(r), spec_op(op, v), op, v) for r, v in ((ra, v0), (rb, v1))):
                            continue  # T itself does not preserve a or b: that is the single-transformation finding, not an ==/hash one
                        if not (ra == rb):
                            ok = False
                            chk.fail("equal-after-transformation", f"{opname(op)}:differ-only-in:{field}", f"a == b but {opname(op)}(a) != {opname(op)}(b)", dict(inp, op=list(op)))
                        elif hash(ra) != hash(rb):
                            ok = False
                            chk.fail("eq-implies-hash", f"after-{opname(op)}:differ-only-in:{field}", f"{opname(op)}(a) == {opname(op)}(b) but the hashes differ", dict(inp, op=list(op)))
                    except Exception as e:
                        ok = False
                        chk.fail("eq-raises", f"{opname(op)}:differ-only-in:{field}:{type(e).__name__}", f"{type(e).__name__}: {e}", dict(inp, op=list(op)))
                if ok:
                    chk.ok(nontrivial=(shape, decor, field))
    return chk


# ------------------------------------------------------------------------------------------------
def run(tier, seed, hint):
    known = set()  # single-step findings, shared so that a finding is reported by one check only
    return [check_single(tier, seed, known=known), check_all_subsets(tier, seed, known=known), check_sequences(tier, seed, known=known),
            check_eq_hash(tier, seed)]


def replay(payload):
    inp = payload.get("input") or payload.get("failing_input")
    kind = inp.get("check")
    chk = Check("replay", "", "", "")
    known = set()
    base = (tuple(tuple(c) for c in inp["shape"]), inp["decor"])
    with Scratch("c04r") as d:
        if kind in ("sequence", "all-subsets"):
            ops = tuple(tuple(tuple(x) if isinstance(x, list) else x for x in o) for o in inp["ops"])
            run_sequence(chk, known, base, ops, d)
        elif kind == "independence":
            ops = tuple(tuple(o) for o in inp["ops"])
            global EDITS
            saved = EDITS
            try:
                EDITS = (inp["edit"],)
                independence(chk, known, base, ops, d)
            finally:
                EDITS = saved
            chk.failures = [f for f in chk.failures if f["input"]["side"] == inp["side"]]
        else:
            big = check_eq_hash_one(inp)
            chk = big
    return {"reproduced": bool(chk.failures), "failures": chk.failures}


def check_eq_hash_one(inp):
    """replay helper: evaluate the equality/hash check on the single recorded case (any tier's enumeration contains it)"""
    global base_topologies
    saved = base_topologies
    try:
        shape = tuple(tuple(c) for c in inp["shape"])
        base_topologies = lambda tier, seed: [(shape, inp["decor"])]  # noqa: E731
        return check_eq_hash("thorough", 0, only=inp)
    finally:
        base_topologies = saved
