"""C01 bounded contract check: save -> load round trip, and an independent reading of the written bytes.

For every extension accepted by Trajectory.save (h5, xtc, trr, dcd, nc/netcdf/ncdf, mdcrd/crd, xyz, xyz.gz, lammpstrj,
gro, pdb, pdb.gz, dtr, rst7, ncrst) and an explicit grid of trajectories

    frames {1,2,3} x atoms {1,3,9,10,11,40} x magnitude {1e-3, 1, 99, format field limit - eps} (always with negative
    coordinates) x non-uniform times x cell {none, orthorhombic, triclinic, per-frame varying}

the real `Trajectory.save` writes a file, which is then read back (i) with `md.load` and (ii) with the independent
decoders of `/verif/specs/decoders.py` (struct / column-spec level, no mdtraj code).  Contracts, per FORMAT:

  * n_frames, n_atoms equal;
  * coordinates equal within the format's stated precision (table FAM below: derivation in the comments);
  * times equal iff the format stores a time per frame (h5, xtc, trr, nc, gro, dtr, rst7, ncrst; NOT dcd, mdcrd, xyz,
    lammpstrj, pdb);
  * unit cell equal iff the format stores one (per frame: h5, xtc, trr, dcd, nc, lammpstrj, gro, dtr, rst7, ncrst;
    box lengths only: mdcrd; one CRYST1 for the whole file: pdb -> only frame 0 is claimed; none: xyz);
  * a trajectory without a cell loads without a cell;
  * the independent reader extracts, in the format's native units (Angstrom: dcd, nc, ncrst, mdcrd, rst7, xyz,
    lammpstrj, pdb; nm: xtc, trr, gro, h5) the trajectory's numbers.

An exception raised by save or by load is an *error, not a silent difference*: it is recorded as an observation
(`observations` in the check result), not as a contract failure.

Tolerances.  u = 2**-24 (half a float32 ulp, relative).  nm->A->nm in float32 is three roundings (x*10, the float32
factor 0.1, the product): relative 4u.  A text field with d decimals in unit s contributes 0.5*10**-d*s absolute.
XTC with > 9 atoms stores round(x*1000) as an integer computed in float32: 0.5e-3 nm + 4u*|x| (+ the decode
multiplication).  Box matrices (xtc, trr, gro, dtr) go lengths/angles -> vectors -> lengths/angles through float32:
16u of the longest edge.
"""
from __future__ import annotations

import concurrent.futures as cf
import itertools
import multiprocessing
import os

import numpy as np

import mdtraj as md
from bcc.api import Check
from bcc.fixtures import Scratch, make_topology
from specs import decoders as D

U = 2.0 ** -24

EXTS = ["h5", "xtc", "trr", "dcd", "nc", "netcdf", "ncdf", "mdcrd", "crd", "xyz", "xyz.gz", "lammpstrj", "gro", "pdb",
        "pdb.gz", "dtr", "rst7", "ncrst"]
FAMILY = {"h5": "h5", "xtc": "xtc", "trr": "trr", "dcd": "dcd", "nc": "nc", "netcdf": "nc", "ncdf": "nc", "mdcrd": "mdcrd",
          "crd": "mdcrd", "xyz": "xyz", "xyz.gz": "xyz", "lammpstrj": "lammpstrj", "gro": "gro", "pdb": "pdb", "pdb.gz": "pdb",
          "dtr": "dtr", "rst7": "rst7", "ncrst": "ncrst"}
PRIMARY = ["h5", "xtc", "trr", "dcd", "nc", "mdcrd", "xyz", "lammpstrj", "gro", "pdb", "dtr", "rst7", "ncrst"]
ALIASES = ["netcdf", "ncdf", "crd", "xyz.gz", "pdb.gz"]

# per family: what the FORMAT stores and with which precision.  (abs, rel) pairs; lengths in nm, angles in degrees.
#   time: None = format stores no per-frame time.   cell: "la" lengths+angles per frame, "vec" 3x3 matrix per frame,
#   "lengths" box lengths only (rectangular), "first" one cell for the whole file, None = no cell.
#   limit = (most negative, most positive) coordinate in nm that fits the fixed-width field (None: free format / binary)
FAM = {
    "h5": dict(saver="save_hdf5", time=(0, 0), cell="la", xyz=(0, 0), L=(0, 0), A=(0, 0), limit=None),
    "xtc": dict(saver="save_xtc", time=(0, 0), cell="vec", xyz=(0, 0), xyz_compressed=(0.5e-3, 8 * U), V=(0, 16 * U), limit=None),
    "trr": dict(saver="save_trr", time=(0, 0), cell="vec", xyz=(0, 0), V=(0, 16 * U), limit=None),
    "dcd": dict(saver="save_dcd", time=None, cell="la", xyz=(0, 4 * U), L=(0, 4 * U), A=(1e-9, 4 * U), limit=None),
    "nc": dict(saver="save_netcdf", time=(0, 0), cell="la", xyz=(0, 4 * U), L=(0, 4 * U), A=(0, 0), limit=None),
    "ncrst": dict(saver="save_netcdfrst", time=(0, 0), cell="la", xyz=(0, 4 * U), L=(0, 4 * U), A=(0, 0), limit=None),
    # %12.7f Angstrom; %15.7e time (8 significant digits: 0.5e-7 relative) then a float32 cast (u)
    "rst7": dict(saver="save_amberrst7", time=(0, 0.5e-7 + 2 * U), cell="la", xyz=(0.5e-8, 4 * U), L=(0.5e-8, 4 * U), A=(0.5e-7, 4 * U),
                 limit=(-99.9, 999.9)),
    # 10F8.3 Angstrom, box 3F8.3
    "mdcrd": dict(saver="save_mdcrd", time=None, cell="lengths", xyz=(0.5e-4, 4 * U), L=(0.5e-4, 4 * U), A=(0, 0), limit=(-99.9, 999.9)),
    "xyz": dict(saver="save_xyz", time=None, cell=None, xyz=(0.5e-4, 4 * U), limit=None),
    "lammpstrj": dict(saver="save_lammpstrj", time=None, cell="la", xyz=(0.5e-4, 4 * U), L=(1e-9, 8 * U), A=(1e-9, 8 * U), limit=None),
    # positions %(p+5).pf nm, box %10.5f nm
    "gro": dict(saver="save_gro", time=(0, 0), cell="vec", xyz=(0.5e-3, 4 * U), V=(0.5e-5, 16 * U), limit=(-999.0, 9999.0)),
    # ATOM x,y,z 8.3 Angstrom; CRYST1 9.3 / 7.2
    "pdb": dict(saver="save_pdb", time=None, cell="first", xyz=(0.5e-4, 4 * U), L=(0.5e-4, 4 * U), A=(0.5e-2, 4 * U), limit=(-99.9, 999.9)),
    "dtr": dict(saver="save_dtr", time=(0, 0), cell="la", xyz=(0, 4 * U), L=(1e-9, 16 * U), A=(1e-6, 16 * U), limit=None),
}
# native-unit tolerances of the independent decoder: the file holds fl32(x*k) (one rounding: 2u) [+ half a printed unit]
NATIVE_XYZ = {"h5": (0, 0), "xtc": (0, 0), "trr": (0, 0), "dcd": (0, 2 * U), "nc": (0, 2 * U), "ncrst": (0, 2 * U),
              "rst7": (0.5e-7, 2 * U), "mdcrd": (0.5e-3, 2 * U), "xyz": (0.5e-3, 2 * U), "lammpstrj": (0.5e-3, 2 * U),
              "gro": (0.5e-3, 2 * U), "pdb": (0.5e-3, 2 * U)}
NATIVE_L = {"h5": (0, 0), "dcd": (0, 2 * U), "nc": (0, 2 * U), "ncrst": (0, 2 * U), "rst7": (0.5e-7, 2 * U), "mdcrd": (0.5e-3, 2 * U),
            "lammpstrj": (1e-8, 4 * U), "pdb": (0.5e-3, 2 * U)}
NATIVE_A = {"h5": (0, 0), "dcd": (1e-9, 2 * U), "nc": (0, 0), "ncrst": (0, 0), "rst7": (0.5e-7, 2 * U), "mdcrd": (0, 0),
            "lammpstrj": (1e-8, 4 * U), "pdb": (0.5e-2, 2 * U)}
NATIVE_V = {"xtc": (0, 16 * U), "trr": (0, 16 * U), "gro": (0.5e-5, 16 * U)}
DECLARED_UNITS = {"nc": {"coordinates": "angstrom", "time": "picosecond", "cell_lengths": "angstrom", "cell_angles": "degree"},
                  "ncrst": {"coordinates": "angstrom", "time": "picosecond", "cell_lengths": "angstrom", "cell_angles": "degree"},
                  "h5": {"coordinates": "nanometers", "time": "picoseconds", "cell_lengths": "nanometers", "cell_angles": "degrees"}}
NEEDS_TOP = {"xtc", "trr", "dcd", "nc", "mdcrd", "xyz", "lammpstrj", "dtr", "rst7", "ncrst"}

FRAMES = [1, 2, 3]
ATOMS = [1, 3, 9, 10, 11, 40]
# "huge": anisotropic extents far above 16777 nm (x +-1e4, y +-2e4, z +-2e5 nm): the range in which XTC switches to its
# large-integer packing with a different bit width per axis; only for the binary formats (text fields overflow)
MAGS = ["1", "1e-3", "99", "limit", "huge"]
BINARY_FAMS = ("xtc", "trr", "dcd", "h5", "nc", "ncrst", "dtr")
CELLS = ["none", "ortho", "triclinic", "varying"]


class ObsCheck(Check):
    """a Check that also carries `observations`: errors raised by save/load (not silent differences, not failures)"""

    def __init__(self, *a, **k):
        super().__init__(*a, **k)
        self.observations = {}

    def observe(self, key, detail):
        o = self.observations.setdefault(key, {"count": 0, "first": detail})
        o["count"] += 1

    def result(self):
        r = super().result()
        r["observations"] = [{"what": k, **v} for k, v in sorted(self.observations.items())]
        return r


# ------------------------------------------------------------------------------------------------------------------
# trajectories
# ------------------------------------------------------------------------------------------------------------------
def build(case, fam, precision=3, n_chains=1):
    """deterministic trajectory of a grid point; the 'limit' magnitude depends on the format's field width"""
    nf, na, mag, cell, seed = case["nf"], case["na"], case["mag"], case["cell"], case["seed"]
    rng = np.random.RandomState((seed * 7919 + nf * 101 + na * 13 + MAGIDX(mag) * 3 + CELLIDX(cell)) % (2 ** 31))
    if mag == "limit":
        lim = FAM[fam]["limit"] or (-9999.0, 9999.0)
        lo, hi = lim
        if fam == "gro":  # width precision+5: 4 integer digits (3 when negative)
            lo, hi = -999.0, 9999.0
        xyz = rng.uniform(lo, hi, size=(nf, na, 3))
        xyz[0, 0, 0] = hi * (1 - 1e-4)
        xyz[-1, -1, 2] = lo * (1 - 1e-4)
    elif mag == "huge" and fam in BINARY_FAMS:
        xyz = rng.uniform(-1.0, 1.0, size=(nf, na, 3)) * np.array([1.0e4, 2.0e4, 2.0e5])
        xyz[:, 0, :] = np.array([-1.0e4, -2.0e4, -2.0e5])  # the extremes are attained in every frame
        xyz[:, -1, :] = np.array([1.0e4, 2.0e4, 2.0e5])
    else:
        m = 99.0 if mag == "huge" else float(mag)
        xyz = rng.uniform(-m, m, size=(nf, na, 3))
        xyz[0, 0, 1] = -0.75 * m  # always at least one negative coordinate
    xyz = xyz.astype(np.float32)
    # non-uniform, positive, float32-exact times
    t = (rng.randint(1, 800) / 8.0 + np.cumsum([0.0] + [0.125 * (1 + (3 * i + seed) % 5) for i in range(nf - 1)])).astype(np.float32)
    kw = {}
    if cell != "none":
        base = np.array([4.0, 5.0, 6.0]) + rng.randint(0, 1000, size=3) / 1000.0
        L = np.tile(base, (nf, 1))
        if cell in ("varying", "varying-tri"):
            L = L + 0.173 * np.arange(nf)[:, None] * np.array([1.0, 2.0, 3.0])
        if cell in ("triclinic", "varying-tri"):
            A = np.tile([80.0, 95.0, 110.0], (nf, 1)) + rng.randint(-50, 50, size=3) / 10.0
            if cell == "varying-tri":
                A = A + 0.5 * np.arange(nf)[:, None]
        else:
            A = np.full((nf, 3), 90.0)
        kw = dict(unitcell_lengths=L, unitcell_angles=A)
    top = make_topology(na, n_chains)
    return md.Trajectory(xyz, top, time=t, **kw)


def MAGIDX(m):
    return {"1": 0, "1e-3": 1, "99": 2, "limit": 3, "huge": 5}.get(m, 4)


def CELLIDX(c):
    return {"none": 0, "ortho": 1, "triclinic": 2, "varying": 3, "varying-tri": 4}[c]


def _close(obs, exp, tol):
    a, r = tol
    obs, exp = np.asarray(obs, dtype=np.float64), np.asarray(exp, dtype=np.float64)
    if obs.shape != exp.shape:
        return False, None
    err = np.abs(obs - exp) - (a + r * np.abs(exp))
    bad = err > 0
    if np.isnan(obs).any():
        bad = bad | np.isnan(obs)
    if bad.any():
        i = int(np.argmax(np.where(np.isnan(err), np.inf, err)))
        return False, {"index": [int(v) for v in np.unravel_index(i, obs.shape)], "observed": float(obs.ravel()[i]),
                       "expected": float(exp.ravel()[i]), "allowed": float((a + r * np.abs(exp)).ravel()[i])}
    return True, None


# ------------------------------------------------------------------------------------------------------------------
# one (extension, case, options) evaluation -> list of events
# ------------------------------------------------------------------------------------------------------------------
def _frames_cls(nf):
    return "multi-frame" if nf > 1 else "single-frame"


def _opt_label(ext, options):
    lab = []
    if ext.endswith(".gz"):
        lab.append("gz")
    for k in sorted(options or {}):
        v = options[k]
        if k == "bfactors":
            if v:
                lab.append("bfactors")
        elif k == "n_chains":
            continue
        else:
            lab.append(f"{k}={v}")
    return ":".join(lab)


def _load_mdtraj(ext, fam, path, t):
    if fam in ("rst7", "ncrst"):
        files = D.numbered_files(path, t.n_frames)
        if t.n_frames == 1:
            return md.load(path, top=t.topology)
        loader = md.load_restrt if fam == "rst7" else md.load_ncrestrt
        parts = [loader(f, top=t.topology) for f in files]
        return parts[0].join(parts[1:], check_topology=False)
    if fam in NEEDS_TOP:
        return md.load(path, top=t.topology)
    return md.load(path)


def _decode(fam, path, t):
    has_box = t.unitcell_lengths is not None
    if fam in ("rst7", "ncrst"):
        parts = [D.decode(fam, f, has_box=has_box) for f in D.numbered_files(path, t.n_frames)]
        out = dict(parts[0])
        out["xyz"] = np.concatenate([p["xyz"] for p in parts])
        out["n_frames"] = len(out["xyz"])
        for k in ("time", "cell_lengths", "cell_angles"):
            out[k] = None if any(p[k] is None for p in parts) else np.concatenate([p[k] for p in parts])
        units = {}
        for p in parts:
            for k, v in p["units"].items():
                units.setdefault(k, v)
                if units[k] != v:
                    units[k] = f"{units[k]}|{v}"
        out["units"] = units
        return out
    return D.decode(fam, path, n_atoms=t.n_atoms, has_box=has_box)


def _evaluate_raw(ext, case, options=None):
    """returns events: ("ok", check, nontrivial, sample) | ("fail", check, clause, saver, what, observed, expected, input)
    | ("obs", check, key, detail)"""
    options = dict(options or {})
    fam = FAMILY[ext]
    spec = FAM[fam]
    saver = spec["saver"]
    ev = []
    precision = options.get("precision", 3)
    t = build(case, fam, n_chains=options.get("n_chains", 1))
    nf, na, cell = case["nf"], case["na"], case["cell"]
    opt = _opt_label(ext, options)
    inp = {"ext": ext, "case": case, "options": options}
    kw = {}
    if "precision" in options:
        kw["precision"] = precision
    for k in ("ter", "header"):
        if k in options:
            kw[k] = options[k]
    bf = None
    if options.get("bfactors") == "1d":
        bf = np.round(np.linspace(-9.5, 99.5, na), 2)
        kw["bfactors"] = bf
    elif options.get("bfactors") == "2d":
        bf = np.round(np.linspace(-9.5, 99.5, nf * na).reshape(nf, na), 2)
        kw["bfactors"] = bf
    atoms_cls = ("<=9-atoms" if na <= 9 else ">9-atoms") if fam == "xtc" else ""
    mag_cls = "mag=limit" if case["mag"] == "limit" else ("mag=huge-anisotropic" if case["mag"] == "huge" else "mag<=99")
    cell_cls = {"none": "no-cell", "ortho": "orthorhombic", "triclinic": "triclinic", "varying": "varying:multi-frame" if nf > 1 else "orthorhombic",
                "varying-tri": "varying:multi-frame" if nf > 1 else "triclinic"}[cell]
    count_cls = f"{'1-atom' if na == 1 else 'n-atoms'}:{'no-cell' if cell == 'none' else 'cell'}:{_frames_cls(nf)}"

    def fail(check, clause, feat, what, observed=None, expected=None):
        ev.append(("fail", check, clause, saver, f"{ext}: {what}", observed, expected, inp))

    with Scratch("c01") as d:
        path = os.path.join(d, "t." + ext)
        xyz0, time0 = t.xyz.copy(), t.time.copy()
        try:
            t.save(path, **kw)
        except Exception as e:
            ev.append(("obs", "roundtrip", f"save raises {type(e).__name__} [{saver}; {cell_cls.split(':')[0]}; {_frames_cls(nf)}{'; ' + opt if opt else ''}]",
                       {"ext": ext, "case": case, "options": options, "error": f"{type(e).__name__}: {str(e)[:160]}"}))
            return ev
        if not (np.array_equal(xyz0, t.xyz) and np.array_equal(time0, t.time)):
            fail("roundtrip", "input-modified", "", "save changed the trajectory it was given")
        has_cell = t.unitcell_lengths is not None
        L0 = None if not has_cell else t.unitcell_lengths.astype(np.float64)
        A0 = None if not has_cell else t.unitcell_angles.astype(np.float64)
        V0 = None if not has_cell else D.box_vectors_from_lengths_angles(L0, A0)
        xyz_tol = spec["xyz"]
        if fam == "xtc" and na > 9:
            xyz_tol = spec["xyz_compressed"]
        if fam == "gro":
            xyz_tol = (0.5 * 10.0 ** -precision, 4 * U)

        # ---------------- (i) md.load ----------------
        r = None
        try:
            r = _load_mdtraj(ext, fam, path, t)
        except Exception as e:
            ev.append(("obs", "roundtrip", f"load raises {type(e).__name__} [{saver}; {count_cls}{'; ' + opt if opt else ''}]",
                       {"ext": ext, "case": case, "options": options, "error": f"{type(e).__name__}: {str(e)[:160]}"}))
        if r is not None:
            good = True
            if r.n_frames != nf or r.n_atoms != na:
                good = False
                fail("roundtrip", "n-frames" if r.n_frames != nf else "n-atoms", count_cls,
                     f"saved {nf} frames x {na} atoms, md.load returns {r.n_frames} frames x {r.n_atoms} atoms",
                     [r.n_frames, r.n_atoms], [nf, na])
            else:
                ok, w = _close(r.xyz, t.xyz, xyz_tol)
                if not ok:
                    good = False
                    fail("roundtrip", "xyz-roundtrip", ":".join(x for x in (atoms_cls, mag_cls) if x),
                         f"coordinates differ beyond the format precision {xyz_tol} (nm)", w, None)
                if spec["time"] is not None:
                    ok, w = _close(r.time, t.time, spec["time"])
                    if not ok:
                        good = False
                        fail("roundtrip", "time-roundtrip", _frames_cls(nf), "time stamps differ although the format stores them",
                             np.asarray(r.time), np.asarray(t.time))
                if not has_cell and spec["cell"] is not None:
                    if r.unitcell_lengths is not None:
                        good = False
                        fail("roundtrip", "cell-absent", "no-cell", "trajectory without unit cell loads with one",
                             np.asarray(r.unitcell_lengths), None)
                if has_cell and spec["cell"] is not None:
                    if r.unitcell_lengths is None:
                        good = False
                        fail("roundtrip", "cell-roundtrip", cell_cls, "unit cell lost although the format stores it", None, L0)
                    else:
                        rl, ra = r.unitcell_lengths.astype(np.float64), r.unitcell_angles.astype(np.float64)
                        el, ea = L0, A0
                        if spec["cell"] == "first":  # one CRYST1 per file: only frame 0 is stored
                            rl, ra, el, ea = rl[:1], ra[:1], L0[:1], A0[:1]
                        if spec["cell"] == "vec":
                            a, rel = spec["V"]
                            ok, w = _close(D.box_vectors_from_lengths_angles(rl, ra), V0, (a + rel * float(L0.max()), 0))
                        else:
                            ok, w = _close(rl, el, spec["L"])
                            if ok:
                                ok, w = _close(ra, ea, spec["A"])
                        if not ok:
                            good = False
                            fail("roundtrip", "cell-roundtrip", cell_cls, "unit cell differs beyond the format precision", w, None)
            if good:
                ev.append(("ok", "roundtrip", (fam, nf > 1, na > 9, case["mag"], cell, opt), {"ext": ext, "case": case, "options": options}))

        # ---------------- (ii) independent decoder ----------------
        if fam == "dtr" or (fam == "xtc" and na > 9):
            return ev
        try:
            dec = _decode(fam, path, t)
        except D.DecodeError as e:
            fail("independent", "native-layout", count_cls, f"independent reader rejects the file: {e}", str(e), None)
            return ev
        k = D.NM_TO_NATIVE[D.NATIVE_UNIT[fam]]
        good = True
        if dec["n_frames"] != nf or dec["n_atoms"] != na:
            good = False
            fail("independent", "native-n-frames" if dec["n_frames"] != nf else "native-n-atoms", count_cls,
                 f"file holds {dec['n_frames']} frames x {dec['n_atoms']} atoms for an independent reader, trajectory has {nf} x {na}",
                 [dec["n_frames"], dec["n_atoms"]], [nf, na])
        else:
            nt = NATIVE_XYZ[fam]
            if fam == "gro":
                nt = (0.5 * 10.0 ** -precision, 2 * U)
            ok, w = _close(dec["xyz"], t.xyz.astype(np.float64) * k, nt)
            if not ok:
                good = False
                fail("independent", "native-xyz", mag_cls, f"coordinates in the file ({D.NATIVE_UNIT[fam]}) are not the trajectory's", w, None)
            if spec["time"] is not None:
                if dec["time"] is None:
                    good = False
                    fail("independent", "native-time", _frames_cls(nf), "no time in the file although the format stores one", None, np.asarray(t.time))
                else:
                    ok, w = _close(dec["time"], t.time, (0, 0.5e-7 + U) if fam == "rst7" else (0, 0))
                    if not ok:
                        good = False
                        fail("independent", "native-time", _frames_cls(nf), "time stamps in the file (ps) are not the trajectory's",
                             dec["time"], np.asarray(t.time))
            file_has_cell = dec["cell_lengths"] is not None or (dec["box_vectors"] is not None and np.abs(dec["box_vectors"]).max() > 0)
            if spec["cell"] is not None and has_cell != file_has_cell:
                good = False
                fail("independent", "native-cell", cell_cls, f"trajectory has cell={has_cell}, file has cell={file_has_cell}")
            elif spec["cell"] is not None and has_cell:
                if spec["cell"] == "vec":
                    a, rel = NATIVE_V[fam]
                    ok, w = _close(dec["box_vectors"], V0 * k, (a + rel * float(L0.max()) * k, 0))
                else:
                    el, ea = L0 * k, A0
                    if spec["cell"] == "first":
                        el, ea = el[:1], ea[:1]
                    ok, w = _close(dec["cell_lengths"], el, NATIVE_L[fam])
                    if ok:
                        ok, w = _close(dec["cell_angles"], ea, NATIVE_A[fam])
                    if ok and spec["cell"] == "first" and dec["extra"]["n_cryst1"] != 1:
                        ok, w = False, {"n_cryst1": dec["extra"]["n_cryst1"]}
                if not ok:
                    good = False
                    fail("independent", "native-cell", cell_cls, f"unit cell in the file ({D.NATIVE_UNIT[fam]}, degrees) is not the trajectory's", w, None)
            for name, want in DECLARED_UNITS.get(fam, {}).items():
                if name in dec["units"] and dec["units"][name] != want:
                    good = False
                    fail("independent", "native-units-attr", name, f"variable {name} declares units {dec['units'][name]!r}, convention says {want!r}",
                         dec["units"][name], want)
            if fam == "dcd" and dec["extra"]["header_nset"] != nf:
                good = False
                fail("independent", "native-header-count", "", f"DCD header NSET={dec['extra']['header_nset']} but {nf} frames were written",
                     dec["extra"]["header_nset"], nf)
            if fam == "pdb" and bf is not None:
                want = np.tile(bf, (nf, 1)) if bf.ndim == 1 else bf
                ok, w = _close(dec["extra"]["bfactors"], want, (0.5e-2, 0))
                if not ok:
                    good = False
                    fail("independent", "native-bfactors", "", "temperature factor columns 61-66 are not the bfactors given", w, None)
        if good:
            ev.append(("ok", "independent", (fam, nf > 1, na > 9, case["mag"], cell, opt), {"ext": ext, "case": case, "options": options}))
    return ev


# ------------------------------------------------------------------------------------------------------------------
# witness classification: which features of the failing case are NECESSARY for the clause to fail
# ------------------------------------------------------------------------------------------------------------------
OPTION_DEFAULTS = {"precision": 3, "ter": True, "header": True, "bfactors": None, "n_chains": 1}


def _neutral_variants(ext, case, options):
    """(feature name, ext', case', options') : the same input with ONE feature switched to its neutral value"""
    options = dict(options or {})
    out = []
    nf, na, mag, cell = case["nf"], case["na"], case["mag"], case["cell"]
    if nf > 1:
        c1 = "ortho" if cell == "varying" else ("triclinic" if cell == "varying-tri" else cell)
        out.append(("multi-frame", ext, dict(case, nf=1, cell=c1), options))
    if na == 1:
        out.append(("1-atom", ext, dict(case, na=3), options))
    if na > 9:
        out.append((">9-atoms", ext, dict(case, na=9), options))
    if cell == "none":
        out.append(("no-cell", ext, dict(case, cell="ortho"), options))
    if cell in ("triclinic", "varying-tri"):
        out.append(("triclinic", ext, dict(case, cell="ortho" if cell == "triclinic" else "varying"), options))
    if cell in ("varying", "varying-tri") and nf > 1:
        out.append(("varying-cell", ext, dict(case, cell="ortho" if cell == "varying" else "triclinic"), options))
    if mag != "1":
        out.append(("mag=limit" if mag == "limit" else ("mag=huge-anisotropic" if mag == "huge" else ("mag<1" if float(mag) < 1 else "mag>1")), ext, dict(case, mag="1"), options))
    for k, dflt in OPTION_DEFAULTS.items():
        if k in options and options[k] != dflt:
            name = {"bfactors": "bfactors", "n_chains": "multi-chain"}.get(k, f"{k}={options[k]}")
            out.append((name, ext, case, dict(options, **{k: dflt})))
    if ext.endswith(".gz"):
        out.append(("gz", ext[:-3], case, options))
    return out


def evaluate(ext, case, options=None):
    """evaluate one input; every failure gets the witness class  <saver>[:<necessary feature>...]  where a feature is
    necessary iff switching only it to its neutral value makes the same clause stop failing"""
    events = _evaluate_raw(ext, case, options)
    fails = [e for e in events if e[0] == "fail"]
    if not fails:
        return events
    variants = _neutral_variants(ext, case, options)
    cache = {}
    out = []
    for e in events:
        if e[0] != "fail":
            out.append(e)
            continue
        _, check, clause, saver, what, observed, expected, inp = e
        feats = []
        for name, ext2, case2, opt2 in variants:
            key = (ext2, tuple(sorted(case2.items())), tuple(sorted((opt2 or {}).items(), key=str)))
            if key not in cache:
                # three data seeds: a data-dependent failure (precision) must not make a feature look necessary by chance
                cache[key] = set()
                for ds in range(3):
                    cache[key] |= {(x[1], x[2]) for x in _evaluate_raw(ext2, dict(case2, seed=case2["seed"] + ds), opt2) if x[0] == "fail"}
            if (check, clause) not in cache[key]:
                feats.append(name)
        witness = saver + "".join(":" + f for f in feats)
        out.append(("fail", check, clause, witness, what, observed, expected, inp))
    return out


def _work(job):
    import warnings

    warnings.simplefilter("ignore")
    out = []
    for ext, case, options in job:
        try:
            out.append((ext, case, options, evaluate(ext, case, options)))
        except Exception as e:  # a bug in the check itself must be loud, not a finding
            import traceback

            out.append((ext, case, options, [("crash", "roundtrip", f"{type(e).__name__}: {e}", traceback.format_exc()[-1500:])]))
    return out


# ------------------------------------------------------------------------------------------------------------------
def _grid(tier, seed):
    """the full product in both tiers, ordered small-first so that the first witness of a key is a minimal one"""
    cases = [dict(nf=nf, na=na, mag=mag, cell=cell, seed=seed) for nf, na, mag, cell in itertools.product(FRAMES, ATOMS, MAGS, CELLS)]
    cases += [dict(nf=nf, na=na, mag="1", cell="varying-tri", seed=seed) for nf, na in itertools.product([2, 3], [1, 10])]
    cases.sort(key=lambda c: (c["nf"], c["na"], CELLIDX(c["cell"]), MAGIDX(c["mag"])))
    jobs = [[(e, c, None) for e in PRIMARY] for c in cases]
    alias_cases = cases if tier != "quick" else [c for c in cases if c["na"] in (1, 10, 40)]
    jobs += [[(e, c, None) for e in ALIASES] for c in alias_cases]
    return jobs


def _option_jobs(tier, seed):
    jobs = []
    base = [dict(nf=nf, na=na, mag=mag, cell=cell, seed=seed)
            for nf, na, mag, cell in (itertools.product([1, 2], [1, 10], ["1", "limit"], ["none", "triclinic"]) if tier == "quick" else
                                      itertools.product([1, 2, 3], [1, 3, 10, 40], ["1e-3", "1", "99", "limit"], ["none", "ortho", "triclinic"]))]
    for c in base:
        jobs.append([("gro", c, {"precision": p}) for p in (2, 3, 4, 5, 6)])
    pdb_cases = [dict(nf=nf, na=na, mag="1", cell=cell, seed=seed) for nf, na, cell in
                 (itertools.product([1, 2], [1, 10], ["none", "ortho"]) if tier == "quick" else itertools.product([1, 2, 3], [1, 3, 10, 40], ["none", "ortho", "triclinic"]))]
    for c in pdb_cases:
        job = []
        for ter, header, b, nch in itertools.product([True, False], [True, False], [None, "1d", "2d"], [1, 2]):
            if nch == 2 and c["na"] < 2:
                continue
            job.append(("pdb", c, {"ter": ter, "header": header, "bfactors": b, "n_chains": nch}))
        jobs.append(job)
        if tier != "quick":
            jobs.append([("pdb.gz", c, {"ter": False, "header": True, "bfactors": "1d", "n_chains": 1})])
    return jobs


def _random_jobs(seed, n):
    rng = np.random.RandomState(seed + 12345)
    jobs = []
    for i in range(n):
        c = dict(nf=int(rng.randint(1, 7)), na=int(rng.randint(1, 61)), mag=["1e-3", "1", "99", "limit", "7.3", "0.04", "31"][int(rng.randint(0, 7))],
                 cell=["none", "ortho", "triclinic", "varying", "varying-tri"][int(rng.randint(0, 5))], seed=int(rng.randint(0, 10 ** 6)))
        jobs.append([(e, c, None) for e in EXTS])
    return jobs


def _mk_checks(tier):
    exh = True
    a = ObsCheck("roundtrip", "Trajectory.save (all savers) -> md.load / load_restrt / load_ncrestrt",
                 bound=("extensions=%s; frames in {1,2,3} x atoms in {1,3,9,10,11,40} x magnitude in {1e-3,1,99,format field limit-eps} nm "
                        "(negative coordinates always present) x cell in {none, orthorhombic, triclinic, per-frame varying}; non-uniform float32 times; "
                        "%s") % (EXTS, "full product (360 trajectories + 4 with per-frame varying triclinic cells) for the 13 formats; alias extensions (netcdf, ncdf, crd, xyz.gz, pdb.gz) on atoms {1,10,40}; "
                                 "options: gro precision 2..6 on 16 trajectories, pdb ter x header x bfactors{none,1-D,2-D} x chains{1,2} on 8 trajectories"
                                 if tier == "quick" else "full product for all 18 extensions; options on the full sub-grid; + 400 seeded random trajectories (1-6 frames, 1-60 atoms, 7 magnitudes, 5 cell kinds)"),
                 rule="exhaustive over the grid; non-trivial = distinct (format, multi-frame, >9 atoms, magnitude, cell, options); save/load exceptions are observations",
                 stands_in_for="codec contracts of PyTables, netCDF4, xdrfile.c (3dfcoord), dcdplugin.c, dtrplugin and the printf/float axioms of the text codecs",
                 exhaustive=exh)
    b = ObsCheck("independent", "Trajectory.save (all savers) -> /verif/specs/decoders.py (no mdtraj reader)",
                 bound="same grid; formats decoded independently: dcd (CHARMM records), trr (XDR), xtc (<=9 atoms, raw floats), nc/ncrst (scipy.io.netcdf_file), "
                       "h5 (PyTables nodes), mdcrd, rst7, xyz(.gz), lammpstrj, gro, pdb(.gz) by column spec; not decoded: xtc >9 atoms (compressed), dtr",
                 rule="native-unit numbers (A: dcd,nc,ncrst,mdcrd,rst7,xyz,lammpstrj,pdb; nm: xtc,trr,gro,h5) equal the trajectory's within one float32 rounding + half a printed unit",
                 stands_in_for="a save/load pair cannot see a unit or column error that cancels on the way back", exhaustive=exh)
    return a, b


def _apply(checks, results, failed_base):
    by = {c.name: c for c in checks}
    for ext, case, options, events in results:
        for e in events:
            kind, chk = e[0], by[e[1]]
            if kind == "ok":
                chk.ok(nontrivial=e[2], sample=e[3])
            elif kind == "obs":
                chk.evaluations += 1
                chk.observe(e[2], e[3])
            elif kind == "crash":
                raise RuntimeError(f"C01 check crashed on {ext} {case} {options}: {e[2]}\n{e[3]}")
            else:
                _, _, clause, witness, what, observed, expected, inp = e
                chk.fail(clause, witness, what, {"check": chk.name, **inp}, observed, expected, explains=_explains(clause, witness))


def _explains(clause, base):
    if clause in ("time-roundtrip", "native-time") and base.startswith("save_amberrst7"):
        return ["C01/Trajectory.save_amberrst7/frame-i-fields-travel-with-frame-i"]
    return []


def run(tier, seed, hint):
    import shutil
    import tempfile

    parent = tempfile.mkdtemp(prefix="mdvc-c01run-", dir="/dev/shm" if os.path.isdir("/dev/shm") else None)
    os.environ["MDVC_SCRATCH_PARENT"] = parent  # inherited by the forked workers: their per-case scratch directories live (and die) here
    try:
        return _run(tier, seed, hint)
    finally:
        os.environ.pop("MDVC_SCRATCH_PARENT", None)
        shutil.rmtree(parent, ignore_errors=True)


def _run(tier, seed, hint):
    checks = _mk_checks(tier)
    jobs = _grid(tier, seed) + _option_jobs(tier, seed)
    if tier != "quick":
        jobs += _random_jobs(seed, 400)
    failed_base = set()
    ctx = multiprocessing.get_context("fork")
    from concurrent.futures.process import BrokenProcessPool

    done = 0
    try:
        with cf.ProcessPoolExecutor(max_workers=min(12, os.cpu_count() or 4), mp_context=ctx) as ex:
            for res in ex.map(_work, jobs, chunksize=2):
                _apply(checks, res, failed_base)
                done += 1
    except BrokenProcessPool:
        # a worker died (segfault / abort inside a codec): the library crashing on an input of the quantifier is a failure of
        # the save/load contract.  Re-run the remaining jobs one per process to find the crashing case(s).
        crashed = 0
        for job in jobs[done:]:
            try:
                with cf.ProcessPoolExecutor(max_workers=1, mp_context=ctx) as ex1:
                    res = ex1.submit(_work, job).result(timeout=300)
                _apply(checks, res, failed_base)
            except (BrokenProcessPool, cf.TimeoutError):
                crashed += 1
                for ext, case, options in (job if isinstance(job, list) else [job]):
                    fam = ext.split(".")[0]
                    mag = case.get("mag")
                    wc = f"save_{fam}:process-killed" + (":mag=huge-anisotropic" if mag == "huge" else (":mag=limit" if mag == "limit" else ""))
                    checks[0].fail("crash", wc, f"save/load of a .{ext} file killed the worker process (case {case})",
                                   {"ext": ext, "case": case, "options": options, "check": None})
                if crashed >= 3:
                    break
    return list(checks)


def replay(payload):
    inp = payload.get("input") or payload.get("failing_input")
    events = evaluate(inp["ext"], inp["case"], inp.get("options"))
    fails = [{"clause": e[2], "witness": e[3], "key": f"bcc:{e[2]}:{e[3]}", "what": e[4], "observed": _js(e[5]), "expected": _js(e[6])}
             for e in events if e[0] == "fail" and (inp.get("check") in (None, e[1]))]
    return {"reproduced": bool(fails), "failures": fails}


def _js(x):
    from bcc.api import _j

    return _j(x)
