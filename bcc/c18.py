"""C18 bounded contract check: real file objects against the abstract cursor.

Bound: every seekable format x N in {1,3,6} (quick: {4}) x ALL operation sequences of length <= L over
{read(1), read(2), read(), seek(k) 0<=k<N, seek(+-d,1) in range, tell(), len()} with in-range arguments
(L=3 quick, 4 thorough), with/without atom_indices, plus two interleaved handles on the same file.
"""
import itertools
import os

import numpy as np

import mdtraj as md
from bcc.api import Check
from bcc.fixtures import Scratch, make_traj

# "dcd:nset0" = a DCD whose header frame-count field (NSET) is 0: legal, the reader derives the count from the file size
FORMATS = ["h5", "xtc", "trr", "dcd", "dcd:nset0", "nc", "mdcrd", "xyz", "lammpstrj", "dtr", "xyz.gz"]
# `len, where offered`: mdcrd and lammpstrj define __len__ only to raise NotImplementedError (not offered)
NO_LEN = {"mdcrd", "lammpstrj"}
CLASSNAME = {"h5": "HDF5TrajectoryFile", "nc": "NetCDFTrajectoryFile", "xtc": "XTCTrajectoryFile",
             "trr": "TRRTrajectoryFile", "dcd": "DCDTrajectoryFile", "mdcrd": "MDCRDTrajectoryFile",
             "xyz": "XYZTrajectoryFile", "xyz.gz": "XYZTrajectoryFile", "lammpstrj": "LAMMPSTrajectoryFile",
             "dtr": "DTRTrajectoryFile", "dcd:nset0": "DCDTrajectoryFile"}


def _open(path, fmt, n_atoms):
    if fmt == "mdcrd":
        return md.formats.MDCRDTrajectoryFile(path, n_atoms=n_atoms)
    return md.open(path)


def _coords(res, fmt):
    """first coordinate x of atom 0 for each returned frame identifies the frames (frame i has x = i + 0.5 nm)"""
    if fmt == "h5":
        xyz = res.coordinates if res != [] else np.zeros((0, 1, 3))
    elif isinstance(res, tuple):
        xyz = res[0]
    else:
        xyz = res
    xyz = np.asarray(xyz)
    if xyz.size == 0:
        return []
    unit = 1.0 if fmt in ("h5", "xtc", "trr") else 10.0
    return [int(round(float(v) / unit - 0.5)) for v in xyz[:, 0, 0]]


def ops_alphabet(N, fmt):
    ops = [("read", 1), ("read", 2), ("read", None), ("tell",)]
    if fmt not in NO_LEN:
        ops.append(("len",))
    ops += [("seek", k, 0) for k in range(N)]
    ops += [("seek", d, 1) for d in (-2, -1, 1, 2)]
    return ops


def apply(handle, fmt, op, pos, N, atom_indices=None):
    """returns (observed, expected, new_pos) or None when the op is out of range for the abstract cursor"""
    if op[0] == "read":
        n = op[1]
        exp = list(range(pos, N if n is None else min(N, pos + n)))
        kw = {} if atom_indices is None else {"atom_indices": atom_indices}
        res = handle.read(n, **kw) if n is not None else handle.read(**kw)
        return _coords(res, fmt), exp, pos + len(exp)
    if op[0] == "tell":
        return int(handle.tell()), pos, pos
    if op[0] == "len":
        return int(len(handle)), N, pos
    if op[0] == "seek":
        _, k, wh = op
        new = k if wh == 0 else pos + k
        if not (0 <= new < N):
            return None
        handle.seek(k, wh) if wh else handle.seek(k)
        return int(handle.tell()), new, new


def _make_file(d, t, N, fmt, tag="t"):
    ext = fmt.split(":")[0]
    path = os.path.join(d, f"{tag}{N}{'-nset0' if ':' in fmt else ''}.{ext}")
    try:
        t.save(path)
        if fmt == "dcd:nset0":
            with open(path, "r+b") as fh:
                fh.seek(8)
                fh.write(b"\0\0\0\0")
    except Exception:
        return None
    return path


def run(tier, seed, hint):
    L = 3 if tier == "quick" else 4
    Ns = [4] if tier == "quick" else [1, 3, 6]
    chk = Check("cursor-sequences", "read/seek/tell/len of every seekable file class",
                bound=f"formats={FORMATS}; N in {Ns}; all in-range op sequences of length <= {L}; atom_indices in (None,[0,2]); two interleaved handles",
                rule="exhaustive enumeration of operation sequences; non-trivial = sequence containing a read and a seek",
                stands_in_for="C-backed readers (xtc,trr,dcd,dtr) and text readers whose deductive contracts rest on assumed reader contracts",
                exhaustive=True)
    with Scratch("c18") as d:
        for fmt in FORMATS:
            for N in Ns:
                t = make_traj(n_frames=N, n_atoms=4, cell="ortho", seed=seed)
                path = _make_file(d, t, N, fmt)
                if path is None:  # saving is not what is under test here
                    continue
                ops = ops_alphabet(N, fmt)
                for length in range(1, L + 1):
                    for seq in itertools.product(ops, repeat=length):
                        if length == L and fmt in ("dtr",) and tier == "quick":
                            continue
                        for ai in (None, [0, 2]) if length <= 2 else (None,):
                            _run_seq(chk, path, fmt, N, seq, ai)
                # two handles, interleaved
                for seq in itertools.product(ops, repeat=2):
                    _run_two(chk, path, fmt, N, seq)
    return [chk]


_FAILED = set()  # (fmt, N, ops-prefix) that already failed: longer sequences containing one are subsumed


def _subsumed(fmt, N, seq):
    kinds = _kinds(seq)
    for i in range(len(kinds)):
        for j in range(i + 1, len(kinds) + 1):
            if (fmt, kinds[i:j]) in _FAILED:
                return True
    return False


def _run_seq(chk, path, fmt, N, seq, ai):
    if _subsumed(fmt, N, seq):
        return  # contains a shorter sequence that already failed: same finding, not re-reported
    _run_seq0(chk, path, fmt, N, seq, ai)


def _run_seq0(chk, path, fmt, N, seq, ai):
    pos = 0
    h = _open(path, fmt, 4)
    try:
        for i, op in enumerate(seq):
            try:
                r = apply(h, fmt, op, pos, N, ai)
            except Exception as e:
                _FAILED.add((fmt, _kinds(seq[:i + 1])))
                chk.fail(f"{op[0]}-raises", f"{CLASSNAME[fmt]}:{fmt}:{_shape(seq[:i + 1], N)}:{type(e).__name__}",
                         f"{fmt}: in-range operation sequence {seq[:i + 1]} raised {type(e).__name__}: {e}",
                         {"format": fmt, "N": N, "ops": [list(o) for o in seq[:i + 1]], "atom_indices": ai})
                return
            if r is None:
                return  # out of range for the abstract cursor: not part of the quantifier
            obs, exp, pos = r
            if obs != exp:
                _FAILED.add((fmt, _kinds(seq[:i + 1])))
                chk.fail(f"{op[0]}-result", f"{CLASSNAME[fmt]}:{fmt}:{_shape(seq[:i + 1], N)}",
                         f"{fmt}: after {seq[:i]} operation {op} gave {obs}, abstract cursor says {exp}",
                         {"format": fmt, "N": N, "ops": [list(o) for o in seq[:i + 1]], "atom_indices": ai},
                         observed=obs, expected=exp, explains=_explains(fmt, seq[:i + 1]))
                return
        kinds = {o[0] for o in seq}
        chk.ok(nontrivial=(fmt, N, seq) if {"read", "seek"} <= kinds else None,
               sample={"format": fmt, "N": N, "ops": [list(o) for o in seq]})
    finally:
        try:
            h.close()
        except Exception:
            pass


def _run_two(chk, path, fmt, N, seq):
    if _subsumed(fmt, N, seq):
        return
    h1, h2 = _open(path, fmt, 4), _open(path, fmt, 4)
    try:
        p1 = p2 = 0
        for op in seq:
            for which in (1, 2):
                h, p = (h1, p1) if which == 1 else (h2, p2)
                try:
                    r = apply(h, fmt, op, p, N)
                except Exception as e:
                    chk.fail("two-handles-raise", f"{CLASSNAME[fmt]}:{fmt}:{_shape(seq, N)}", f"{fmt}: two handles, {seq}: {type(e).__name__}: {e}",
                             {"format": fmt, "N": N, "ops": [list(o) for o in seq], "two_handles": True})
                    return
                if r is None:
                    return
                obs, exp, newp = r
                if obs != exp:
                    chk.fail("two-handles-independent", f"{CLASSNAME[fmt]}:{fmt}:{_shape(seq, N)}",
                             f"{fmt}: interleaved handles disagree with independent cursors on {seq}",
                             {"format": fmt, "N": N, "ops": [list(o) for o in seq], "two_handles": True}, observed=obs, expected=exp)
                    return
                if which == 1:
                    p1 = newp
                else:
                    p2 = newp
        chk.ok(nontrivial=("two", fmt, seq))
    finally:
        for h in (h1, h2):
            try:
                h.close()
            except Exception:
                pass


def _shape(seq, N=None):
    """witness class = failing operation kind + the history features that matter for a cursor:
    did an earlier read run into the end of the file, was there a backward/absolute re-positioning.
    (Coarser than the exact sequence, finer than the property: a different kind of history is a
    different finding.)"""
    kinds = _kinds(seq)
    feats = []
    pos = 0
    if N is not None:
        for o in seq[:-1]:
            if o[0] == "read":
                if o[1] is None or pos + o[1] > N or pos >= N:
                    feats.append("after-read-hit-EOF")
                pos = N if o[1] is None else min(N, pos + o[1])
            elif o[0] == "seek":
                new = o[1] if o[2] == 0 else pos + o[1]
                if new < pos or (o[2] == 0 and pos > 0):
                    feats.append("after-rewind")
                pos = new
        o = seq[-1]
        if o[0] == "read" and (pos >= N):
            feats.append("at-EOF")
    return kinds[-1] + "".join(":" + f for f in dict.fromkeys(feats))


def _kinds(seq):
    """witness class: the operation kinds (with whence) of the sequence, not their arguments"""
    out = []
    for o in seq:
        if o[0] == "seek":
            out.append("seek-abs" if o[2] == 0 else ("seek-fwd" if o[1] > 0 else "seek-back"))
        elif o[0] == "read":
            out.append("read-all" if o[1] is None else "read-n")
        else:
            out.append(o[0])
    return tuple(out)


def _explains(fmt, seq):
    cls = CLASSNAME[fmt]
    last = seq[-1]
    prev = seq[-2] if len(seq) > 1 else None
    out = []
    if last[0] == "tell" and prev and prev[0] == "read":
        case = "rest" if prev[1] is None else "n"
        out.append(f"C18/{cls}.read/{case}/position-advanced-by-frames-read")
    return out


def replay(payload):
    inp = payload.get("input") or payload.get("failing_input")
    fmt, N = inp["format"], inp["N"]
    chk = Check("replay", "", "", "")
    with Scratch("c18r") as d:
        t = make_traj(n_frames=N, n_atoms=4, cell="ortho", seed=0)
        path = _make_file(d, t, N, fmt)
        seq = [tuple(o) for o in inp["ops"]]
        if inp.get("two_handles"):
            _run_two(chk, path, fmt, N, seq)
        else:
            _run_seq(chk, path, fmt, N, seq, inp.get("atom_indices"))
    return {"reproduced": bool(chk.failures), "failures": chk.failures}


def concretise(req):
    """counter-model (N, pos, n / k) of a cursor obligation -> concrete op sequence on a real file"""
    m = req.get("model") or {}
    rp = req.get("replay") or ""
    fmt = rp.split(":")[1] if ":" in rp else "h5"
    N, pos, n = int(m.get("N", 3)), int(m.get("pos", 0)), int(m.get("n", 1))
    if not (0 < N <= 50 and 0 <= pos <= N):
        return None
    oid = req["obligation"]
    ops = []
    if pos:
        ops.append(("seek", min(pos, N - 1), 0))
        if pos == N:
            ops.append(("read", 1))
    if ".read/" in oid:
        ops.append(("read", None if "/rest/" in oid else n))
        ops.append(("tell",))
    elif ".seek/" in oid:
        k = int(m.get("k", 0))
        ops.append(("seek", k, 1 if "/rel/" in oid else 0))
        ops.append(("tell",))
    else:
        ops += [("tell",), ("len",)]
    chk = Check("concretise", "", "", "")
    with Scratch("c18c") as d:
        t = make_traj(n_frames=N, n_atoms=4, cell="ortho", seed=0)
        path = _make_file(d, t, N, fmt)
        _run_seq(chk, path, fmt, N, tuple(ops), None)
    if chk.failures:
        f = chk.failures[0]
        return {"failing_input": f["input"], "observed": f["observed"], "expected": f["expected"], "bcc_key": f["key"]}
    return None
