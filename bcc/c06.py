"""C06 bounded contract check: md.rmsd / Trajectory.superpose against a float64 Kabsch-SVD oracle.

Oracle: specs/rmsd.py (centroid translation + SVD of the covariance with reflection correction, objective
evaluated directly at the optimum).  Everything is computed from the float32 input coordinates promoted
to float64, so input quantisation is not an error source.

TOLERANCES (derived, all in *mean-square-deviation* units because rmsd = sqrt(msd) and the QCP kernel
obtains msd by cancellation  msd = (G_a + G_b - 2*lambda)/N  in float32):

  eps = 2^-23 (float32 machine epsilon), scale2 = Rg_a^2 + Rg_b^2 = (G_a+G_b)/N,  u = ulp32(max |coordinate|)

  tol_msd = C * eps * scale2 + 3*u^2
      C = min( 16 + N/8 + 2/relgap ,  4/sqrt(eps) )
      * 16: a handful of float32 roundings of G_a, G_b, lambda, the centring subtraction, each <= eps*scale2*N
      * N/8: float32 accumulation of the nine inner products over N/4 SSE iterations
        (worst case (N/4)*(eps/2) relative, doubled for a and b)
      * 2/relgap: the largest root of the QCP quartic is found from float32 coefficients; a relative
        coefficient error k*eps moves a root by k*eps*|K|/relgap where relgap = (lambda1-lambda2)/(N*scale2/2)
        is the relative gap of the two largest eigenvalues of Horn's key matrix (computed by the oracle from
        the singular values: {s1+s2+d s3, s1-s2-d s3, -s1+s2-d s3, -s1-s2+d s3}).  Measured: C*relgap <= 0.55.
      * 4/sqrt(eps): at an exact double root the shift is bounded by sqrt(k*eps)*|K|.  Measured <= 1/sqrt(eps)*0.6.
      * 3*u^2: the centroid is rounded to float32 (|delta| <= sqrt(3)*u/2 for each structure) and a residual
        centroid mismatch adds |delta_a - R delta_b|^2 <= 3u^2 to the msd.  At +-500 nm, u = 3.05e-5 nm.
  "zero on self" therefore means msd <= tol_msd, i.e. rmsd <= sqrt(C*eps)*scale ~ 1.4e-3*scale (float32
  cancellation; observed 3e-4..9e-4*scale) -- unless target and reference are bit-identical and centred
  identically, where the kernel may return exactly 0.

  superpose: every output coordinate carries an error e <= 4*eps*extent + u_out  (float32 subtraction of the
  offset, 3x3 rotation in float32, float32 addition of the reference offset; extent = max distance from the
  centroid, u_out = ulp32(max |output coordinate|)).  Hence
      |d_after - d_before| <= 2*sqrt(3)*e + 8*eps*d          (pair distances; 8*eps*d: non-orthogonality of R32)
      msd_attained <= msd_oracle + tol_msd + 2*rmsd_oracle*p + p^2,  p = sqrt(3)*e
  The rotation-extraction error only enters msd_attained at second order (N*msd(q) = G_a+G_b-2 q^T K q and the
  eigenvector error is eps*|K|/gap, so the penalty is <= eps*|K|, gap-independent), same form as tol_msd.

  parallel flag: prange and range run the same sequential per-frame kernel on the same inputs => BIT-FOR-BIT.
"""
import warnings

import numpy as np

import mdtraj as md
from bcc.api import Check
from bcc.fixtures import make_topology
from specs import rmsd as S

EPS = 2.0 ** -23
KINDS = ["random", "near-identical", "identical-moved", "near-planar", "mirror-image", "mirror-near-planar",
         "offset-500nm", "rotation-by-exactly-180deg", "small-molecule-0.1nm"]
SELS = ["all", "equal-subset", "different-subsets", "permuted"]
_TOPS = {}


def _top(n):
    if n not in _TOPS:
        _TOPS[n] = make_topology(n)
    return _TOPS[n]


def ulp32(x):
    return float(np.spacing(np.float32(abs(float(x)))))


def _rng(seed, n, kind, extra=0):
    return np.random.RandomState((seed * 1000003 + n * 1009 + KINDS.index(kind) * 101 + extra) % (2 ** 31 - 1))


def gen_case(n, kind, seed):
    """returns (target_xyz (3,n,3) float32, ref_xyz (3,n,3) float32).
    ref[1] is the kind-specific partner of target[0]; target[1] is target[0] rigidly moved;
    target[2] is a bit-for-bit copy of ref[1]; ref[0], ref[2] are unrelated random structures."""
    rng = _rng(seed, n, kind)
    s = 0.5
    if kind == "small-molecule-0.1nm":
        s = 0.04  # atoms ~0.1 nm apart (= s*sqrt(6)); a water molecule has sum |x-c|^2 = 0.013 nm^2
    A = rng.normal(size=(n, 3)) * s
    noise = lambda sd: rng.normal(size=(n, 3)) * sd
    R = S.random_rotation(rng)
    off_a = np.zeros(3)
    off_b = rng.uniform(-2, 2, size=3)
    if kind == "random":
        B = rng.normal(size=(n, 3)) * s
    elif kind == "near-identical":
        B = A @ R.T + noise(1e-3)
    elif kind == "identical-moved":
        B = A @ R.T
    elif kind == "near-planar":
        A[:, 2] *= 1e-3
        B = A @ R.T + noise(0.02)
    elif kind == "mirror-image":
        B = (A * [1, 1, -1]) @ R.T + noise(0.01)
    elif kind == "mirror-near-planar":
        A[:, 2] *= 1e-2
        B = (A * [1, 1, -1]) @ R.T + noise(0.01)
    elif kind == "offset-500nm":
        B = A @ R.T + noise(0.05)
        off_a = rng.choice([-500.0, 500.0], size=3)
        off_b = rng.choice([-500.0, 500.0], size=3)
    elif kind == "rotation-by-exactly-180deg":
        A = np.asarray(A, dtype=np.float32).astype(np.float64)
        B = A * [-1, -1, 1]  # exact in float32: a half turn about z
        off_b = np.zeros(3)
    elif kind == "small-molecule-0.1nm":
        B = A @ R.T + noise(1e-3)
    else:
        raise ValueError(kind)
    R2 = S.random_rotation(rng)
    A_moved = A @ R2.T + rng.uniform(-2, 2, size=3)
    tgt = np.array([A + off_a, A_moved + off_a, B + off_b], dtype=np.float32)
    ref = np.array([rng.normal(size=(n, 3)) * s, B + off_b, rng.normal(size=(n, 3)) * s + 1.0], dtype=np.float32)
    tgt[2] = ref[1]
    return tgt, ref


def gen_sel(n, sel, seed, kind):
    """(atom_indices, ref_atom_indices) as lists or None"""
    rng = _rng(seed, n, kind, extra=7 + SELS.index(sel))
    if sel == "all":
        return None, None
    m = n if n <= 4 else max(3, (2 * n) // 3)
    if sel == "equal-subset":
        ai = np.sort(rng.choice(n, m, replace=False))
        return ai.tolist(), None
    if sel == "different-subsets":
        ai = np.sort(rng.choice(n, m, replace=False))
        rai = np.sort(rng.choice(n, m, replace=False))
        if n <= 4:
            rai = np.roll(rai, 1)
        return ai.tolist(), rai.tolist()
    if sel == "permuted":
        ai = rng.permutation(n)[:m]
        rai = rng.permutation(n)[:m]
        return ai.tolist(), rai.tolist()
    raise ValueError(sel)


def _noncollinear(P):
    P = np.asarray(P, dtype=np.float64)
    sv = np.linalg.svd(P - P.mean(0), compute_uv=False)
    return sv[1] > 1e-3 * sv[0]


def tol_msd(P, Q):
    """the msd tolerance of the module docstring; returns (tol, C, relgap, scale2)"""
    P = np.asarray(P, dtype=np.float64)
    Q = np.asarray(Q, dtype=np.float64)
    n = P.shape[0]
    Pc, Qc = P - P.mean(0), Q - Q.mean(0)
    scale2 = (np.sum(Pc * Pc) + np.sum(Qc * Qc)) / n
    U, s, Vt = np.linalg.svd(Pc.T @ Qc)
    d = 1.0 if np.linalg.det(Vt.T @ U.T) >= 0 else -1.0
    ev = sorted([s[0] + s[1] + d * s[2], s[0] - s[1] - d * s[2], -s[0] + s[1] - d * s[2], -s[0] - s[1] + d * s[2]], reverse=True)
    relgap = max((ev[0] - ev[1]) / max(n * scale2 / 2.0, 1e-300), 1e-300)
    C = min(16.0 + n / 8.0 + 2.0 / relgap, 4.0 / np.sqrt(EPS))
    u = ulp32(max(np.abs(P).max(), np.abs(Q).max()))
    return C * EPS * scale2 + 3 * u * u, C, relgap, scale2


def _traj(xyz, n):
    return md.Trajectory(np.array(xyz, dtype=np.float32, copy=True), _top(n))


def _mdrmsd(tx, rx, n, frame, ai, rai, parallel, precentered=False):
    """md.rmsd on fresh copies (md.rmsd is documented to centre its inputs in place)"""
    t, r = _traj(tx, n), _traj(rx, n)
    if precentered:
        t.center_coordinates()
        r.center_coordinates()
    with warnings.catch_warnings():
        warnings.simplefilter("ignore")
        out = md.rmsd(t, r, frame, atom_indices=ai, ref_atom_indices=rai, parallel=parallel, precentered=precentered)
    return np.array(out, copy=True)


def _sel(x, idx):
    return x if idx is None else x[..., idx, :]


# ---------------------------------------------------------------------------------------------------------
def check_rmsd_case(chk, n, kind, sel, seed, failed):
    tx, rx = gen_case(n, kind, seed)
    ai, rai = gen_sel(n, sel, seed, kind)
    rai_eff = ai if rai is None else rai
    inp = {"what": "rmsd", "n": n, "kind": kind, "sel": sel, "seed": seed}
    frame = 1
    P = [_sel(tx[i], ai) for i in range(3)]
    Q = _sel(rx[frame], rai_eff)
    if not (_noncollinear(P[0]) and _noncollinear(Q)):
        return
    wc = f"rmsd:{kind}" + ("" if sel == "all" else f":{sel}")
    if (("rmsd", kind, "all") in failed) and sel != "all":
        return  # subsumed by the failure without selections
    ok = True
    res = {}
    for par in (True, False):
        res[par] = _mdrmsd(tx, rx, n, frame, ai, rai, par)
    # parallel flag: bit-for-bit
    if res[True].tobytes() != res[False].tobytes():
        ok = False
        chk.fail("parallel-flag-independence", wc, "md.rmsd(parallel=True) differs bitwise from parallel=False",
                 dict(inp, clause="parallel"), observed=res[True], expected=res[False])
    got = res[True].astype(np.float64)
    worst = 0.0
    for i in range(3):
        o, _, _ = S.kabsch(P[i], Q)
        tol, C, relgap, scale2 = tol_msd(P[i], Q)
        err = abs(got[i] ** 2 - o ** 2)
        worst = max(worst, err / tol)
        if err > tol:
            ok = False
            clause = "rmsd-equals-oracle" if i < 2 else "rmsd-zero-on-self"
            chk.fail(clause, wc, f"md.rmsd = {got[i]:.7g}, Kabsch-SVD minimum = {o:.7g}; |msd diff| = {err:.3g} > tol {tol:.3g} (C={C:.1f}, relgap={relgap:.2g})",
                     dict(inp, clause="oracle", frame_i=i), observed=float(got[i]), expected=o)
    # rigid-motion invariance: target[1] is target[0] moved (coordinates re-rounded to float32, perturbation
    # <= sqrt(3)*u/2 per atom => |d rmsd| <= sqrt(3)*u/2)
    t0, _, _, _ = tol_msd(P[0], Q)
    t1, _, _, _ = tol_msd(P[1], Q)
    u = ulp32(np.abs(tx[:2]).max())
    o0 = S.kabsch(P[0], Q)[0]
    pert = np.sqrt(3) * u
    lim = t0 + t1 + 2 * o0 * pert + pert * pert
    if abs(got[0] ** 2 - got[1] ** 2) > lim:
        ok = False
        chk.fail("rmsd-rigid-motion-invariance", wc, f"rmsd changes from {got[0]:.7g} to {got[1]:.7g} when the target is rigidly moved (allowed msd change {lim:.3g})",
                 dict(inp, clause="rigid"), observed=[float(got[0]), float(got[1])])
    # symmetry: swap the roles (reference frame 0 of the old target; selections swapped)
    sym = _mdrmsd(rx, tx, n, 0, rai_eff if ai is not None else None, ai if rai is not None else None, True).astype(np.float64)
    if abs(sym[frame] ** 2 - got[0] ** 2) > 2 * t0:
        ok = False
        chk.fail("rmsd-symmetric", wc, f"rmsd(a,b) = {got[0]:.7g} but rmsd(b,a) = {sym[frame]:.7g}", dict(inp, clause="symmetry"),
                 observed=[float(got[0]), float(sym[frame])])
    # other reference frames (frame index honoured)
    for fr in (0, 2):
        g = _mdrmsd(tx, rx, n, fr, ai, rai, True).astype(np.float64)
        Qf = _sel(rx[fr], rai_eff)
        for i in (0,):
            o = S.kabsch(P[i], Qf)[0]
            tol = tol_msd(P[i], Qf)[0]
            if abs(g[i] ** 2 - o ** 2) > tol:
                ok = False
                chk.fail("rmsd-reference-frame-index", wc, f"frame={fr}: md.rmsd = {g[i]:.7g}, oracle = {o:.7g}", dict(inp, clause="frame", frame=fr),
                         observed=float(g[i]), expected=o)
    # precentered (only meaningful without selections; requires center_coordinates() on both)
    if sel == "all":
        for par in (True, False):
            t, r = _traj(tx, n), _traj(rx, n)
            t.center_coordinates()
            r.center_coordinates()
            Pc, Qc = t.xyz.copy(), r.xyz[frame].copy()
            g = np.array(md.rmsd(t, r, frame, parallel=par, precentered=True), dtype=np.float64)
            for i in range(3):
                o = S.kabsch(Pc[i], Qc)[0]
                tol = tol_msd(Pc[i], Qc)[0]
                # the centred float32 coordinates have a residual centroid of up to sqrt(3)*u/2 (u at the ORIGINAL magnitude)
                uu = ulp32(max(np.abs(tx[i]).max(), np.abs(rx[frame]).max()))
                tol += 3 * uu * uu
                if abs(g[i] ** 2 - o ** 2) > tol:
                    ok = False
                    chk.fail("rmsd-precentered-equals-oracle", wc, f"precentered=True, parallel={par}: md.rmsd = {g[i]:.7g}, oracle = {o:.7g}",
                             dict(inp, clause="precentered", parallel=par, frame_i=i), observed=float(g[i]), expected=o)
    if ok:
        chk.ok(nontrivial=(n, kind, sel), sample={"n": n, "kind": kind, "sel": sel, "rmsd": [round(float(x), 6) for x in got], "worst_err_over_tol": round(float(worst), 3)})
    else:
        failed.add(("rmsd", kind, sel))


def check_superpose_case(chk, n, kind, sel, seed, failed, extra_atoms=0):
    tx, rx = gen_case(n, kind, seed)
    ai, rai = gen_sel(n, sel, seed, kind)
    rai_eff = ai if rai is None else rai
    inp = {"what": "superpose", "n": n, "kind": kind, "sel": sel, "seed": seed}
    wc = f"superpose:{kind}" + ("" if sel == "all" else f":{sel}")
    if (("superpose", kind, "all") in failed) and sel != "all":
        return
    frame = 1
    P = [_sel(tx[i], ai) for i in range(3)]
    Q = _sel(rx[frame], rai_eff)
    if not (_noncollinear(P[0]) and _noncollinear(Q)):
        return
    ok = True
    out = {}
    for par in (True, False):
        t, r = _traj(tx, n), _traj(rx, n)
        rbefore = r.xyz.copy()
        ret = t.superpose(r, frame=frame, atom_indices=ai, ref_atom_indices=rai, parallel=par)
        out[par] = t.xyz.copy()
        if ret is not t:
            ok = False
            chk.fail("superpose-returns-self", wc, "superpose did not return self", dict(inp, clause="returns-self"))
        if r.xyz.tobytes() != rbefore.tobytes():
            ok = False
            chk.fail("superpose-reference-not-modified", wc, "reference coordinates changed by superpose", dict(inp, clause="ref-unmodified"))
    if out[True].tobytes() != out[False].tobytes():
        ok = False
        chk.fail("parallel-flag-independence", wc, "superpose(parallel=True) differs bitwise from parallel=False", dict(inp, clause="parallel"))
    new = out[True]
    worst = 0.0
    for i in range(3):
        X0 = tx[i].astype(np.float64)
        X1 = new[i].astype(np.float64)
        extent = np.sqrt(((X0 - _sel(X0, ai).mean(0)) ** 2).sum(1)).max()
        e = 4 * EPS * extent + ulp32(max(np.abs(X1).max(), np.abs(rx[frame]).max()))
        # rigid: all interatomic distances of ALL atoms preserved
        if n <= 60:
            d0, d1 = S.pair_distances(X0), S.pair_distances(X1)
        else:
            sub = np.linspace(0, n - 1, 60).astype(int)
            d0, d1 = S.pair_distances(X0[sub]), S.pair_distances(X1[sub])
        lim = 2 * np.sqrt(3) * e + 8 * EPS * d0
        bad = np.abs(d1 - d0) > lim
        worst = max(worst, float((np.abs(d1 - d0) / lim).max()))
        if bad.any():
            ok = False
            k = int(np.argmax(np.abs(d1 - d0) / lim))
            chk.fail("superpose-rigid-distances-preserved", wc,
                     f"an interatomic distance changed from {d0[k]:.7g} to {d1[k]:.7g} (allowed {lim[k]:.3g})", dict(inp, clause="rigid", frame_i=i),
                     observed=float(d1[k]), expected=float(d0[k]))
        # attains the oracle minimum on the alignment atoms, measured with no further fitting
        o = S.kabsch(P[i], Q)[0]
        att = S.rmsd_after(_sel(X1, ai), Q)
        tol = tol_msd(P[i], Q)[0]
        p = np.sqrt(3) * e
        slack = 2 * o * p + p * p
        worst = max(worst, (att ** 2 - o ** 2) / (tol + slack))
        if att ** 2 - o ** 2 > tol + slack or o ** 2 - att ** 2 > slack:
            ok = False
            chk.fail("superpose-attains-minimum", _diagnose(P[i], Q, X0, X1, e) or wc,
                     f"after superpose the alignment atoms are {att:.7g} nm RMS from the reference, the optimum is {o:.7g} (msd tol {tol + slack:.3g})",
                     dict(inp, clause="attains", frame_i=i), observed=att, expected=o)
    # other reference frame indices (unrelated random structures): frame index honoured
    if ok:
        for fr in (0, 2):
            t, r = _traj(tx, n), _traj(rx, n)
            t.superpose(r, frame=fr, atom_indices=ai, ref_atom_indices=rai)
            Qf = _sel(rx[fr], rai_eff)
            if not _noncollinear(Qf):
                continue
            X1 = t.xyz[0].astype(np.float64)
            o = S.kabsch(P[0], Qf)[0]
            att = S.rmsd_after(_sel(X1, ai), Qf)
            e = 4 * EPS * np.abs(tx[0] - tx[0].mean(0)).max() * 2 + ulp32(max(np.abs(X1).max(), np.abs(rx[fr]).max()))
            p = np.sqrt(3) * e
            if att ** 2 - o ** 2 > tol_msd(P[0], Qf)[0] + 2 * o * p + p * p:
                ok = False
                diag = _diagnose(P[0], Qf, tx[0].astype(np.float64), X1, e)
                # a diagnosed rotation-extraction failure is the same finding as under frame=1, not a frame-index defect
                chk.fail("superpose-attains-minimum" if diag else "superpose-reference-frame-index", diag or wc,
                         f"frame={fr}: alignment atoms are {att:.7g} nm RMS from reference frame {fr}, optimum {o:.7g}", dict(inp, clause="frame", frame=fr),
                         observed=att, expected=o)
    if ok:
        chk.ok(nontrivial=(n, kind, sel), sample={"n": n, "kind": kind, "sel": sel, "worst_over_tol": round(float(worst), 3)})
    else:
        failed.add(("superpose", kind, sel))


def _diagnose(P, Q, X0, X1, e):
    """root-cause level witness class of a superpose failure, from the INPUT (oracle rotation angle, size):
    the rotation is taken from the first column of adj(K - lambda I), which is proportional to q0 = cos(theta/2)
    and to the product of the eigenvalue gaps ~ (sum |x-c|^2)^3, and is replaced by the identity when its squared
    norm is below the absolute constant 1e-11 (and is rounding noise when only slightly above it)."""
    P = np.asarray(P, dtype=np.float64)
    Q = np.asarray(Q, dtype=np.float64)
    _, R, _ = S.kabsch(P, Q)
    theta = np.arccos(np.clip((np.trace(R) - 1) / 2, -1, 1))
    G = 0.5 * (np.sum((P - P.mean(0)) ** 2) + np.sum((Q - Q.mean(0)) ** 2))
    if abs(theta - np.pi) < 1e-2:
        # q0 = cos(theta/2) = 0: the first adjugate column vanishes identically -> rounding noise or identity
        return "superpose:optimal-rotation-is-a-half-turn"
    shift = X1 - X0
    if np.abs(shift - shift.mean(0)).max() <= 4 * e and theta > 1e-2:
        # the kernel gave up ("UNCONVERGED ROTATION MATRIX. RETURNING IDENTITY"): |adj column|^2 < 1e-11 is an
        # ABSOLUTE threshold on a quantity that scales like (sum|x-c|^2)^6 * prod(eigenvalue gaps)^2: small
        # molecules (sum|x-c|^2 < ~0.05 nm^2, e.g. one water) and near-degenerate (near-collinear) inputs
        return "superpose:identity-rotation-returned(adjugate-norm-below-absolute-1e-11)"
    return None


def check_superpose_self(chk, n, seed):
    """reference is the trajectory itself (frame k): documented use t.superpose(t, k)"""
    tx, _ = gen_case(n, "near-identical", seed)
    t = _traj(tx, n)
    ref = tx[0].astype(np.float64)
    t.superpose(t, 0)
    ok = True
    for i in range(3):
        o = S.kabsch(tx[i], ref)[0]
        # frame 0 itself is moved only by rounding; compare against its new position
        att = S.rmsd_after(t.xyz[i], t.xyz[0])
        tol = tol_msd(tx[i], ref)[0]
        e = 4 * EPS * 3.0 + ulp32(np.abs(t.xyz).max())
        p = 2 * np.sqrt(3) * e
        if abs(att ** 2 - o ** 2) > tol + 2 * o * p + p * p:
            ok = False
            chk.fail("superpose-attains-minimum", "superpose:reference-is-self", f"t.superpose(t,0): frame {i} is {att:.7g} from frame 0, optimum {o:.7g}",
                     {"what": "superpose-self", "n": n, "seed": seed}, observed=att, expected=o)
    if ok:
        chk.ok(nontrivial=("self", n))


def _plan(tier):
    if tier == "quick":
        ns = list(range(3, 41))
        big = [1000, 4001]
        sels_small = {n: (SELS if n % 3 == 0 or n <= 8 else ["all"]) for n in ns}
    else:
        ns = list(range(3, 41))
        big = [1000, 4001]
        sels_small = {n: SELS for n in ns}
    return ns, big, sels_small


def run(tier, seed, hint):
    ns, big, sels_small = _plan(tier)
    reps = 1 if tier == "quick" else 10
    bound = (f"atom counts {ns[0]}..{ns[-1]} (every residue mod 4) and {big}; conformation kinds {KINDS} (small-molecule only for n<=5); "
             f"3 target frames x 3 reference frames, reference frame index in {{0,1,2}}; selections {SELS}; parallel in {{True,False}}; "
             f"precentered in {{False,True}} (after center_coordinates()); {reps} random draw(s) per cell, seed={seed}")
    c1 = Check("rmsd-vs-kabsch-oracle", "md.rmsd", bound,
               rule="generated from seed; non-trivial = distinct (n, kind, selection) cells whose selected atoms are non-collinear (s2 > 1e-3 s1)",
               stands_in_for="SSE kernels msd_atom_major / inplace_center_and_trace_atom_major and the assumed Horn/Theobald theorem + quartic root solver")
    c2 = Check("superpose-rigid-and-optimal", "Trajectory.superpose", bound,
               rule="same generator; after superpose: all pair distances of all atoms preserved, un-fitted RMSD of alignment atoms == oracle minimum, reference untouched",
               stands_in_for="rotation extraction from adj(K - lambda I) (theobald_rmsd.cpp) and SSE rot_atom_major")
    failed = set()
    for rep in range(reps):
        sd = seed * 7919 + rep
        for n in ns + big:
            if n in big and rep > 0:
                continue
            sels = sels_small.get(n, ["all", "permuted"] if n == 1000 else ["all", "different-subsets"])
            for sel in sels:  # 'all' first: failures without selections subsume those with
                if n == 3 and sel == "equal-subset":
                    continue
                for kind in KINDS:
                    if kind == "small-molecule-0.1nm" and n > 5:
                        continue
                    check_rmsd_case(c1, n, kind, sel, sd, failed)
                    check_superpose_case(c2, n, kind, sel, sd, failed)
        for n in (3, 7, 22):
            check_superpose_self(c2, n, sd)
    return [c1, c2]


def replay(payload):
    inp = payload.get("input") or payload.get("failing_input")
    chk = Check("replay", "", "", "")
    if inp["what"] == "rmsd":
        check_rmsd_case(chk, inp["n"], inp["kind"], inp["sel"], inp["seed"], set())
    elif inp["what"] == "superpose":
        check_superpose_case(chk, inp["n"], inp["kind"], inp["sel"], inp["seed"], set())
    else:
        check_superpose_self(chk, inp["n"], inp["seed"])
    return {"reproduced": bool(chk.failures), "failures": chk.failures}
