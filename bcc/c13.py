"""C13 bounded contract check: md.shrake_rupley against an independent Shrake-Rupley evaluation.

Oracle: specs/sasa.py (golden-section-spiral point set from the published formula in float64; a point counts
iff it is outside every other atom's probe-expanded sphere; area = 4 pi R^2 count/n).  vdW radii: Bondi 1964.

TOLERANCES
* float32 area arithmetic: area = count * (4 pi / n) * R * R evaluated in float32 -> relative error <= 4 * 2^-23;
  radii = float32(r_vdw) + probe -> R relative error 2^-23, squared 2*2^-23.  REL = 8 * 2^-23 ~ 1e-6 is used.
* counting: the library evaluates the spiral in float32, so each sample point is uncertain by
  R*(2.4 n 2^-23 + 1e-5) + 1e-6 nm; together with the property's own 1e-5 nm exclusion this is the `margin` of
  specs.sasa.counts, which returns the interval [lo, hi] of admissible counts.  Contract:
        lo*unit*(1-REL) <= area <= hi*unit*(1+REL),  unit = 4 pi R^2 / n.
  Atoms with lo == hi (the great majority) are therefore compared *exactly* up to float32 rounding.
* two spheres vs the analytic cap formula: |area - exact| <= min(1, 2/sqrt(n)) * 4 pi R^2  (conservative bound of the
  spiral's cap discrepancy: the cap boundary crosses at most sqrt(pi n) ~ 1.8 sqrt(n) of the n equal-area cells).
* residue mode: float32 sum of k atom areas -> |res - sum| <= (k + 8) * 2^-23 * sum.
* subsets: kept values are produced by the same arithmetic -> compared with REL; excluded entries must be exactly -1.

In-process evaluations are single-frame only, so they cannot be affected by the inter-frame carry-over defect; all
multi-frame evaluations run in fresh subprocesses with OMP_NUM_THREADS fixed to 1 and 2 (set before import).
"""
import json
import os
import subprocess
import sys

import numpy as np

from bcc.api import Check
from specs import sasa as S

EPS = 2.0 ** -23
REL = 8 * EPS
ELEMS = ["H", "C", "N", "O", "S", "P"]


def _top(symbols, res_sizes=None):
    import mdtraj as md
    from mdtraj.core import element

    top = md.Topology()
    ch = top.add_chain()
    res = None
    left = 0
    k = 0
    for i, s in enumerate(symbols):
        if left == 0:
            size = 1 if res_sizes is None else res_sizes[k % len(res_sizes)]
            res = top.add_residue(f"R{k % 9}", ch, resSeq=k + 1)
            left = size
            k += 1
        top.add_atom(s + str(i), element.Element.getBySymbol(s), res)
        left -= 1
    return top


def gen_cluster(n, seed, n_frames=1, min_dist=0.08):
    """n atoms packed so that neighbouring expanded spheres overlap; no two atoms closer than min_dist.
    Returns symbols, xyz (n_frames, n, 3) float32 (distinct frames = independent packings of the same atoms)."""
    rng = np.random.RandomState(seed * 7907 + n * 31 + 3)
    symbols = [ELEMS[k] for k in rng.randint(0, len(ELEMS), size=n)]
    frames = []
    for f in range(n_frames):
        pts = []
        Rball = 0.16 * max(n, 2) ** (1.0 / 3.0)
        while len(pts) < n:
            p = rng.normal(size=3)
            p *= Rball * rng.uniform() ** (1.0 / 3.0) / np.linalg.norm(p)
            if all(np.linalg.norm(p - q) >= min_dist for q in pts):
                pts.append(p)
        frames.append(pts)
    return symbols, np.array(frames, dtype=np.float32) + np.float32(1.0)


def radii_of(symbols, probe, change=None):
    tab = dict(S.BONDI)
    if change:
        tab.update(change)
    return np.array([np.float32(tab[s]) for s in symbols], dtype=np.float64) + probe


def _within(area, lo, hi):
    return (area >= lo * (1 - REL) - 1e-12) & (area <= hi * (1 + REL) + 1e-12)


# --------------------------------------------------------------------------------------------------------
def isolated_case(chk, sym, probe, n, change):
    import mdtraj as md

    t = md.Trajectory(np.array([[[0.3, -0.2, 1.7]]], dtype=np.float32), _top([sym]))
    a = float(md.shrake_rupley(t, probe_radius=probe, n_sphere_points=n, change_radii=change)[0, 0])
    R = radii_of([sym], probe, change)[0]
    exp = 4 * np.pi * R * R
    if abs(a - exp) > REL * exp:
        chk.fail("isolated-atom-full-sphere", "shrake_rupley:isolated-atom" + (":change_radii" if change else ""),
                 f"isolated {sym} atom, probe {probe}, n={n}, change_radii={change}: area {a:.8g}, 4 pi (r+p)^2 = {exp:.8g}",
                 {"what": "isolated", "sym": sym, "probe": probe, "n": n, "change": change}, observed=a, expected=exp)
    else:
        chk.ok(nontrivial=(sym, probe, n, bool(change)))


def check_isolated(chk, tier):
    for sym in ELEMS:
        for probe in (0.0, 0.14, 0.3):
            for n in (1, 7, 100, 960):
                for change in (None, {sym: 0.2}):
                    isolated_case(chk, sym, probe, n, change)


def two_case(chk, s1, s2, probe, n, d, u):
    import mdtraj as md

    R = radii_of([s1, s2], probe)
    u = np.asarray(u, dtype=np.float64)
    xyz = np.array([[[1, 1, 1], np.array([1, 1, 1]) + d * u]], dtype=np.float32)
    dd = float(np.linalg.norm(xyz[0, 1].astype(np.float64) - xyz[0, 0].astype(np.float64)))
    t = md.Trajectory(xyz, _top([s1, s2]))
    a = md.shrake_rupley(t, probe_radius=probe, n_sphere_points=n)[0].astype(np.float64)
    ok = True
    inp = {"what": "two", "s1": s1, "s2": s2, "probe": probe, "n": n, "d": float(d), "u": u.tolist()}
    for i, (ra, rb) in enumerate(((R[0], R[1]), (R[1], R[0]))):
        exact = S.two_sphere_exposed(ra, rb, dd)
        bound = min(1.0, 2.0 / np.sqrt(n)) * 4 * np.pi * ra * ra + REL * exact
        if abs(a[i] - exact) > bound:
            ok = False
            chk.fail("two-spheres-analytic-cap", "shrake_rupley:two-overlapping-spheres",
                     f"{s1}-{s2} at {dd:.4f} nm, probe {probe}, n={n}: atom {i} area {a[i]:.6g}, analytic {exact:.6g}, quadrature bound {bound:.3g}",
                     inp, observed=a.tolist(), expected=exact)
    lo, hi = S.areas(xyz[0], R, n)
    if not _within(a, lo, hi).all():
        ok = False
        chk.fail("equals-independent-evaluation", "shrake_rupley:two-overlapping-spheres",
                 f"{s1}-{s2} at {dd:.4f} nm, probe {probe}, n={n}: areas {a.tolist()} outside [{lo.tolist()}, {hi.tolist()}]",
                 inp, observed=a.tolist(), expected=[lo.tolist(), hi.tolist()])
    if ok:
        chk.ok(nontrivial=(s1, s2, probe, n, round(float(d), 3)))


def check_two_spheres(chk, tier, seed):
    rng = np.random.RandomState(seed + 11)
    pairs = [("C", "C"), ("H", "O"), ("S", "H"), ("N", "P")]
    nd = 8 if tier == "quick" else 30
    for s1, s2 in pairs:
        for probe in (0.0, 0.14, 0.3):
            R = radii_of([s1, s2], probe)
            for n in (1, 7, 100, 960):
                for d in np.concatenate([np.linspace(0.03, R.sum() + 0.1, nd), [abs(R[0] - R[1]) * 0.5 + 0.001]]):
                    u = rng.normal(size=3)
                    u /= np.linalg.norm(u)
                    two_case(chk, s1, s2, probe, n, float(d), u)


def _cluster_params(tier, seed):
    rng = np.random.RandomState(seed + 23)
    sizes = [2, 3, 5, 8, 13, 21, 40] if tier == "quick" else [2, 3, 4, 5, 6, 8, 10, 13, 17, 21, 30, 40, 60]
    out = []
    for n in sizes:
        for rep in range(3 if tier == "quick" else 12):
            for probe in (0.0, 0.14, 0.3):
                for npts in (1, 7, 100, 960):
                    change = {"C": 0.21, "H": 0.1} if (len(out) % 3 == 1) else None
                    out.append({"n": n, "cseed": seed * 100 + rep, "probe": probe, "npts": npts, "change": change})
    return out


def check_cluster(chk_eq, chk_rel, p):
    """single frame, in process: atom mode vs oracle; residue mode additivity; subsets; get_mapping"""
    import mdtraj as md

    n = p["n"]
    symbols, xyz = gen_cluster(n, p["cseed"])
    res_sizes = [1, 3, 2, 4]
    top = _top(symbols, res_sizes)
    t = md.Trajectory(xyz.copy(), top)
    kw = dict(probe_radius=p["probe"], n_sphere_points=p["npts"], change_radii=p["change"])
    inp = dict(p, what="cluster")
    a, amap = md.shrake_rupley(t, mode="atom", get_mapping=True, **kw)
    a = a[0].astype(np.float64)
    R = radii_of(symbols, p["probe"], p["change"])
    lo, hi = S.areas(xyz[0], R, p["npts"])
    good = _within(a, lo, hi)
    tag = ":change_radii" if p["change"] else ""
    if not good.all():
        i = int(np.argmin(good))
        chk_eq.fail("equals-independent-evaluation", "shrake_rupley:single-frame-cluster" + tag,
                    f"n_atoms={n}, probe={p['probe']}, n_sphere_points={p['npts']}, change_radii={p['change']}: atom {i} ({symbols[i]}) area {a[i]:.7g}, "
                    f"independent evaluation [{lo[i]:.7g}, {hi[i]:.7g}]", inp, observed=a.tolist(), expected=[lo.tolist(), hi.tolist()])
    else:
        chk_eq.ok(nontrivial=(n, p["cseed"], p["probe"], p["npts"], bool(p["change"])),
                  sample={"n_atoms": n, "probe": p["probe"], "n_sphere_points": p["npts"], "atoms_compared_exactly": int(np.sum(lo == hi)), "total_area": round(float(a.sum()), 5)})
    if not np.array_equal(np.asarray(amap), np.arange(n)):
        chk_rel.fail("get_mapping", "shrake_rupley:get_mapping:atom", "atom-mode mapping is not arange(n_atoms)", inp, observed=np.asarray(amap))
    # residue mode = sum of atom mode
    r, rmap = md.shrake_rupley(t, mode="residue", get_mapping=True, **kw)
    r = r[0].astype(np.float64)
    resid = np.array([at.residue.index for at in top.atoms])
    ok = True
    if not np.array_equal(np.asarray(rmap), resid):
        ok = False
        chk_rel.fail("get_mapping", "shrake_rupley:get_mapping:residue", "residue-mode mapping is not the residue index of every atom", inp, observed=np.asarray(rmap), expected=resid)
    if r.shape[0] != top.n_residues:
        ok = False
        chk_rel.fail("residue-mode-shape", "shrake_rupley:residue-mode", f"{r.shape[0]} columns for {top.n_residues} residues", inp)
    else:
        for j in range(top.n_residues):
            idx = np.where(resid == j)[0]
            s = float(np.sum(a[idx]))
            if abs(r[j] - s) > (len(idx) + 8) * EPS * max(s, 1e-30):
                ok = False
                chk_rel.fail("residue-equals-sum-of-atoms", "shrake_rupley:residue-mode" + tag, f"residue {j} (atoms {idx.tolist()}): residue mode {r[j]:.8g}, sum of atom mode {s:.8g}",
                             inp, observed=float(r[j]), expected=s)
                break
    # subsets
    rng = np.random.RandomState(p["cseed"] + n)
    subsets = [[0], list(range(0, n, 2)), sorted(rng.choice(n, max(1, n // 3), replace=False).tolist()), list(range(n))]
    for sub_i, sub in enumerate(subsets):
        for as_array in (False, True):
            sel = np.array(sub) if as_array else sub
            sa = md.shrake_rupley(t, mode="atom", atom_indices=sel, **kw)[0].astype(np.float64)
            mask = np.zeros(n, bool)
            mask[sub] = True
            if not np.all(sa[~mask] == -1.0):
                ok = False
                chk_rel.fail("unselected-atoms-minus-one", "shrake_rupley:atom_indices:atom-mode", f"atom_indices={sub}: unselected atoms report {sa[~mask].tolist()[:6]}, documented -1",
                             dict(inp, subset=sub), observed=sa.tolist())
            if np.any(np.abs(sa[mask] - a[mask]) > REL * np.maximum(a[mask], 1e-30)):
                ok = False
                chk_rel.fail("subset-does-not-change-kept-values", "shrake_rupley:atom_indices:atom-mode", f"atom_indices={sub}: kept atoms changed", dict(inp, subset=sub),
                             observed=sa[mask].tolist(), expected=a[mask].tolist())
            sr = md.shrake_rupley(t, mode="residue", atom_indices=sel, **kw)[0].astype(np.float64)
            for j in range(top.n_residues):
                idx = np.where((resid == j) & mask)[0]
                if len(idx) == 0:
                    if sr[j] != -1.0:
                        ok = False
                        chk_rel.fail("residue-without-selected-atom-minus-one", "shrake_rupley:atom_indices:residue-mode",
                                     f"atom_indices={sub}: residue {j} has no selected atom but reports {sr[j]}", dict(inp, subset=sub), observed=float(sr[j]), expected=-1.0)
                        break
                else:
                    s = float(np.sum(a[idx]))
                    if abs(sr[j] - s) > (len(idx) + 8) * EPS * max(s, 1e-30):
                        ok = False
                        chk_rel.fail("residue-equals-sum-of-selected-atoms", "shrake_rupley:atom_indices:residue-mode",
                                     f"atom_indices={sub}: residue {j} reports {sr[j]:.8g}, sum of atom mode over its selected atoms {idx.tolist()} = {s:.8g}",
                                     dict(inp, subset=sub), observed=float(sr[j]), expected=s)
                        break
    if ok:
        chk_rel.ok(nontrivial=(n, p["cseed"], p["probe"], p["npts"], bool(p["change"])))


# --------------------------------------------------------------------------------------------------------
# multi-frame evaluation in fresh subprocesses
LAYOUTS = [[0], [0, 0], [0, 1], [0, 0, 0], [0, 1, 0], [0, 1, 2], [0, 1, 0, 2], [0, 0, 1, 1], [0, 1, 2, 3]]


def worker(jobs):
    """jobs: list of {n, cseed, layout, probe, npts, mode}; returns list of result arrays (as nested lists)"""
    import warnings

    import mdtraj as md

    warnings.simplefilter("ignore")
    out = []
    for j in jobs:
        symbols, frames = gen_cluster(j["n"], j["cseed"], n_frames=max(j["layout"]) + 1)
        top = _top(symbols, [1, 3, 2, 4])
        t = md.Trajectory(frames[j["layout"]].copy(), top)
        a = md.shrake_rupley(t, probe_radius=j["probe"], n_sphere_points=j["npts"], mode=j["mode"])
        out.append(np.asarray(a, dtype=np.float64).tolist())
    return out


def _spawn(jobs, threads):
    import mdtraj

    root = os.path.dirname(os.path.dirname(os.path.abspath(mdtraj.__file__)))
    verif = os.path.dirname(os.path.dirname(os.path.abspath(__file__)))
    code = ("import sys, json\n"
            f"sys.path.insert(0, {verif!r}); sys.path.insert(0, {root!r})\n"
            "from bcc import c13\n"
            "jobs = json.loads(sys.stdin.read())\n"
            "sys.stdout.write('@@RESULT@@' + json.dumps(c13.worker(jobs)))\n")
    env = dict(os.environ)
    env.update({"OMP_NUM_THREADS": str(threads), "OMP_DYNAMIC": "false", "OMP_WAIT_POLICY": "passive"})
    p = subprocess.run([sys.executable, "-c", code], env=env, input=json.dumps(jobs), capture_output=True, text=True, timeout=900)
    if "@@RESULT@@" not in p.stdout:
        raise RuntimeError(f"worker failed rc={p.returncode}: {p.stderr[-600:]} {p.stdout[-200:]}")
    return json.loads(p.stdout.split("@@RESULT@@", 1)[1])


def multi_jobs(tier, seed):
    jobs = []
    sizes = [2, 9] if tier == "quick" else [2, 5, 9, 20]
    for n in sizes:
        for layout in LAYOUTS:
            for probe, npts in ((0.14, 960), (0.3, 100)) if tier == "quick" else ((0.14, 960), (0.3, 100), (0.0, 7), (0.14, 1)):
                for mode in ("atom", "residue"):
                    jobs.append({"n": n, "cseed": seed * 100 + 50, "layout": layout, "probe": probe, "npts": npts, "mode": mode})
    return jobs


def judge_multi(chk, job, res, threads):
    """every frame of a multi-frame call must equal the independent evaluation of that frame"""
    symbols, frames = gen_cluster(job["n"], job["cseed"], n_frames=max(job["layout"]) + 1)
    top = _top(symbols, [1, 3, 2, 4])
    resid = np.array([at.residue.index for at in top.atoms])
    R = radii_of(symbols, job["probe"])
    res = np.asarray(res)
    inp = dict(job, what="multi", threads=threads)
    ok = True
    for fi, d in enumerate(job["layout"]):
        lo, hi = S.areas(frames[d], R, job["npts"])
        if job["mode"] == "residue":
            k = np.bincount(resid)
            lo = np.bincount(resid, weights=lo) * (1 - k * EPS)
            hi = np.bincount(resid, weights=hi) * (1 + k * EPS)
        good = _within(res[fi], lo, hi)
        if not good.all():
            ok = False
            i = int(np.argmin(good))
            # classification: a frame that is not the first one handled by its thread (static schedule: contiguous blocks)
            nf = len(job["layout"])
            per = -(-nf // threads)
            first_of_block = (fi % per == 0) if threads < nf else True
            wc = "shrake_rupley:frames-sharing-a-thread" if not first_of_block else "shrake_rupley:multi-frame"
            chk.fail("multi-frame-equals-independent-evaluation", wc,
                     f"OMP_NUM_THREADS={threads}, frames laid out {job['layout']} (indices of distinct conformations), mode={job['mode']}, n_atoms={job['n']}, "
                     f"probe={job['probe']}, n_sphere_points={job['npts']}: frame {fi} entry {i} = {res[fi][i]:.8g}, independent evaluation "
                     f"[{lo[i]:.8g}, {hi[i]:.8g}]" + (f"; frame 0 of the same call gives {res[0][i]:.8g} for the identical conformation" if d == job['layout'][0] and fi else ""),
                     inp, observed=res[fi].tolist(), expected=[lo.tolist(), hi.tolist()])
            break
    if ok:
        chk.ok(nontrivial=(job["n"], tuple(job["layout"]), job["probe"], job["npts"], job["mode"], threads))
    return ok


def run(tier, seed, hint):
    c1 = Check("isolated-and-two-spheres", "md.shrake_rupley",
               bound="isolated atoms of {H,C,N,O,S,P} x probe {0,0.14,0.3} x n_sphere_points {1,7,100,960} x change_radii {None,{X:0.2}}; "
                     f"two spheres: 4 element pairs x probe x n x {9 if tier == 'quick' else 31} centre distances from 0.03 nm to touching+0.1 incl. one sphere inside the other",
               rule="exact 4 pi R^2 for isolated atoms; analytic cap formula within min(1, 2/sqrt(n)) of the full sphere AND the independent point evaluation",
               stands_in_for="asa_frame point counting / generate_sphere_points (float32 kernels behind fvec4)")
    check_isolated(c1, tier)
    check_two_spheres(c1, tier, seed)
    params = _cluster_params(tier, seed)
    c2 = Check("clusters-vs-independent-evaluation", "md.shrake_rupley(mode='atom')",
               bound=f"{len(params)} random clusters: n_atoms in {sorted({p['n'] for p in params})}, elements {ELEMS}, min pair distance 0.08 nm, probe {{0,0.14,0.3}}, "
                     f"n_sphere_points {{1,7,100,960}}, change_radii in {{None, {{C:0.21,H:0.1}}}}; single frame; seed={seed}",
               rule="area within [lo,hi]*4 pi R^2/n*(1+-1e-6) of the independent evaluation; points within the float32 point-set margin of a neighbour surface are undecided",
               stands_in_for="asa_frame neighbour prefilter + cyclic closest-neighbour cache")
    c3 = Check("residue-sum-subsets-mapping", "md.shrake_rupley(mode, atom_indices, get_mapping)", bound=c2.bound + "; residues of sizes 1,3,2,4 cyclically; "
               "4 subsets per cluster ([0], every other atom, random third, all) as list and as ndarray",
               rule="residue mode == sum of atom mode; kept values unchanged; -1 for unselected atoms and residues without selected atoms; mapping arrays exact",
               stands_in_for="sasa() group accumulation and the selection mask in sasa.py")
    for p in params:
        check_cluster(c2, c3, p)
    jobs = multi_jobs(tier, seed)
    c4 = Check("multi-frame-per-thread-count", "md.shrake_rupley on 1-4 frames",
               bound=f"{len(jobs)} calls: n_atoms {sorted({j['n'] for j in jobs})} x frame layouts {LAYOUTS} (repeated frames included) x (probe,n) settings x mode {{atom,residue}}, "
                     "each under OMP_NUM_THREADS in {1,2} in a fresh subprocess",
               rule="every frame of every call within the independent evaluation of that frame",
               stands_in_for="scratch-freshness obligation of asa_frame (areas[i] must be 0 on entry)")
    for threads in (1, 2):
        try:
            res = _spawn(jobs, threads)
        except Exception as e:
            c4.fail("worker-failed", f"subprocess:{threads}-threads", str(e), {"what": "multi-worker", "threads": threads})
            continue
        failed_layouts = []
        for job, r in sorted(zip(jobs, res), key=lambda jr: (len(jr[0]["layout"]), jr[0]["n"])):
            if any(_contains(job["layout"], fl) for fl in failed_layouts):
                c4.evaluations += 1
                continue  # contains a smaller failing layout: subsumed
            if not judge_multi(c4, job, r, threads):
                failed_layouts.append(job["layout"])
    return [c1, c2, c3, c4]


def _contains(layout, smaller):
    return len(smaller) <= len(layout) and len(smaller) >= 2


def replay(payload):
    inp = payload.get("input") or payload.get("failing_input")
    chk = Check("replay", "", "", "")
    chk2 = Check("replay", "", "", "")
    w = inp["what"]
    if w == "multi":
        job = {k: inp[k] for k in ("n", "cseed", "layout", "probe", "npts", "mode")}
        judge_multi(chk, job, _spawn([job], inp["threads"])[0], inp["threads"])
    elif w == "cluster":
        check_cluster(chk, chk2, {k: inp[k] for k in ("n", "cseed", "probe", "npts", "change")})
    elif w == "isolated":
        isolated_case(chk, inp["sym"], inp["probe"], inp["n"], inp["change"])
    elif w == "two":
        two_case(chk, inp["s1"], inp["s2"], inp["probe"], inp["n"], inp["d"], inp["u"])
    fails = chk.failures + chk2.failures
    return {"reproduced": bool(fails), "failures": fails}
