"""C02 bounded contract check: partial loading equals slicing the fully loaded trajectory.

Real files written by mdtraj in every readable trajectory format.  The oracle for every partial load of a file
is NumPy slicing of the FULL load of the same file (`full = md.load(f)`), as the property says -- so the
format's own quantisation cancels and every comparison is exact (np.array_equal; no tolerance):

  load(f, stride=s, atom_indices=a)  ==  full.xyz[::s][:, a], full.time[::s], full.unitcell_*[::s], topology restricted to a
  load_frame(f, i) / load(f, frame=i) ==  full.xyz[i:i+1], full.time[i:i+1], full.unitcell_*[i:i+1]
  iterload(f, chunk=c, stride=s, skip=k, atom_indices=a):
        c > 0: every chunk but the last has exactly c frames, the last has 1..c;   c == 0: a single chunk
        concatenation of the chunks == frames k, k+s, k+2s, ... of the full file (full[k::s]), atoms a
  load([f1..fk], stride=s, atom_indices=a) == concatenation of load(fi, stride=s, atom_indices=a)

The topology of a partial load is compared (with the independent observer of bcc/c04.py) against
`full.topology.subset(a)` -- Topology.subset is C04's contract, C02 only demands that the loaders use it consistently.

Frames are identified by content: frame i of the written trajectory has x(atom 0) = i + 0.5 nm and random other
coordinates, so an observed frame is matched against the rows of the full load (restricted to the same atoms).

Minimal witnesses: every case of the bound is evaluated; the witness class of a failure is its set of non-default features
{chunk=0|chunk>0, stride>1, skip>0|skip=N, atom_indices, files>1} plus the format; for one (format, clause) only failures whose feature
set is minimal are reported.  A (clause, feature set) that fails for EVERY format is reported once as `all-formats`.
Every format runs in its own interpreter with glibc heap checking switched on, so a reader that corrupts the heap is reported as a
`crash` of the case it was evaluating instead of taking the check down (cases containing that feature set are then skipped).
"""
import itertools
import json
import os
import pickle
import subprocess
import sys
from concurrent.futures import ThreadPoolExecutor

import numpy as np

import mdtraj as md
from bcc.api import Check
from bcc.fixtures import Scratch, make_traj

FORMATS = ["h5", "xtc", "trr", "dcd", "nc", "mdcrd", "xyz", "lammpstrj", "gro", "pdb", "dtr", "arc"]
HAS_TOP = {"h5", "pdb", "gro", "arc"}
N_ATOMS = 5
ATOM_SUBSETS = [None, [0], [1, 3], [0, 2, 4]]
STRIDES = [1, 2, 3, 4]


# ------------------------------------------------------------------------------------------------
def write_file(d, fmt, N, seed, tag=""):
    cell = None if fmt == "xyz" else "ortho"
    t = make_traj(n_frames=N, n_atoms=N_ATOMS, cell=cell, seed=seed * 100 + N)
    path = os.path.join(d, f"t{tag}{N}.{fmt}")
    if fmt == "arc":
        # mdtraj has no TINKER archive writer: the text is written here (atom count line, box line, one line per atom:
        # index, name, x y z in angstrom, atom type, bonded partners)
        with open(path, "w") as fh:
            for f in range(N):
                fh.write(f"{N_ATOMS:6d}  frame {f}\n")
                fh.write(" ".join(f"{10 * v:12.6f}" for v in t.unitcell_lengths[f]) + " " + " ".join(f"{v:12.6f}" for v in t.unitcell_angles[f]) + "\n")
                for a in range(N_ATOMS):
                    partners = [b for b in (a, a + 2) if 1 <= b <= N_ATOMS and b != a + 1]
                    x, y, z = (10 * float(v) for v in t.xyz[f, a])
                    fh.write(f"{a + 1:6d}  {'CNOHS'[a % 5]:<3s}{x:12.6f}{y:12.6f}{z:12.6f}{1:6d}" + "".join(f"{b:6d}" for b in partners) + "\n")
        return path, md.load(path).topology
    t.save(path)
    return path, t.topology


def kw_top(fmt, top):
    return {} if fmt in HAS_TOP else {"top": top}


def top_view(top):
    from bcc.c04 import observe
    return observe(top)[0]


def top_diff(obs_top, exp_top):
    """None if the observer sees the same topology; 'topology-chain_id' if they differ only in chain identifiers (chunks and joined
    loads are produced by slicing/joining, which deep-copies the topology: a loss of chain ids there is the Topology.copy finding of
    C04 showing through -- kept as its own clause so that it is not confused with a loader defect); else 'topology'."""
    vo, ve = top_view(obs_top), top_view(exp_top)
    if vo == ve:
        return None
    for v in (vo, ve):
        for c in v["chains"]:
            c["chain_id"] = None
    return "topology-chain_id" if vo == ve else "topology"


def fresh_top():
    from bcc.fixtures import make_topology
    return make_topology(N_ATOMS)


class Full:
    """the full load of one file and fast content lookup of its frames"""

    def __init__(self, path, fmt, top):
        self.t = md.load(path, **kw_top(fmt, top))
        self.N = len(self.t)
        self._lookup = {}

    def rows(self, a):
        key = None if a is None else tuple(a)
        if key not in self._lookup:
            x = self.t.xyz if a is None else self.t.xyz[:, a]
            self._lookup[key] = {x[i].tobytes(): i for i in range(self.N)}
        return self._lookup[key]

    def identify(self, xyz, a):
        """indices of the frames of `xyz` in the full load (None for a frame that matches no full frame)"""
        rows = self.rows(a)
        return [rows.get(np.ascontiguousarray(f).tobytes()) for f in xyz]


def compare(obs, full, idx, a, what_top=True):
    """obs: Trajectory; expected = full frames idx, atoms a.  Returns (clause, observed, expected) or None."""
    idx = list(idx)
    F = full.t
    na = N_ATOMS if a is None else len(a)
    if obs.xyz.shape[1:] != (na, 3):
        return ("atoms", list(obs.xyz.shape), [len(idx), na, 3])
    got = full.identify(obs.xyz, a)
    if got != idx:
        return ("frames", got, idx)
    if len(obs.time) != len(idx) or not np.array_equal(np.asarray(obs.time, dtype=np.float64), np.asarray(F.time[idx], dtype=np.float64)):
        return ("time", np.asarray(obs.time), np.asarray(F.time[idx]))
    for name in ("unitcell_lengths", "unitcell_angles"):
        o, e = getattr(obs, name), getattr(F, name)
        if (o is None) != (e is None):
            if len(idx) == 0 and e is not None:
                continue  # an empty result carries no per-frame cell either way
            return (name, None if o is None else np.asarray(o), None if e is None else np.asarray(e[idx]))
        if e is not None and not np.array_equal(np.asarray(o, dtype=np.float64), np.asarray(e[idx], dtype=np.float64)):
            return (name, np.asarray(o), np.asarray(e[idx]))
    if what_top and obs.topology is not None:
        exp_top = F.topology if a is None else F.topology.subset(a)
        td = top_diff(obs.topology, exp_top)
        if td:
            return (td, top_view(obs.topology)["chains"], top_view(exp_top)["chains"])
    return None


# ------------------------------------------------------------------------------------------------
# feature bookkeeping (minimal witnesses)
# ------------------------------------------------------------------------------------------------
def feats(stride=1, skip=0, atoms=None, chunk=None, extra=(), N=None):
    f = []
    if chunk is not None:
        f.append("chunk=0" if chunk == 0 else "chunk>0")
    if stride != 1:
        f.append("stride>1")
    if skip:
        f.append("skip>0")
        if N is not None and skip >= N:
            f.append("skip=N")  # the boundary of the quantifier skip in [0, n_frames]: nothing is left to load
    if atoms is not None:
        f.append("atom_indices")
    return tuple(f) + tuple(extra)


class Recorder:
    """collects results of one worker (picklable)"""

    def __init__(self):
        self.evals = {}
        self.nontrivial = {}
        self.samples = {}
        self.fails = []
        self.failed_sets = {}  # feature sets whose evaluation killed the interpreter in an earlier attempt: these (and supersets) are not run again

    def subsumed(self, check, f):
        return any(set(g) <= set(f) for g in self.failed_sets.get(check, ())) or any(set(g) <= set(f) for g in self.failed_sets.get("*", ()))

    def ok(self, check, nontrivial=None, sample=None):
        self.evals[check] = self.evals.get(check, 0) + 1
        if nontrivial is not None:
            self.nontrivial.setdefault(check, set()).add(nontrivial)
        if sample is not None and len(self.samples.setdefault(check, [])) < 1:
            self.samples[check].append(sample)

    def fail(self, check, clause, prefix, f, fmt, what, inp, observed=None, expected=None, tail=""):
        self.evals[check] = self.evals.get(check, 0) + 1
        self.fails.append(dict(check=check, clause=clause, prefix=prefix, feats=f, fmt=fmt, tail=tail, what=what, input=inp,
                               observed=_js(observed), expected=_js(expected)))


def _js(x):
    if isinstance(x, np.ndarray):
        return x.tolist()
    return x


# ------------------------------------------------------------------------------------------------
# the individual contracts
# ------------------------------------------------------------------------------------------------
def case_load(rec, path, fmt, top, full, N, seed, s, a):
    f = feats(stride=s, atoms=a)
    if rec.subsumed("load", f):
        return
    inp = {"check": "load", "fmt": fmt, "N": N, "seed": seed, "stride": s, "atoms": a}
    try:
        obs = md.load(path, stride=s, atom_indices=a, **kw_top(fmt, top))
    except Exception as e:
        rec.fail("load", "load-raises", "load", f, fmt, f"md.load({fmt}, stride={s}, atom_indices={a}) raised {type(e).__name__}: {e}", inp, tail=type(e).__name__)
        return
    bad = compare(obs, full, range(0, N, s), a)
    if bad:
        rec.fail("load", "load-" + bad[0], "load", f, fmt, f"md.load({fmt} with {N} frames, stride={s}, atom_indices={a}): {bad[0]} differ from full[::{s}] restricted to the atoms",
                 inp, bad[1], bad[2])
    else:
        rec.ok("load", nontrivial=(fmt, N, s, None if a is None else tuple(a)) if (s > 1 or a is not None) else None, sample=inp)


def case_frame(rec, path, fmt, top, full, N, seed, i, a, via):
    f = feats(atoms=a)
    if rec.subsumed("frame", f):
        return
    inp = {"check": "frame", "fmt": fmt, "N": N, "seed": seed, "frame": i, "atoms": a, "via": via}
    try:
        if via == "load_frame":
            obs = md.load_frame(path, i, atom_indices=a, **kw_top(fmt, top))
        else:
            obs = md.load(path, frame=i, atom_indices=a, **kw_top(fmt, top))
    except Exception as e:
        rec.fail("frame", "load_frame-raises", "load_frame", f, fmt, f"md.{via}({fmt}, {i}) raised {type(e).__name__}: {e}", inp, tail=type(e).__name__)
        return
    bad = compare(obs, full, [i], a)
    if bad:
        rec.fail("frame", "load_frame-" + bad[0], "load_frame", f, fmt, f"md.{via}({fmt} with {N} frames, {i}, atom_indices={a}): {bad[0]} differ from full[{i}]", inp, bad[1], bad[2])
    else:
        rec.ok("frame", nontrivial=(fmt, N, i, via, None if a is None else tuple(a)) if i > 0 else None, sample=inp)


def case_iterload(rec, path, fmt, top, full, N, seed, c, s, k, a):
    f = feats(stride=s, skip=k, atoms=a, chunk=c, N=N)
    if rec.subsumed("iterload", f):
        return
    inp = {"check": "iterload", "fmt": fmt, "N": N, "seed": seed, "chunk": c, "stride": s, "skip": k, "atoms": a}
    call = f"md.iterload({fmt} with {N} frames, chunk={c}, stride={s}, skip={k}, atom_indices={a})"
    limit = N + 3  # a correct iteration yields at most ceil(N/c) <= N chunks; an iterator that keeps yielding is cut off here
    try:
        chunks = list(itertools.islice(md.iterload(path, chunk=c, stride=s, skip=k, atom_indices=a, **kw_top(fmt, top)), limit))
    except Exception as e:
        rec.fail("iterload", "iterload-raises", "iterload", f, fmt, f"{call} raised {type(e).__name__}: {e}", inp, tail=type(e).__name__)
        return
    idx = list(range(k, N, s))
    sizes = [len(ch) for ch in chunks]
    if len(chunks) >= limit:
        ids = [full.identify(ch.xyz, a) if ch.xyz.shape[1] == (N_ATOMS if a is None else len(a)) else None for ch in chunks]
        rec.fail("iterload", "iterload-does-not-terminate", "iterload", f, fmt, f"{call}: still yielding after {limit} chunks of a {N}-frame file; frames so far {ids}", inp, ids, idx)
        return
    # concatenation first (wrong frames is the more informative clause), then the sizes
    got = []
    for ch in chunks:
        na = N_ATOMS if a is None else len(a)
        if ch.xyz.shape[1:] != (na, 3):
            rec.fail("iterload", "iterload-atoms", "iterload", f, fmt, f"{call}: chunk with xyz shape {ch.xyz.shape}", inp, list(ch.xyz.shape), [None, na, 3])
            return
        got += full.identify(ch.xyz, a)
    if got != idx:
        rec.fail("iterload", "iterload-frames", "iterload", f, fmt, f"{call}: concatenated chunks hold frames {got} (chunk sizes {sizes}); full[{k}::{s}] is frames {idx}", inp, got, idx)
        return
    if c > 0:
        want = [c] * (len(idx) // c) + ([len(idx) % c] if len(idx) % c else [])
        if [z for z in sizes if z] != want or any(z == 0 for z in sizes[:-1]):
            rec.fail("iterload", "iterload-chunk-size", "iterload", f, fmt, f"{call}: chunk sizes {sizes}; requested size gives {want}", inp, sizes, want)
            return
    elif len(chunks) > 1:
        rec.fail("iterload", "iterload-chunk-size", "iterload", f, fmt, f"{call}: chunk=0 (load all) yielded {len(chunks)} chunks", inp, sizes, [len(idx)])
        return
    pos = 0
    for ch in chunks:
        bad = compare(ch, full, idx[pos:pos + len(ch)], a)
        pos += len(ch)
        if bad:
            rec.fail("iterload", "iterload-" + bad[0], "iterload", f, fmt, f"{call}: {bad[0]} of a chunk differ from the same frames of the full load", inp, bad[1], bad[2])
            return
    nt = (fmt, N, c, s, k, None if a is None else tuple(a)) if (c > 0 and s > 1 and c % s != 0) or c > N or c == 1 or k > 0 else None
    rec.ok("iterload", nontrivial=nt, sample=inp)


def case_list(rec, paths, fulls, fmt, top, seed, sel, s, a):
    f = feats(stride=s, atoms=a, extra=("files>1",) if len(sel) > 1 else ())
    if rec.subsumed("list", f):
        return
    inp = {"check": "list", "fmt": fmt, "seed": seed, "files": list(sel), "stride": s, "atoms": a}
    call = f"md.load([{len(sel)} {fmt} files with {[fulls[j].N for j in sel]} frames], stride={s}, atom_indices={a})"
    mytop = fresh_top()  # a Topology object of the caller's, used for this one call only
    before = top_view(mytop)
    try:
        obs = md.load([paths[j] for j in sel], stride=s, atom_indices=a, **kw_top(fmt, mytop))
    except Exception as e:
        rec.fail("list", "load-list-raises", "load-list", f, fmt, f"{call} raised {type(e).__name__}: {e}", inp, tail=type(e).__name__)
        return
    # the caller's topology object must still be the same topology and still work (its subset of one atom has one atom)
    try:
        after_ok = top_view(mytop) == before and mytop.subset([0]).n_atoms == 1 and mytop.subset([0, 1, 2]).n_atoms == 3
    except Exception:
        after_ok = False
    if not after_ok:
        rec.fail("list", "load-list-corrupts-caller-topology", "load-list", f, fmt,
                 f"{call}: afterwards the Topology object passed as top= is no longer usable: top.subset([0]) has {mytop.subset([0]).n_atoms} atoms, "
                 f"top.subset([0,1,2]) has {mytop.subset([0, 1, 2]).n_atoms}", inp, [mytop.subset([0]).n_atoms, mytop.subset([0, 1, 2]).n_atoms], [1, 3])
        return
    parts = [fulls[j].t for j in sel]
    ex = np.concatenate([p.xyz[::s] if a is None else p.xyz[::s][:, a] for p in parts])
    et = np.concatenate([p.time[::s] for p in parts])
    bad = None
    if obs.xyz.shape != ex.shape or not np.array_equal(obs.xyz, ex):
        bad = ("xyz", list(obs.xyz.shape), list(ex.shape))
    elif not np.array_equal(np.asarray(obs.time, dtype=np.float64), np.asarray(et, dtype=np.float64)):
        bad = ("time", np.asarray(obs.time), et)
    else:
        for name in ("unitcell_lengths", "unitcell_angles"):
            e0 = getattr(parts[0], name)
            o = getattr(obs, name)
            if (o is None) != (e0 is None):
                bad = (name, None if o is None else np.asarray(o), "present" if e0 is not None else None)
            elif e0 is not None:
                e = np.concatenate([getattr(p, name)[::s] for p in parts])
                if not np.array_equal(np.asarray(o, dtype=np.float64), np.asarray(e, dtype=np.float64)):
                    bad = (name, np.asarray(o), e)
            if bad:
                break
        if not bad:
            exp_top = parts[0].topology if a is None else parts[0].topology.subset(a)
            td = "topology" if obs.topology is None else top_diff(obs.topology, exp_top)
            if td:
                bad = (td, str(obs.topology), str(exp_top))
    if bad:
        rec.fail("list", "load-list-" + bad[0], "load-list", f, fmt, f"{call}: {bad[0]} differ from the concatenation of the individual loads", inp, bad[1], bad[2])
    else:
        rec.ok("list", nontrivial=(fmt, tuple(sel), s, None if a is None else tuple(a)) if len(sel) > 1 else None, sample=inp)


# ---- file objects: the window consumed by a strided read (what iterload's loop relies on) ------------------
def _open(path, fmt):
    if fmt == "mdcrd":
        return md.formats.MDCRDTrajectoryFile(path, n_atoms=N_ATOMS)
    return md.open(path)


def _frame_ids(res, fmt):
    if fmt == "h5":
        xyz = res.coordinates if not isinstance(res, list) else np.zeros((0, 1, 3))
    elif isinstance(res, tuple):
        xyz = res[0]
    else:
        xyz = res
    xyz = np.asarray(xyz)
    if xyz.size == 0:
        return []
    unit = 1.0 if fmt in ("h5", "xtc", "trr", "gro") else 10.0
    return [int(round(float(v) / unit - 0.5)) for v in xyz[:, 0, 0]]


_SEEKABLE = {}


def _offers_seek(path, fmt):
    if fmt not in _SEEKABLE:
        try:
            h = _open(path, fmt)
            try:
                h.seek(0)
                _SEEKABLE[fmt] = True
            except NotImplementedError:
                _SEEKABLE[fmt] = False
            finally:
                h.close()
        except Exception:
            _SEEKABLE[fmt] = True
    return _SEEKABLE[fmt]


def case_window(rec, path, fmt, N, seed, k, n, s, explicit_seek0=False):
    """seek(k); read(n, stride=s) must return frames k, k+s, .. (n of them unless the file ends), and leave the cursor
    at the frame that a chunked strided reader continues with: the next read(1) returns frame k+n*s, and tell() names the
    frame the next read returns."""
    f = feats(stride=s, skip=k)
    if rec.subsumed("window", f) or not _offers_seek(path, fmt):
        return  # a class that does not offer seek (NotImplementedError) has no cursor to check
    do_seek = k > 0 or explicit_seek0
    inp = {"check": "window", "fmt": fmt, "N": N, "seed": seed, "skip": k, "n": n, "stride": s, "seek0": bool(explicit_seek0)}
    call = f"{fmt} file object with {N} frames: {'seek(%d); ' % k if do_seek else ''}read({n}, stride={s})"
    try:
        h = _open(path, fmt)
    except Exception:
        return
    try:
        try:
            if do_seek:
                h.seek(k)
            first = _frame_ids(h.read(n, stride=s), fmt)
        except NotImplementedError:
            return  # seek/strided read not offered by this class: no cursor to check
        except Exception as e:
            rec.fail("window", "read-raises", "file.read", f, fmt, f"{call} raised {type(e).__name__}: {e}", inp, tail=type(e).__name__)
            return
        want = list(range(k, N, s))[:n]
        if first != want:
            rec.fail("window", "read-frames", "file.read", f, fmt, f"{call} returned frames {first}; expected {want}", inp, first, want)
            return
        nxt_want = k + n * s
        try:
            told = int(h.tell())
        except Exception:
            told = None
        try:
            nxt = _frame_ids(h.read(1), fmt)
        except Exception as e:
            rec.fail("window", "next-read-raises", "file.read", f, fmt, f"{call}; read(1) raised {type(e).__name__}: {e}", inp, tail=type(e).__name__)
            return
        want_nxt = [nxt_want] if nxt_want < N else []
        if nxt != want_nxt:
            rec.fail("window", "next-read-after-strided-read", "file.read", f, fmt, f"{call}; then read(1) returned frames {nxt}; a chunked strided reader continues at {want_nxt}", inp, nxt, want_nxt)
            return
        if told is not None and told != min(nxt_want, N) and not (nxt_want >= N and told >= N):
            rec.fail("window", "tell-after-strided-read", "file.tell", f, fmt, f"{call}; tell() says {told} but the next read(1) returned frame {nxt or 'EOF'} (cursor is at {min(nxt_want, N)})", inp, told, min(nxt_want, N))
            return
        rec.ok("window", nontrivial=(fmt, N, k, n, s) if s > 1 else None, sample=inp)
    finally:
        try:
            h.close()
        except Exception:
            pass


# ------------------------------------------------------------------------------------------------
def _sorted_cases(cases):
    """small first: by number of non-default features, then by the values"""
    return sorted(cases, key=lambda c: (c[0], c[1]))


def worker(args):
    fmt, Ns, seed, tier, only = args[:5]
    pre_failed = args[5] if len(args) > 5 else {}
    progress = args[6] if len(args) > 6 else None
    workdir = args[7] if len(args) > 7 else None
    import warnings
    warnings.simplefilter("ignore")
    rec = Recorder()
    for k, v in (pre_failed or {}).items():
        rec.failed_sets[k] = [tuple(x) for x in v]

    repeat = int(only.get("_repeat", 1)) if only else 1
    state = {"prev": None}

    def note(case):
        # previous and current case, replaced atomically: a corrupted heap is often noticed one case late (numpy caches small buffers)
        if progress:
            with open(progress + ".tmp", "w") as fh:
                json.dump({"prev": state["prev"], "cur": case}, fh)
            os.replace(progress + ".tmp", progress)
        state["prev"] = case
    with (Scratch("c02-" + fmt) if workdir is None else _Given(workdir)) as d:
        files = {}
        for N in Ns:
            try:
                path, top = write_file(d, fmt, N, seed)
                files[N] = (path, top, Full(path, fmt, top))
            except Exception as e:
                rec.fail("load", "fixture", "save+full-load", (), fmt, f"could not write/fully load a {N}-frame {fmt} file: {type(e).__name__}: {e}", {"check": "fixture", "fmt": fmt, "N": N, "seed": seed})
                continue
            if files[N][2].N != N:
                # the full load itself is wrong: C01's business; nothing in C02 can be judged on this file
                del files[N]
        # ---- load with stride / atoms, load_frame
        cases = []
        for N in files:
            for s in STRIDES:
                for a in ATOM_SUBSETS:
                    cases.append((len(feats(stride=s, atoms=a)), (N, s, len(a or ())), ("load", N, s, a)))
            for i in range(N):
                for a in (None, [1, 3]):
                    for via in ("load_frame", "load"):
                        cases.append((len(feats(atoms=a)) + 0.5, (N, i, len(a or ())), ("frame", N, i, a, via)))
        # ---- iterload
        for N in files:
            for c in range(0, N + 2):
                for s in STRIDES:
                    for k in range(0, N + 1):
                        for a in ATOM_SUBSETS:
                            cases.append((len(feats(stride=s, skip=k, atoms=a, chunk=c, N=N)) - (1 if c else 0.5), (N, s, c, k, len(a or ())), ("iterload", N, c, s, k, a)))
        # ---- file-object windows
        if fmt != "pdb":
            for N in files:
                for k in range(0, N):
                    for s in STRIDES:
                        for n in range(1, N + 1):
                            cases.append((len(feats(stride=s, skip=k)), (N, s, k, n, 0), ("window", N, k, n, s, False)))
                            if k == 0:
                                cases.append((len(feats(stride=s, skip=k)), (N, s, k, n, 1), ("window", N, k, n, s, True)))
        for _, _, case in _sorted_cases(cases):
            if only and not _match(only, case, fmt):
                continue
            kind, N = case[0], case[1]
            path, top, full = files[N]
            note(list(case))
            for _ in range(repeat):
                if kind == "load":
                    case_load(rec, path, fmt, top, full, N, seed, case[2], case[3])
                elif kind == "frame":
                    case_frame(rec, path, fmt, top, full, N, seed, case[2], case[3], case[4])
                elif kind == "iterload":
                    case_iterload(rec, path, fmt, top, full, N, seed, case[2], case[3], case[4], case[5])
                else:
                    case_window(rec, path, fmt, N, seed, case[2], case[3], case[4], case[5])
        # ---- lists of files
        if not only or only.get("check") == "list":
            try:
                lst = [write_file(d, fmt, N, seed + 7 * j, tag="L%d_" % j) for j, N in enumerate((2, 3, 4))]
                paths = [p for p, _ in lst]
                top = lst[0][1]
                fulls = [Full(p, fmt, fresh_top()) for p in paths]
            except Exception as e:
                fulls = None
            if fulls and all(fl.N == n for fl, n in zip(fulls, (2, 3, 4))):
                lcases = []
                for r in (1, 2, 3):
                    for sel in itertools.permutations(range(3), r):
                        for s in (1, 2, 3):
                            for a in (None, [1, 3], [0, 2, 4]):
                                lcases.append((len(feats(stride=s, atoms=a)) + (r > 1), (r, sel, s, len(a or ())), (sel, s, a)))
                for _, _, (sel, s, a) in _sorted_cases(lcases):
                    if only and (list(sel) != only["files"] or s != only["stride"] or a != only["atoms"]):
                        continue
                    note(["list", list(sel), s, a])
                    for _ in range(repeat):
                        case_list(rec, paths, fulls, fmt, top, seed, sel, s, a)
    rec.nontrivial = {k: len(v) for k, v in rec.nontrivial.items()}
    return fmt, rec


def _match(only, case, fmt):
    kind = case[0]
    if only.get("check") != kind:
        return False
    if kind == "load":
        return (only["N"], only["stride"], only["atoms"]) == (case[1], case[2], case[3])
    if kind == "frame":
        return (only["N"], only["frame"], only["atoms"], only["via"]) == (case[1], case[2], case[3], case[4])
    if kind == "iterload":
        return (only["N"], only["chunk"], only["stride"], only["skip"], only["atoms"]) == case[1:6]
    if kind == "window":
        return (only["N"], only["skip"], only["n"], only["stride"], bool(only.get("seek0"))) == tuple(case[1:6])
    return False


class _Given:
    """a scratch directory owned (and removed) by the parent process"""

    def __init__(self, d):
        self.d = d

    def __enter__(self):
        os.makedirs(self.d, exist_ok=True)
        return self.d

    def __exit__(self, *a):
        pass


_BOOT = "import sys, json, pickle; a = json.load(sys.stdin); from bcc import c02; r = c02.worker(tuple(a['job'])); pickle.dump(r, open(a['out'], 'wb'))"
_MALLOC_DEBUG = "/lib/x86_64-linux-gnu/libc_malloc_debug.so.0"
WORKER_TIMEOUT = {"quick": 50, "thorough": 300}  # seconds per format worker (a healthy worker needs < 10 s / < 120 s)


def _case_record(fmt, seed, case):
    """(check, feats, input) of the case a worker was evaluating when its process died"""
    kind = case[0]
    if kind == "load":
        _, N, s, a = case
        return "load", feats(stride=s, atoms=a), {"check": "load", "fmt": fmt, "N": N, "seed": seed, "stride": s, "atoms": a}, "load"
    if kind == "frame":
        _, N, i, a, via = case
        return "frame", feats(atoms=a), {"check": "frame", "fmt": fmt, "N": N, "seed": seed, "frame": i, "atoms": a, "via": via}, "load_frame"
    if kind == "iterload":
        _, N, c, s, k, a = case
        return "iterload", feats(stride=s, skip=k, atoms=a, chunk=c, N=N), {"check": "iterload", "fmt": fmt, "N": N, "seed": seed, "chunk": c, "stride": s, "skip": k, "atoms": a}, "iterload"
    if kind == "window":
        _, N, k, n, s, s0 = case
        return "window", feats(stride=s, skip=k), {"check": "window", "fmt": fmt, "N": N, "seed": seed, "skip": k, "n": n, "stride": s, "seek0": s0}, "file.read"
    _, sel, s, a = case
    return "list", feats(stride=s, atoms=a, extra=("files>1",) if len(sel) > 1 else ()), {"check": "list", "fmt": fmt, "seed": seed, "files": list(sel), "stride": s, "atoms": a}, "load-list"


def isolated(job, scratch):
    """run one format's worker in its own interpreter (glibc heap checking on, when available): a reader that corrupts the heap or
    segfaults must not take the whole check down, and is reported as a `crash` of the case it was evaluating.  The worker is restarted
    with that feature set marked as failing (supersets skipped), at most 6 times."""
    fmt, Ns, seed, tier, only = job
    pre_failed, crashes = {}, []
    env = dict(os.environ)
    env["PYTHONPATH"] = os.pathsep.join([p for p in sys.path if p])
    if os.path.exists(_MALLOC_DEBUG):
        env["LD_PRELOAD"] = _MALLOC_DEBUG
        env["MALLOC_CHECK_"] = "3"
    for attempt in range(7):
        out = os.path.join(scratch, f"res-{fmt}-{attempt}.pkl")
        prog = os.path.join(scratch, f"progress-{fmt}.json")
        if os.path.exists(prog):
            os.remove(prog)
        arg = {"job": [fmt, Ns, seed, tier, only, pre_failed, prog, os.path.join(scratch, f"files-{fmt}-{attempt}")], "out": out}
        try:
            p = subprocess.run([sys.executable, "-c", _BOOT], input=json.dumps(arg), env=env, capture_output=True, text=True,
                               cwd=os.path.dirname(os.path.dirname(os.path.abspath(__file__))), timeout=WORKER_TIMEOUT[tier])
        except subprocess.TimeoutExpired as te:
            p = subprocess.CompletedProcess(te.cmd, -999, "", f"timeout after {WORKER_TIMEOUT[tier]} s")
        if p.returncode == 0 and os.path.exists(out):
            with open(out, "rb") as fh:
                fmt_, rec = pickle.load(fh)
            rec.fails = crashes + rec.fails
            return fmt, rec
        st = None
        if os.path.exists(prog):
            try:
                with open(prog) as fh:
                    st = json.load(fh)
            except ValueError:
                st = None
        cands = [c for c in ((st or {}).get("cur"), (st or {}).get("prev")) if c]
        if not cands or attempt == 6:
            rec = Recorder()
            rec.fails = crashes
            rec.fail("load", "worker-died", "worker", (), fmt, f"the {fmt} worker exited with code {p.returncode} outside any case: {p.stderr[-400:]}",
                     {"check": "fixture", "fmt": fmt, "seed": seed})
            return fmt, rec
        case, confirmed = cands[0], False
        if p.returncode != -999:
            # which of the two cases kills an interpreter on its own (repeated, so that freed buffers really go back to malloc)?
            for c in cands:
                inp1 = dict(_case_record(fmt, seed, c)[2], _repeat=30)
                a1 = {"job": [fmt, [inp1["N"]] if "N" in inp1 else Ns, seed, tier, inp1, {}, None, os.path.join(scratch, f"confirm-{fmt}-{attempt}")],
                      "out": os.path.join(scratch, f"confirm-{fmt}-{attempt}.pkl")}
                try:
                    q = subprocess.run([sys.executable, "-c", _BOOT], input=json.dumps(a1), env=env, capture_output=True, text=True,
                                       cwd=os.path.dirname(os.path.dirname(os.path.abspath(__file__))), timeout=60)
                    died = q.returncode != 0
                except subprocess.TimeoutExpired:
                    died = False
                if died:
                    case, confirmed = c, True
                    break
        check, f, inp, prefix = _case_record(fmt, seed, case)
        # a dying interpreter is a property of the reader, not of load/iterload/list: the class keeps the reader-level features only, and
        # every case of every check of this format that contains them is skipped from now on
        rf = [x for x in f if x in ("stride>1", "atom_indices")]
        if rf:
            pre_failed.setdefault("*", []).append(rf)
            f, prefix = tuple(rf), "read"
        else:
            pre_failed.setdefault(check, []).append(list(f))
        msg = [ln for ln in p.stderr.splitlines() if ln.strip() and "WARNING" not in ln][-1:] or [""]
        if p.returncode == -999:
            crashes.append(dict(check=check, clause="hang", prefix=prefix, feats=tuple(f), fmt=fmt, tail="timeout",
                                what=f"the {fmt} worker was still running after {WORKER_TIMEOUT[tier]} s, evaluating {inp}", input=inp,
                                observed="timeout", expected="a result"))
        else:
            crashes.append(dict(check=check, clause="crash", prefix=prefix, feats=tuple(f), fmt=fmt, tail="process-killed",
                                what=f"the interpreter died (exit code {p.returncode}; glibc heap check: {msg[0][:120]!r}) while evaluating {inp}"
                                     f"{' (confirmed: this case alone, repeated 30 times in a fresh interpreter, dies too)' if confirmed else ' (not confirmed in isolation)'}", input=inp,
                                observed=f"exit code {p.returncode}", expected="a result"))
    return fmt, Recorder()


CHECKS = {
    "load": ("load-stride-atoms-frame", "md.load(f, stride=, atom_indices=, frame=), md.load_frame(f, i, atom_indices=)"),
    "frame": None,  # merged into "load"
    "iterload": ("iterload-chunks", "md.iterload(f, chunk=, stride=, skip=, atom_indices=)"),
    "list": ("load-list-of-files", "md.load([f1..fk], stride=, atom_indices=)"),
    "window": ("file-object-strided-read-window", "<Format>TrajectoryFile.seek/read(n_frames, stride)/tell -- the loop iterload is built on"),
}


def run(tier, seed, hint, only=None, formats=None):
    Ns = [5] if tier == "quick" else [1, 2, 3, 4, 5, 6, 7]
    fmts = formats or FORMATS
    if only:
        Ns = [only["N"]] if "N" in only else Ns[:1]
        seed = only.get("seed", seed)  # all formats are re-run on the recorded parameters so that `all-formats` keys can form again
    nb = f"formats={fmts}; N in {Ns} frames x {N_ATOMS} atoms; "
    checks = {
        "load": Check(*CHECKS["load"], bound=nb + f"stride in {STRIDES} x atom_indices in {ATOM_SUBSETS}; frame in [0,N) x atom_indices in (None,[1,3]) via load_frame and load(frame=)",
                      rule="exhaustive; exact comparison with NumPy slicing of the full load of the same file; non-trivial = stride>1 or atom subset or frame>0",
                      stands_in_for="per-format read(n_frames, stride, atom_indices) and loader obligations resting on assumed third-party slicing / C readers", exhaustive=True),
        "iterload": Check(*CHECKS["iterload"], bound=nb + f"chunk in 0..N+1 x stride in {STRIDES} x skip in 0..N x atom_indices in {ATOM_SUBSETS}",
                          rule="exhaustive; chunk sizes and exact equality of the concatenation with full[skip::stride]; "
                               "non-trivial = chunk not a multiple of stride, chunk=1, chunk>N or skip>0",
                          stands_in_for="iterload loop invariant over C-backed and text readers", exhaustive=True),
        "list": Check(*CHECKS["list"], bound=f"formats={fmts}; three files of 2,3,4 frames; all ordered selections of 1..3 distinct files x stride in (1,2,3) x atom_indices in (None,[1,3],[0,2,4])",
                      rule="exhaustive; exact comparison with the concatenation of the individual strided/atom-sliced full loads; non-trivial = more than one file",
                      stands_in_for="load(list) = fold of join over the individual loads (monkey-patched subset)", exhaustive=True),
        "window": Check(*CHECKS["window"], bound=nb + f"(pdb has no cursor API) seek(k) 0<=k<N; read(n, stride=s) 1<=n<=N, s in {STRIDES}; then tell() and read(1)",
                        rule="exhaustive; frames identified by content; the next read must continue at k+n*s and tell() must name the frame the next read returns; "
                             "classes that do not offer seek (NotImplementedError) are skipped; non-trivial = stride>1",
                        stands_in_for="C02 obligation `read leaves pos' = min(N, pos + n*stride)` for the C-backed readers (XTC/TRR/DCD/DTR: .pyx not re-translatable offline)",
                        exhaustive=True),
    }
    jobs = [(fmt, Ns, seed, tier, only) for fmt in fmts]
    results = {}
    with Scratch("c02-run") as scratch:
        with ThreadPoolExecutor(max_workers=min(len(jobs), 11)) as ex:
            for fmt, rec in ex.map(lambda j: isolated(j, scratch), jobs):
                results[fmt] = rec
    # merge; collapse (clause, feature set) failing in every format
    allfails = []
    for fmt in fmts:
        fl = results[fmt].fails
        for f in fl:
            same = [g for g in fl if (g["check"], g["clause"], g["tail"]) == (f["check"], f["clause"], f["tail"])]
            if any(set(g["feats"]) < set(f["feats"]) for g in same):
                continue  # a case with fewer non-default features already violates the same clause: report the minimal ones
            allfails.append(f)
    by = {}
    for f in allfails:
        by.setdefault((f["check"], f["clause"], f["prefix"], f["feats"], f["tail"]), set()).add(f["fmt"])
    for fmt in fmts:
        rec = results[fmt]
        for key in ("load", "frame", "iterload", "list", "window"):
            chk = checks["load" if key == "frame" else key]
            n_ok = rec.evals.get(key, 0) - sum(1 for f in allfails if f["check"] == key and f["fmt"] == fmt)
            chk.evaluations += n_ok
            for i in range(rec.nontrivial.get(key, 0)):
                chk._distinct.add((fmt, key, i))
            for smp in rec.samples.get(key, []):
                if len(chk.samples) < 3:
                    chk.samples.append(smp)
    for f in allfails:
        chk = checks["load" if f["check"] == "frame" else f["check"]]
        fs = by[(f["check"], f["clause"], f["prefix"], f["feats"], f["tail"])]
        if fs == set(FORMATS):
            where = "all-formats"
        elif fs == set(FORMATS) - HAS_TOP:
            where = "all-formats-needing-top"
        else:
            where = f["fmt"]
        wc = ":".join([f["prefix"]] + list(f["feats"]) + [where] + ([f["tail"]] if f["tail"] else []))
        chk.fail(f["clause"], wc, f["what"], f["input"], observed=f["observed"], expected=f["expected"])
    return [checks["load"], checks["iterload"], checks["list"], checks["window"]]


def replay(payload):
    inp = payload.get("input") or payload.get("failing_input")
    if inp.get("check") == "fixture":
        return {"reproduced": False, "note": "fixture failures are not replayable contracts"}
    checks = run("quick", inp.get("seed", 0), None, only=dict(inp, _repeat=30 if payload.get("crash") or inp.get("_repeat") else 1))
    fails = [f for c in checks for f in c.failures if f["input"].get("fmt") == inp.get("fmt") or ":all-formats" in f["key"]]
    return {"reproduced": bool(fails), "failures": fails}
