"""C07 bounded contract check: angles / dihedrals against their geometric definitions, and the atom
quartets of the named protein torsions against the documented (IUPAC-IUB) definitions.

Oracle: specs/lattice.py (acos of the normalised dot product; IUPAC atan2 torsion; both on brute-force
minimum-image bond vectors) and the residue tables below (written from the IUPAC-IUB 1970 / PDB
nomenclature: phi = C(i-1)-N-CA-C, psi = N-CA-C-N(i+1), omega = CA-C-N(i+1)-CA(i+1), chi1..chi5 per
residue type).

Tolerances (float32, derived in specs.lattice.angle_tol / dihedral_tol): a bond vector computed in
float32 from coordinates of magnitude X carries an absolute error dx = 4 ulp32(X); the direction of a
bond of length b is therefore uncertain by ~2 dx/b; an angle inherits that plus the conditioning of acos
(<= 4e-7/sin(theta), capped at 1e-3 at 0/pi); a dihedral inherits (direction errors)/sin(bond angle).
Rows whose tolerance exceeds 0.05 rad (torsion about a bond with a collinear neighbour: undefined) are
only checked for finiteness and range.
"""
import numpy as np

import mdtraj as md
from mdtraj.core import element as elem
from bcc.api import Check
from bcc.c05 import C05_FAMILIES, Snapshot, cell_class, family_cells
from specs import lattice as L

FAMILIES = L.FAMILIES  # all C05 cell families (the slightly-triclinic dispatch finding is reported by C05)
PLACEMENTS = ["inside", "split-across-faces", "scattered-over-images"]
PI = np.pi


# ------------------------------------------------------------------------------------------------
# small molecules with prescribed internal coordinates
# ------------------------------------------------------------------------------------------------

def nerf(a, b, c, bond, angle, torsion):
    """position d with |cd| = bond, angle(b,c,d) = angle, dihedral(a,b,c,d) = torsion (IUPAC sign)"""
    bc = c - b
    bc /= np.linalg.norm(bc)
    n = np.cross(b - a, bc)
    nn = np.linalg.norm(n)
    if nn < 1e-12:  # a,b,c collinear: any perpendicular
        n = np.cross(bc, [1.0, 0, 0]) if abs(bc[0]) < 0.9 else np.cross(bc, [0, 1.0, 0])
        nn = np.linalg.norm(n)
    n /= nn
    m = np.cross(n, bc)
    d2 = np.array([-bond * np.cos(angle), bond * np.sin(angle) * np.cos(torsion), bond * np.sin(angle) * np.sin(torsion)])
    return c + d2[0] * bc + d2[1] * m + d2[2] * n


ANGLE_KINDS = ["generic", "generic", "right", "near-collinear", "near-collinear-0", "collinear"]
TORSION_KINDS = ["generic", "generic", "near-planar-cis", "near-planar-trans", "planar-cis", "planar-trans", "perpendicular"]


def _angle_value(kind, rng):
    if kind == "generic":
        return float(rng.uniform(np.radians(25), np.radians(155)))
    if kind == "right":
        return PI / 2
    if kind == "near-collinear":
        return PI - float(10 ** rng.uniform(-6, -2))
    if kind == "near-collinear-0":
        return float(10 ** rng.uniform(-6, -2))
    return PI  # exactly collinear


def _torsion_value(kind, rng):
    if kind == "generic":
        return float(rng.uniform(-PI, PI))
    e = float(10 ** rng.uniform(-6, -3)) * rng.choice([-1, 1])
    return {"near-planar-cis": e, "near-planar-trans": PI + e, "planar-cis": 0.0, "planar-trans": PI,
            "perpendicular": PI / 2 * rng.choice([-1, 1])}[kind]


def molecule(rng, n, blen, akinds, tkinds):
    """n-atom chain; returns (coords, tags per angle triplet, tags per torsion quartet)"""
    x = [np.zeros(3), np.array([blen * rng.uniform(0.6, 1.0), 0, 0])]
    atags, ttags = [], []
    for k in range(2, n):
        ak = akinds[(k - 2) % len(akinds)]
        tk = tkinds[(k - 3) % len(tkinds)] if k >= 3 else "generic"
        a = x[k - 3] if k >= 3 else x[0] + np.array([0.3, 0.7, 0.2])
        x.append(nerf(a, x[k - 2], x[k - 1], blen * rng.uniform(0.6, 1.0), _angle_value(ak, rng), _torsion_value(tk, rng)))
        atags.append(ak)
        if k >= 3:
            ttags.append(tk)
    return np.array(x), atags, ttags


def chain_topology(sizes):
    top = md.Topology()
    ch = top.add_chain()
    for s in sizes:
        res = top.add_residue("MOL", ch)
        prev = None
        for i in range(s):
            a = top.add_atom(f"C{i}", elem.carbon, res)
            if prev is not None:
                top.add_bond(prev, a)
            prev = a
    return top


def build_case(case):
    """trajectory of a few small chain molecules placed in a cell of the family (or without a cell)"""
    family, placement, seed = case["family"], case["placement"], case["seed"]
    n_frames, n_mol, n_at = case["n_frames"], case["n_mol"], case["n_at"]
    rng = np.random.default_rng([int(seed), (C05_FAMILIES + ["none"]).index(family), PLACEMENTS.index(placement), n_frames, n_mol, n_at])
    sizes = [n_at] * n_mol
    top = chain_topology(sizes)
    N = sum(sizes)
    if family == "none":
        box = None
        t = md.Trajectory(np.zeros((n_frames, N, 3), dtype=np.float32), top)
        wmin = 2.0
    else:
        lengths, angles = family_cells(family, rng, n_frames)
        t = md.Trajectory(np.zeros((n_frames, N, 3), dtype=np.float32), top, unitcell_lengths=lengths, unitcell_angles=angles)
        box = np.asarray(t.unitcell_vectors, dtype=np.float64)
        wmin = min(L.min_width(b) for b in box)
    blen = min(0.16, 0.2 * wmin)  # every bond < 0.4 * (half the smallest width)
    xyz = np.empty((n_frames, N, 3))
    atags, ttags = [], []
    for f in range(n_frames):
        o = 0
        at_f, tt_f = [], []
        for m in range(n_mol):
            ak = [ANGLE_KINDS[(m + k + f) % len(ANGLE_KINDS)] for k in range(n_at)] if m % 2 else ["generic"] * n_at
            tk = [TORSION_KINDS[(m + k + 2 * f) % len(TORSION_KINDS)] for k in range(n_at)]
            x, a_, t_ = molecule(rng, n_at, blen, ak, tk)
            x = (x - x.mean(0)) @ L.random_rotation(rng).T
            if box is None:
                x = x + rng.uniform(-3, 3, size=3)
            else:
                if placement == "inside":
                    c = rng.uniform(0.35, 0.65, size=3) @ box[f]
                    x = x + c
                elif placement == "split-across-faces":
                    fc = rng.uniform(0, 1, size=3)
                    fc[rng.integers(0, 3)] = float(rng.integers(0, 2))  # centre on a face
                    if rng.random() < 0.5:
                        fc[rng.integers(0, 3)] = float(rng.integers(0, 2))  # ... or an edge
                    x = x + fc @ box[f]
                    s = x @ np.linalg.inv(box[f])
                    x = (s - np.floor(s)) @ box[f]  # every atom wrapped into the primary cell
                else:
                    x = x + rng.uniform(0, 1, size=3) @ box[f]
                    x = x + rng.integers(-3, 4, size=(len(x), 3)) @ box[f]  # per-atom lattice shifts
            xyz[f, o:o + n_at] = x
            at_f += a_
            tt_f += t_
            o += n_at
        atags.append(at_f)
        ttags.append(tt_f)
    t.xyz = xyz.astype(np.float32)
    trip, quart = [], []
    o = 0
    for m in range(n_mol):
        trip += [(o + k, o + k + 1, o + k + 2) for k in range(n_at - 2)]
        quart += [(o + k, o + k + 1, o + k + 2, o + k + 3) for k in range(n_at - 3)]
        o += n_at
    return t, np.array(trip), np.array(quart), np.array(atags), np.array(ttags), rng


_REG = set()


def wc_min(base, *suffixes):
    """witness class = base + suffixes, collapsed onto an already reported coarser class (cases are
    enumerated simplest first, so one root cause keeps one key and later, more special inputs that
    contain it do not add keys)"""
    for i in range(len(suffixes) + 1):
        cand = base + "".join(suffixes[:i])
        if cand in _REG:
            return cand
    full = base + "".join(suffixes)
    _REG.add(full)
    return full


def _cc_suffix(cc):
    """cell classes ordered by generality: the no-cell kernel, then periodic=False (same kernel), the
    orthorhombic kernel, the triclinic kernel on reduced, then unreduced cells"""
    return {"no-cell": (":no-cell",), "periodic=False": (":no-cell", ":periodic=False"), "orthorhombic": (":orthorhombic",),
            "triclinic-reduced": (":triclinic",), "triclinic-unreduced": (":triclinic", ":unreduced")}[cc]


def _tag_class(tag):
    if tag in ("generic", "right", "perpendicular"):
        return ""
    if "collinear" in tag:
        return ":near-collinear"
    return ":near-planar"


def eval_geometry_case(chks, case):
    chk_a, chk_d, chk_s = chks["angle"], chks["dihedral"], chks["symmetry"]
    t, trip, quart, atags, ttags, rng = build_case(case)
    family, placement = case["family"], case["placement"]
    n_frames = t.n_frames
    x = t.xyz.astype(np.float64)
    box = None if t.unitcell_vectors is None else np.asarray(t.unitcell_vectors, dtype=np.float64)
    # extra index rows: reversed order, and random triplets/quartets of distinct atoms across molecules
    N = t.n_atoms
    extra3 = np.array([rng.choice(N, size=3, replace=False) for _ in range(6)])
    extra4 = np.array([rng.choice(N, size=4, replace=False) for _ in range(6)])
    trip_all = np.vstack([trip, trip[:, ::-1], extra3, extra3[:, ::-1]])
    quart_all = np.vstack([quart, quart[:, ::-1], extra4, extra4[:, ::-1]])
    nt, nq = len(trip), len(quart)
    mirror = md.Trajectory(-t.xyz, t.topology, unitcell_lengths=t.unitcell_lengths, unitcell_angles=t.unitcell_angles)
    for periodic in ((True, False) if box is not None else (True,)):
        for opt in (True, False):
            path = "opt" if opt else "reference"
            snap = Snapshot(t, trip_all, quart_all)
            A = np.asarray(md.compute_angles(t, trip_all, periodic=periodic, opt=opt), dtype=np.float64)
            D = np.asarray(md.compute_dihedrals(t, quart_all, periodic=periodic, opt=opt), dtype=np.float64)
            Dm = np.asarray(md.compute_dihedrals(mirror, quart_all, periodic=periodic, opt=opt), dtype=np.float64)
            Am = np.asarray(md.compute_angles(mirror, trip_all, periodic=periodic, opt=opt), dtype=np.float64)
            info = dict(case, periodic=periodic, opt=opt, kind="geometry")
            if snap.changed():
                chk_s.fail("inputs-unchanged", f"compute_angles/dihedrals:{path}:{','.join(snap.changed())}", "inputs modified", info)
            if A.shape != (n_frames, len(trip_all)) or D.shape != (n_frames, len(quart_all)):
                chk_a.fail("shape", f"compute_angles/dihedrals:{path}", f"shapes {A.shape} {D.shape}", info)
                continue
            for f in range(n_frames):
                bx = box[f] if (box is not None and periodic) else None
                cc = ("no-cell" if box is None else "periodic=False") if bx is None else cell_class(family, bx)
                pl = "" if (bx is None or placement == "inside") else ":" + placement
                dx = 4 * float(L.ulp32(np.abs(x[f]).max()))
                # ---- angles
                sa, u, v = L.angles(x[f], trip_all, bx)
                tol = L.angle_tol(u, v, dx)
                defined = _defined(u, bx, family) & _defined(v, bx, family)
                tags = list(atags[f]) * 2 + ["generic"] * (2 * len(extra3))
                a = A[f]
                bad_rng = ~np.isfinite(a) | (a < 0) | (a > PI + 1e-6)
                bad_val = defined & (np.abs(a - sa) > tol)
                failed = _report(chk_a, "compute_angles", path, cc, pl, tags, bad_rng, bad_val, trip_all, a, sa, tol, info, f,
                                 "angle outside [0, pi] or not finite", "angle differs from acos(u.v/|u||v|) on minimum-image bond vectors",
                                 nontrivial=(family, placement, periodic, opt))
                # reversal: rows [0,nt) vs [nt,2nt) and the extra rows
                rev = np.abs(np.concatenate([a[:nt] - a[nt:2 * nt], a[2 * nt:2 * nt + 6] - a[2 * nt + 6:]]))
                tol_r = 2 * np.concatenate([tol[:nt], tol[2 * nt:2 * nt + 6]])
                def_r = np.concatenate([defined[:nt], defined[2 * nt:2 * nt + 6]])
                mir = np.abs(Am[f] - a)
                m_ = def_r & (rev > tol_r)
                if failed:
                    pass  # value clause already violated for this kernel: the symmetry clauses add nothing
                elif m_.any():
                    k = int(np.argmax(m_))
                    chk_s.fail("angle-reversal-invariant", wc_min(f"compute_angles:{path}", *_cc_suffix(cc), pl), f"angle(a,b,c) != angle(c,b,a) by {rev[k]:.3g} rad [family={family}]", dict(info, frame=f))
                elif (defined & (mir > 2 * tol)).any():
                    k = int(np.argmax(defined & (mir > 2 * tol)))
                    chk_s.fail("angle-mirror-invariant", wc_min(f"compute_angles:{path}", *_cc_suffix(cc), pl), f"angle changes under inversion of all coordinates by {mir[k]:.3g} rad", dict(info, frame=f))
                else:
                    chk_s.ok(nontrivial=("angle", family, placement, periodic, opt))
                # ---- dihedrals
                sd, b1, b2, b3 = L.dihedrals(x[f], quart_all, bx)
                tol = L.dihedral_tol(b1, b2, b3, dx)
                defined = _defined(b1, bx, family) & _defined(b2, bx, family) & _defined(b3, bx, family) & (tol <= 0.05)
                tags = list(ttags[f]) * 2 + ["generic"] * (2 * len(extra4))
                d = D[f]
                bad_rng = ~np.isfinite(d) | (np.abs(d) > PI + 1e-6)
                bad_val = defined & (L.angdiff(d, sd) > tol)
                failed = _report(chk_d, "compute_dihedrals", path, cc, pl, tags, bad_rng, bad_val, quart_all, d, sd, tol, info, f,
                                 "dihedral outside [-pi, pi] or not finite", "dihedral differs from the IUPAC atan2 torsion on minimum-image bond vectors",
                                 nontrivial=(family, placement, periodic, opt))
                rev = np.concatenate([L.angdiff(d[:nq], d[nq:2 * nq]), L.angdiff(d[2 * nq:2 * nq + 6], d[2 * nq + 6:])])
                tol_r = 2 * np.concatenate([tol[:nq], tol[2 * nq:2 * nq + 6]])
                def_r = np.concatenate([defined[:nq], defined[2 * nq:2 * nq + 6]])
                mir = L.angdiff(Dm[f], -d)
                m_ = def_r & (rev > tol_r)
                if failed:
                    pass
                elif m_.any():
                    k = int(np.argmax(m_))
                    chk_s.fail("dihedral-reversal-invariant", wc_min(f"compute_dihedrals:{path}", *_cc_suffix(cc), pl), f"dihedral(a,b,c,d) != dihedral(d,c,b,a) by {rev[k]:.3g} rad [family={family}]", dict(info, frame=f))
                elif (defined & (mir > 2 * tol)).any():
                    k = int(np.argmax(defined & (mir > 2 * tol)))
                    chk_s.fail("dihedral-mirror-negates", wc_min(f"compute_dihedrals:{path}", *_cc_suffix(cc), pl), f"dihedral of the inverted structure is not the negative (off by {mir[k]:.3g} rad) [family={family}]", dict(info, frame=f))
                else:
                    chk_s.ok(nontrivial=("dihedral", family, placement, periodic, opt))


def _defined(vecs, bx, family):
    """bond vectors for which the minimum image is defined and unique: no cell -> always; orthorhombic ->
    every separation not within 1e-5 of a tie; skewed -> shorter than half the smallest width"""
    n = np.sqrt((vecs ** 2).sum(-1))
    if bx is None:
        return n > 0
    tol = L.dist_tol(bx)
    _, d1, d2 = L.min_image(vecs, bx, want_second=True)
    ok = (d2 - d1 > 1e-5 + 2 * tol) & (n > 0)
    if family in ("cubic", "ortho"):
        return ok
    return ok & (n < 0.5 * L.min_width(bx) - tol)


def _report(chk, func, path, cc, pl, tags, bad_rng, bad_val, rows, obs, exp, tol, info, f, msg_rng, msg_val, nontrivial):
    """returns True when this (function, path, cell class) failed (the symmetry clauses are then implied)"""
    if bad_rng.any():
        k = int(np.argmax(bad_rng))
        chk.fail("range", wc_min(f"{func}:{path}", *_cc_suffix(cc), _tag_class(tags[k])), f"{msg_rng}: {obs[k]!r} for atoms {rows[k].tolist()} [family={info['family']} {info['placement']}]",
                 dict(info, frame=f, row=rows[k].tolist()), observed=obs[k], expected=exp[k])
        return True
    if bad_val.any():
        # prefer a generic-geometry witness
        order = sorted(np.nonzero(bad_val)[0], key=lambda i: (_tag_class(tags[i]) != "", i))
        k = int(order[0])
        chk.fail("equals-definition", wc_min(f"{func}:{path}", *_cc_suffix(cc), pl, _tag_class(tags[k])),
                 f"{msg_val}: got {obs[k]:.7f}, definition {exp[k]:.7f}, tol {tol[k]:.2e} for atoms {rows[k].tolist()} [family={info['family']} {info['placement']} frame={f}]",
                 dict(info, frame=f, row=rows[k].tolist()), observed=obs[k], expected=exp[k])
        return True
    chk.ok(nontrivial=nontrivial, sample={"family": info["family"], "placement": info["placement"], "rows": len(rows), "max_tol": float(np.max(tol))})
    return False


# ------------------------------------------------------------------------------------------------
# named torsions
# ------------------------------------------------------------------------------------------------

RES_ATOMS = {
    "ALA": "N CA C O CB", "ARG": "N CA C O CB CG CD NE CZ NH1 NH2", "ASN": "N CA C O CB CG OD1 ND2",
    "ASP": "N CA C O CB CG OD1 OD2", "CYS": "N CA C O CB SG", "GLN": "N CA C O CB CG CD OE1 NE2",
    "GLU": "N CA C O CB CG CD OE1 OE2", "GLY": "N CA C O", "HIS": "N CA C O CB CG ND1 CD2 CE1 NE2",
    "ILE": "N CA C O CB CG1 CG2 CD1", "LEU": "N CA C O CB CG CD1 CD2", "LYS": "N CA C O CB CG CD CE NZ",
    "MET": "N CA C O CB CG SD CE", "PHE": "N CA C O CB CG CD1 CD2 CE1 CE2 CZ", "PRO": "N CA C O CB CG CD",
    "SER": "N CA C O CB OG", "THR": "N CA C O CB OG1 CG2", "TRP": "N CA C O CB CG CD1 CD2 NE1 CE2 CE3 CZ2 CZ3 CH2",
    "TYR": "N CA C O CB CG CD1 CD2 CE1 CE2 CZ OH", "VAL": "N CA C O CB CG1 CG2",
    # caps / non-protein residues that may sit in or next to a chain
    "ACE": "CH3 C O", "NME": "N CH3", "HOH": "O H1 H2", "NA": "NA",
}
# IUPAC-IUB side-chain torsions (residue -> atoms), e.g. Lovell et al. 2000 table 1
CHI = {
    1: {"ARG": "N CA CB CG", "ASN": "N CA CB CG", "ASP": "N CA CB CG", "CYS": "N CA CB SG", "GLN": "N CA CB CG", "GLU": "N CA CB CG",
        "HIS": "N CA CB CG", "ILE": "N CA CB CG1", "LEU": "N CA CB CG", "LYS": "N CA CB CG", "MET": "N CA CB CG", "PHE": "N CA CB CG",
        "PRO": "N CA CB CG", "SER": "N CA CB OG", "THR": "N CA CB OG1", "TRP": "N CA CB CG", "TYR": "N CA CB CG", "VAL": "N CA CB CG1"},
    2: {"ARG": "CA CB CG CD", "ASN": "CA CB CG OD1", "ASP": "CA CB CG OD1", "GLN": "CA CB CG CD", "GLU": "CA CB CG CD", "HIS": "CA CB CG ND1",
        "ILE": "CA CB CG1 CD1", "LEU": "CA CB CG CD1", "LYS": "CA CB CG CD", "MET": "CA CB CG SD", "PHE": "CA CB CG CD1", "PRO": "CA CB CG CD",
        "TRP": "CA CB CG CD1", "TYR": "CA CB CG CD1"},
    3: {"ARG": "CB CG CD NE", "GLN": "CB CG CD OE1", "GLU": "CB CG CD OE1", "LYS": "CB CG CD CE", "MET": "CB CG SD CE"},
    4: {"ARG": "CG CD NE CZ", "LYS": "CG CD CE NZ"},
    5: {"ARG": "CD NE CZ NH1"},
}
BACKBONE = {"phi": [(-1, "C"), (0, "N"), (0, "CA"), (0, "C")], "psi": [(0, "N"), (0, "CA"), (0, "C"), (1, "N")],
            "omega": [(0, "CA"), (0, "C"), (1, "N"), (1, "CA")]}
PROTEIN = [r for r in RES_ATOMS if r not in ("ACE", "NME", "HOH", "NA")]
_EL = {"C": elem.carbon, "N": elem.nitrogen, "O": elem.oxygen, "S": elem.sulfur, "H": elem.hydrogen}


def peptide_topology(spec):
    """spec: list of chains; chain = list of (resname, resSeq, [atom names])"""
    top = md.Topology()
    for chain in spec:
        ch = top.add_chain()
        for name, resseq, atoms in chain:
            res = top.add_residue(name, ch, resSeq=resseq)
            for a in atoms:
                top.add_atom(a, elem.sodium if name == "NA" else _EL[a[0]], res)
    return top


def random_peptide_spec(rng, variant):
    """variants: plain | multi-chain | missing-atoms | caps-and-water | gaps-and-order | single-residues"""
    n_chains = {"plain": 1, "single-residues": 3}.get(variant, int(rng.integers(2, 4)))
    spec = []
    for c in range(n_chains):
        n_res = 1 if variant == "single-residues" else int(rng.integers(2, 7))
        chain = []
        seq0 = int(rng.integers(1, 50))
        for i in range(n_res):
            name = str(rng.choice(PROTEIN))
            atoms = RES_ATOMS[name].split()
            if i == n_res - 1 and rng.random() < 0.5:
                atoms = atoms + ["OXT"]
            if rng.random() < 0.5:
                atoms = atoms + ["H", "HA"]
            if variant == "missing-atoms" and rng.random() < 0.6:
                drop = set(rng.choice(atoms, size=min(len(atoms) - 1, int(rng.integers(1, 3))), replace=False).tolist())
                atoms = [a for a in atoms if a not in drop]
            if variant == "gaps-and-order":
                atoms = list(rng.permutation(atoms))
                if rng.random() < 0.3:
                    seq0 += int(rng.integers(2, 10))  # numbering gap inside the chain
            chain.append((name, seq0 + i, atoms))
        if variant == "caps-and-water":
            if rng.random() < 0.7:
                chain = [("ACE", seq0 - 1, RES_ATOMS["ACE"].split())] + chain
            if rng.random() < 0.7:
                chain = chain + [("NME", seq0 + n_res, RES_ATOMS["NME"].split())]
            if rng.random() < 0.5:
                chain = chain + [("HOH", 900 + c, RES_ATOMS["HOH"].split()), ("NA", 950 + c, ["NA"])]
        spec.append(chain)
    if variant == "caps-and-water":
        spec.append([("HOH", 1000 + k, RES_ATOMS["HOH"].split()) for k in range(2)])
    return spec


def expected_quartets(spec, which):
    """documented atom quartets, one row per residue that has all of them (neighbouring residues taken
    from the SAME chain), in residue order; atom indices count atoms in topology order"""
    rows = []
    index = {}
    k = 0
    for ci, chain in enumerate(spec):
        for ri, (_, _, atoms) in enumerate(chain):
            for a in atoms:
                index[(ci, ri, a)] = k
                k += 1
    for ci, chain in enumerate(spec):
        for ri, (name, _, atoms) in enumerate(chain):
            if which in BACKBONE:
                pattern = BACKBONE[which]
            else:
                tbl = CHI[int(which[3])]
                if name not in tbl:
                    continue
                pattern = [(0, a) for a in tbl[name].split()]
            row = []
            for off, a in pattern:
                rj = ri + off
                if not (0 <= rj < len(chain)) or (ci, rj, a) not in index:
                    row = None
                    break
                row.append(index[(ci, rj, a)])
            if row:
                rows.append(row)
    return rows


NAMED = ["phi", "psi", "omega", "chi1", "chi2", "chi3", "chi4", "chi5"]
VARIANTS = ["plain", "multi-chain", "missing-atoms", "caps-and-water", "gaps-and-order", "single-residues"]


def eval_named_case(chks, case):
    chk_i, chk_v = chks["named-indices"], chks["named-values"]
    variant, seed = case["variant"], case["seed"]
    rng = np.random.default_rng([int(seed), VARIANTS.index(variant), 77])
    spec = random_peptide_spec(rng, variant)
    top = peptide_topology(spec)
    n = top.n_atoms
    fam = str(rng.choice(["none", "ortho", "triclinic"]))
    xyz = rng.uniform(0, 2.0, size=(2, n, 3)).astype(np.float32)
    if fam == "none":
        t = md.Trajectory(xyz, top)
    else:
        lengths, angles = family_cells(fam, rng, 2)
        t = md.Trajectory(xyz, top, unitcell_lengths=lengths, unitcell_angles=angles)
    for which in NAMED:
        exp = expected_quartets(spec, which)
        got = getattr(md.geometry.dihedral, "indices_" + which)(top)
        got_l = np.asarray(got).tolist()
        info = dict(case, which=which, kind="named")
        names = [[str(top.atom(i)) for i in r] for r in got_l[:4]]
        if np.asarray(got).ndim != 2 or (len(got_l) and np.asarray(got).shape[1] != 4) or (not len(got_l) and np.asarray(got).shape != (0, 4)):
            chk_i.fail("shape", f"indices_{which}:{variant}", f"indices_{which} returned array of shape {np.asarray(got).shape}", info)
            continue
        if got_l != exp:
            extra = [r for r in got_l if r not in exp]
            missing = [r for r in exp if r not in got_l]
            reason = "rows-not-in-residue-order" if not extra and not missing else ("unexpected-quartet" if extra else "missing-quartet")
            show = (extra or missing or got_l)[:2]
            chk_i.fail("documented-atoms", wc_min(f"indices_{which}:{reason}", "" if variant == "plain" else ":" + variant),
                       f"indices_{which}: {reason}: {[[str(top.atom(i)) for i in r] for r in show]} (chains: {[[r[0] + str(r[1]) for r in c] for c in spec]})",
                       info, observed=got_l[:8], expected=exp[:8])
        else:
            chk_i.ok(nontrivial=(which, variant, len(exp) > 0), sample={"which": which, "variant": variant, "rows": names})
        # values: compute_<which> == definition over the returned quartets
        for periodic in (True, False):
            for opt in (True, False):
                idx, val = getattr(md, "compute_" + which)(t, periodic=periodic, opt=opt)
                val = np.asarray(val, dtype=np.float64)
                if np.asarray(idx).tolist() != got_l or val.shape != (2, len(got_l)):
                    chk_v.fail("indices-consistent", f"compute_{which}:{variant}", f"compute_{which} indices/shape differ from indices_{which}: {np.asarray(idx).shape} {val.shape}", dict(info, periodic=periodic, opt=opt))
                    continue
                if not len(got_l):
                    chk_v.ok()
                    continue
                ref = np.asarray(md.compute_dihedrals(t, np.asarray(got_l), periodic=periodic, opt=opt), dtype=np.float64)
                if (L.angdiff(val, ref) > 1e-6).any():
                    chk_v.fail("equals-compute_dihedrals", wc_min(f"compute_{which}", "" if opt else ":reference", ":periodic" if (periodic and fam != "none") else ""),
                               f"compute_{which} differs from compute_dihedrals over indices_{which}", dict(info, periodic=periodic, opt=opt),
                               observed=val.ravel()[:4], expected=ref.ravel()[:4])
                else:
                    chk_v.ok(nontrivial=(which, fam, periodic, opt))


# ------------------------------------------------------------------------------------------------

def _checks(sz):
    fam = ", ".join(FAMILIES + ["none"])
    common = (f"cells [{fam}] x placements {PLACEMENTS} x {sz['seeds']} seed(s) x periodic in (True,False) x opt in (True,False); {sz['n_mol']} chain molecules of "
              f"{sz['n_at']} atoms (bond < 0.2*smallest cell width), {sz['n_frames']} frames; bond angles from [generic 25-155 deg, 90, pi-1e-6..1e-2, 1e-6..1e-2, exactly pi]; "
              f"torsions from [generic, +-1e-6..1e-3 about 0 and pi, exactly 0, exactly pi, +-90]; index rows: consecutive atoms, the same reversed, 6 random distinct triplets/quartets and their reverses")
    sf = "angle / angle_mic / angle_mic_triclinic / dihedral* kernels (SSE, float32) and the numpy reference path"
    return {
        "angle": Check("angles-vs-definition", "md.compute_angles", common,
                       "oracle acos(u.v/|u||v|) on brute-force minimum-image bond vectors; rows whose bonds are beyond half the smallest width (skewed cells) or within 1e-5 of an image tie are skipped; "
                       "tolerance specs.lattice.angle_tol with dx = 4 ulp32(max|x|)", stands_in_for=sf),
        "dihedral": Check("dihedrals-vs-definition", "md.compute_dihedrals", common,
                          "oracle IUPAC atan2 torsion on brute-force minimum-image bond vectors, compared modulo 2 pi; tolerance specs.lattice.dihedral_tol; rows with tolerance > 0.05 rad "
                          "(torsion about a bond with a collinear neighbour) only checked for finiteness and range", stands_in_for=sf),
        "symmetry": Check("reversal-mirror-range", "md.compute_angles, md.compute_dihedrals", common,
                          "value(row) vs value(reversed row) within 2 tol; inversion x -> -x of all coordinates (a mirror image that maps every lattice onto itself): angles unchanged, dihedrals negated (mod 2 pi)",
                          stands_in_for=sf),
        "named-indices": Check("named-torsion-atoms", "md.geometry.dihedral.indices_phi/psi/omega/chi1..chi5",
                               f"peptide topologies: variants {VARIANTS} x {sz['named_seeds']} seeds; 1-3 chains of 1-6 random standard residues (20 types, PDB atom names), optional OXT/H/HA, "
                               "randomly deleted atoms, ACE/NME caps, water/ion residues in and after chains, shuffled atom order, numbering gaps",
                               "returned index array == list of documented quartets (IUPAC-IUB tables in this module), neighbours from the same chain, one row per residue having all atoms, in residue order"),
        "named-values": Check("named-torsion-values", "md.compute_phi/psi/omega/chi1..chi5", "same topologies, random coordinates, no cell / orthorhombic / triclinic, periodic x opt",
                              "indices equal indices_*; values equal md.compute_dihedrals over those quartets (the statement: 'the named torsions ARE these dihedrals over the documented atoms'; compute_dihedrals itself is pinned to the spec above)"),
    }


def _cases(tier, seed):
    if tier == "quick":
        sz = dict(n_frames=2, n_mol=4, n_at=5, seeds=3, named_seeds=20)
        seeds = [seed * 1000 + k for k in range(3)]
    else:
        sz = dict(n_frames=3, n_mol=6, n_at=6, seeds=6, named_seeds=80)
        seeds = [seed * 1000 + 100 + k for k in range(6)]
    geo = []
    for pl in PLACEMENTS:  # simplest first: whole molecules inside the cell, no cell before any cell
        for s in seeds:
            for fam in ["none"] + FAMILIES:
                if fam == "none" and pl != "inside":
                    continue
                geo.append(dict(family=fam, placement=pl, seed=s, n_frames=sz["n_frames"], n_mol=sz["n_mol"], n_at=sz["n_at"]))
    named = [dict(variant=v, seed=seed * 1000 + k) for v in VARIANTS for k in range(sz["named_seeds"])]
    return geo, named, sz


def run(tier, seed, hint):
    _REG.clear()
    geo, named, sz = _cases(tier, seed)
    chks = _checks(sz)
    for case in geo:
        eval_geometry_case(chks, case)
    for case in named:
        eval_named_case(chks, case)
    return list(chks.values())


def replay(payload):
    _REG.clear()
    inp = payload.get("input") or payload.get("failing_input")
    chks = _checks(dict(n_frames=inp.get("n_frames"), n_mol=inp.get("n_mol"), n_at=inp.get("n_at"), seeds=1, named_seeds=1))
    if inp.get("kind") == "named":
        eval_named_case(chks, {k: inp[k] for k in ("variant", "seed")})
    else:
        eval_geometry_case(chks, {k: inp[k] for k in ("family", "placement", "seed", "n_frames", "n_mol", "n_at")})
    fails = [f for c in chks.values() for f in c.failures]
    return {"reproduced": bool(fails), "failures": fails}
