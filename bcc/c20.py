"""C20 bounded contract check: existing files are never modified unless overwriting was requested.

For every extension accepted by Trajectory.save and md.open(path, 'w') -- xtc, trr, pdb, pdb.gz, dcd, h5, nc, netcdf,
ncdf, ncrst, crd, mdcrd, lammpstrj, xyz, xyz.gz, gro, rst7, dtr -- and pre-existing content
{valid file of the same format, longer valid file, unrelated bytes; for dtr: a directory (valid / longer / holding an
unrelated file)} x {single-frame, multi-frame} trajectory:

  no-overwrite   Trajectory.save(path, force_overwrite=False) and md.open(path, 'w', force_overwrite=False) must raise and
                 leave the sha256 of the file (of every file below the dtr directory; of the numbered files `name.N`
                 of multi-frame rst7/ncrst output, with all of them or only `name.2` pre-existing) unchanged;
  overwrite      with force_overwrite=True (save, and md.open + write + close) the result equals a fresh save at a
                 new path with the same basename: same file length (same relative file set and lengths for dtr; NetCDF: +-8
                 bytes because the title embeds datetime.now() whose microsecond field may be absent) and md.load of both
                 gives identical arrays -- nothing of a longer old file is retained;
  read-only      md.load, md.load_frame, md.iterload and md.open(path).read() leave sha256, st_mtime_ns and the
                 directory listing unchanged (mtime is set to a fixed past value first).
"""
from __future__ import annotations

import os
import shutil

import numpy as np

import mdtraj as md
from bcc.api import Check
from bcc.fixtures import Scratch, make_traj
from specs.decoders import numbered_files, sha256_tree

EXTS = ["xtc", "trr", "pdb", "pdb.gz", "dcd", "h5", "nc", "netcdf", "ncdf", "ncrst", "crd", "mdcrd", "lammpstrj", "xyz", "xyz.gz",
        "gro", "rst7", "dtr"]
RESTART = ("rst7", "ncrst")
NEEDS_TOP = {"xtc", "trr", "dcd", "nc", "netcdf", "ncdf", "ncrst", "crd", "mdcrd", "lammpstrj", "xyz", "xyz.gz", "rst7", "dtr"}
N_ATOMS = 5
JUNK = b"unrelated bytes, not a trajectory\n" * 400  # 13.6 kB: longer than anything the 5-atom saves produce


class ObsCheck(Check):
    def __init__(self, *a, **k):
        super().__init__(*a, **k)
        self.observations = {}

    def observe(self, key, detail):
        o = self.observations.setdefault(key, {"count": 0, "first": detail})
        o["count"] += 1

    def result(self):
        r = super().result()
        r["observations"] = [{"what": k, **v} for k, v in sorted(self.observations.items())]
        return r


def saver_name(ext):
    t = make_traj(n_frames=1, n_atoms=1, cell="ortho")
    return t._savers()["." + ext].__name__


def class_name(ext):
    from mdtraj.formats.registry import FormatRegistry

    return FormatRegistry.fileobjects["." + ext].__name__


def _traj(nf, seed, atoms=N_ATOMS):
    return make_traj(n_frames=nf, n_atoms=atoms, cell="ortho", seed=seed)


def _put(path, ext, kind, seed):
    """create pre-existing content of the given kind at path"""
    if kind == "empty":
        if ext == "dtr":
            os.makedirs(path)
        else:
            open(path, "wb").close()
        return
    if kind == "junk":
        if ext == "dtr":
            os.makedirs(path)
            with open(os.path.join(path, "unrelated.txt"), "wb") as fh:
                fh.write(JUNK)
        else:
            with open(path, "wb") as fh:
                fh.write(JUNK)
        return
    nf, na = (2, 3) if kind == "valid" else (12, 40)
    old = make_traj(n_frames=nf, n_atoms=na, cell="ortho", seed=seed + 77)
    if ext in RESTART:
        old = old[0]  # one restart file holds one frame
    tmp = os.path.join(os.path.dirname(path), "old-content." + ext)  # numbered names `t.rst7.2` have no saver of their own
    old.save(tmp)
    os.replace(tmp, path)
    assert os.path.exists(path)


def _targets(path, ext, nf):
    """the paths Trajectory.save writes for this extension and frame count"""
    if ext in RESTART:
        return numbered_files(path, nf)
    return [path]


def _snapshot(paths):
    return {p: (sha256_tree(p) if os.path.exists(p) else None) for p in paths}


def _load(path, ext, top, nf=None):
    if ext in RESTART:
        files = numbered_files(path, nf)
        loader = md.load_restrt if ext == "rst7" else md.load_ncrestrt
        parts = [loader(f, top=top) for f in files]
        return parts[0] if len(parts) == 1 else parts[0].join(parts[1:], check_topology=False)
    if ext in NEEDS_TOP:
        return md.load(path, top=top)
    return md.load(path)


def _sizes(path):
    if os.path.isdir(path):
        out = {}
        for root, dirs, files in os.walk(path):
            for f in files:
                p = os.path.join(root, f)
                out[os.path.relpath(p, path)] = os.path.getsize(p)
        return out
    return os.path.getsize(path)


def _same_size(a, b, ext):
    slack = 8 if ext in ("nc", "netcdf", "ncdf") else 0  # title = "CREATED at <datetime.now()> ..." (microseconds may be absent)
    if isinstance(a, dict) or isinstance(b, dict):
        if not (isinstance(a, dict) and isinstance(b, dict)) or set(a) != set(b):
            return False
        return all(abs(a[k] - b[k]) <= slack for k in a)
    return abs(a - b) <= slack


def _arrays_equal(r1, r2):
    if r1.n_frames != r2.n_frames or r1.n_atoms != r2.n_atoms:
        return False
    if not np.array_equal(r1.xyz, r2.xyz) or not np.array_equal(r1.time, r2.time):
        return False
    if (r1.unitcell_lengths is None) != (r2.unitcell_lengths is None):
        return False
    if r1.unitcell_lengths is not None and not (np.array_equal(r1.unitcell_lengths, r2.unitcell_lengths) and np.array_equal(r1.unitcell_angles, r2.unitcell_angles)):
        return False
    return True


def _open_write(path, ext, t, force_overwrite):
    """md.open(path, 'w') + write all frames + close; returns after close"""
    from bcc import c19

    f = md.open(path, "w", force_overwrite=force_overwrite)
    try:
        if ext in RESTART:
            f.write(t.xyz[0] * 10, time=t.time[0], cell_lengths=t.unitcell_lengths[0] * 10, cell_angles=t.unitcell_angles[0])
        else:
            fam = {"netcdf": "nc", "ncdf": "nc", "crd": "mdcrd", "xyz.gz": "xyz", "pdb.gz": "pdb"}.get(ext, ext)
            c19.write_batch(fam, f, t, 0, t.n_frames, True, True if fam in ("h5", "nc", "xtc", "trr", "gro", "dtr") else None)
    finally:
        f.close()


# ------------------------------------------------------------------------------------------------------------------
def no_overwrite_case(ext, entry, kind, nf, pre, seed, d):
    """returns (status, detail): ok | not-raised | changed"""
    work = os.path.join(d, "Work Dir.A")
    shutil.rmtree(work, ignore_errors=True)
    os.makedirs(work)
    path = os.path.join(work, "t." + ext)
    t = _traj(nf, seed)
    targets = _targets(path, ext, nf) if entry == "save" else [path]
    existing = targets if pre == "all" else [targets[1]]
    extra = []
    if ext in RESTART and nf > 1 and entry == "save":
        extra = [path]  # the un-numbered name also exists and must be left alone
    for p in existing + extra:
        _put(p, ext, kind, seed)
    before = _snapshot(existing + extra)
    raised = None
    import contextlib
    import gc
    import io

    # PDBTrajectoryFile.__del__ of a half-constructed writer prints "END" to stdout (its _file is None): keep the
    # driver's stdout clean by collecting the object while stdout is redirected
    with contextlib.redirect_stdout(io.StringIO()):
        try:
            if entry == "save":
                t.save(path, force_overwrite=False)
            else:
                f = md.open(path, "w", force_overwrite=False)
                try:
                    f.close()
                except Exception:
                    pass
                del f
        except Exception as e:
            raised = f"{type(e).__name__}: {str(e)[:100]}"
            e.__traceback__ = None
            del e
        gc.collect()
    after = _snapshot(existing + extra)
    changed = [os.path.basename(p) for p in before if before[p] != after[p]]
    if changed:
        return "changed", {"changed": changed, "raised": raised}
    if raised is None:
        return "not-raised", {}
    return "ok", {"raised": raised}


def overwrite_case(ext, entry, kind, nf, seed, d):
    """returns (status, detail): ok | differs | raised"""
    work, fresh = os.path.join(d, "Work Dir.A"), os.path.join(d, "Fresh Dir.B")
    for x in (work, fresh):
        shutil.rmtree(x, ignore_errors=True)
        os.makedirs(x)
    path, fpath = os.path.join(work, "t." + ext), os.path.join(fresh, "t." + ext)
    t = _traj(nf, seed)
    targets = _targets(path, ext, nf) if entry == "save" else [path]
    ftargets = _targets(fpath, ext, nf) if entry == "save" else [fpath]
    for p in targets:
        _put(p, ext, kind, seed)
    try:
        if entry == "save":
            t.save(path, force_overwrite=True)
            t.save(fpath, force_overwrite=True)
        else:
            _open_write(path, ext, t, True)
            _open_write(fpath, ext, t, True)
    except Exception as e:
        return "raised", {"error": f"{type(e).__name__}: {str(e)[:160]}"}
    for p, q in zip(targets, ftargets):
        if not os.path.exists(p):
            return "differs", {"missing": os.path.basename(p)}
        sa, sb = _sizes(p), _sizes(q)
        if not _same_size(sa, sb, ext):
            return "differs", {"file": os.path.basename(p), "size_after_overwrite": sa, "size_fresh": sb}
    n_loaded = nf if entry == "save" or ext not in RESTART else 1
    try:
        r1 = _load(path, ext, t.topology, n_loaded if entry == "save" else 1)
        r2 = _load(fpath, ext, t.topology, n_loaded if entry == "save" else 1)
    except Exception as e:
        return "differs", {"reload": f"{type(e).__name__}: {str(e)[:160]}"}
    if not _arrays_equal(r1, r2):
        return "differs", {"reload": "arrays differ from the fresh save", "n_frames": [r1.n_frames, r2.n_frames], "n_atoms": [r1.n_atoms, r2.n_atoms]}
    return "ok", {}


READERS = ["load", "load_frame", "iterload", "open-read"]


def read_case(ext, reader, nf, seed, d):
    """returns (status, detail): ok | changed ; exceptions of the reader are reported in detail['error']"""
    work = os.path.join(d, "Work Dir.A")
    shutil.rmtree(work, ignore_errors=True)
    os.makedirs(work)
    path = os.path.join(work, "t." + ext)
    t = _traj(nf, seed)
    t.save(path)
    files = _targets(path, ext, nf)
    target = files[0]
    walk = []
    for p in files:
        if os.path.isdir(p):
            for root, dirs, fs in os.walk(p):
                walk += [os.path.join(root, f) for f in fs]
        else:
            walk.append(p)
    for p in walk:
        os.utime(p, ns=(1_500_000_000_000_000_000, 1_500_000_000_000_000_000))

    def state():
        listing = sorted(os.path.relpath(os.path.join(r, f), work) for r, ds, fs in os.walk(work) for f in fs)
        return {"sha": {os.path.relpath(p, work): sha256_tree(p) for p in walk if os.path.exists(p)},
                "mtime": {os.path.relpath(p, work): os.stat(p).st_mtime_ns for p in walk if os.path.exists(p)}, "listing": listing}

    before = state()
    err = None
    top = t.topology
    kw = {"top": top} if ext in NEEDS_TOP else {}
    numbered = ext in RESTART and nf > 1  # `t.rst7.1` has no extension-dispatched entry point: use the format's own
    try:
        if numbered:
            if reader == "load":
                (md.load_restrt if ext == "rst7" else md.load_ncrestrt)(target, top=top)
            elif reader == "open-read":
                cls = md.formats.AmberRestartFile if ext == "rst7" else md.formats.AmberNetCDFRestartFile
                with cls(target) as f:
                    f.read()
            else:
                return "ok", {"error": None, "skipped": "no such entry point for numbered restart files"}
        elif reader == "load":
            md.load(target, **kw)
        elif reader == "load_frame":
            md.load_frame(target, min(1, nf - 1), **kw)
        elif reader == "iterload":
            for _ in md.iterload(target, chunk=2, **kw):
                pass
        else:
            okw = {"n_atoms": t.n_atoms} if ext in ("mdcrd", "crd") else {}
            f = md.open(target, **okw)
            try:
                if hasattr(f, "read"):
                    f.read()
                else:  # PDBTrajectoryFile parses in the constructor and exposes .positions
                    f.positions
            finally:
                f.close()
    except Exception as e:
        err = f"{type(e).__name__}: {str(e)[:120]}"
    after = state()
    diffs = [k for k in ("sha", "mtime", "listing") if before[k] != after[k]]
    if diffs:
        return "changed", {"changed": diffs, "error": err, "listing_after": after["listing"]}
    return "ok", {"error": err}


# ------------------------------------------------------------------------------------------------------------------
_FAILED_PLAIN = set()  # (clause, witness) that already failed for the uncompressed extension: the .gz variant is the same finding


def _fail(chk, clause, ext, entry, nf, what, inp, observed, expected):
    base = _wc(ext, entry, nf)
    if ext.endswith(".gz"):
        if (clause, base) in _FAILED_PLAIN:
            chk.evaluations += 1
            return
        base += ":gz"
    else:
        _FAILED_PLAIN.add((clause, base))
    chk.fail(clause, base, what, inp, observed=observed, expected=expected)


def _wc(ext, entry, nf):
    w = f"{entry}:{saver_name(ext) if entry == 'save' else class_name(ext)}"
    if ext in RESTART and nf > 1 and entry == "save":
        w += ":numbered-files"
    return w


def run(tier, seed, hint):
    kinds = ["valid", "longer", "junk"] + (["empty"] if tier != "quick" else [])
    _FAILED_PLAIN.clear()
    frames_txt = "{1, 3}" if tier == "quick" else "{1, 2, 3}"
    a = ObsCheck("no-overwrite", "Trajectory.save(path, force_overwrite=False); md.open(path, 'w', force_overwrite=False)",
                 bound=f"extensions {EXTS} x entry {{save, md.open}} x pre-existing {kinds} (dtr: directories) x frames {frames_txt}; "
                       "multi-frame rst7/ncrst: numbered files name.1..name.3 all pre-existing, or only name.2; the un-numbered name pre-existing too",
                 rule="exhaustive; must raise; sha256 of every pre-existing file identical afterwards", exhaustive=True,
                 stands_in_for="existence test dominates every write-effect call in the pyx constructors (xtc, trr, dcd, dtr) and third-party open functions")
    b = ObsCheck("overwrite", "Trajectory.save(path, force_overwrite=True); md.open(path, 'w', force_overwrite=True) + write + close",
                 bound=f"extensions {EXTS} x entry {{save, md.open}} x pre-existing {kinds} x frames {frames_txt}",
                 rule="exhaustive; result vs fresh save of the same trajectory at a new path: equal file length(s) (NetCDF +-8 bytes: embedded datetime) and identical md.load arrays",
                 exhaustive=True, stands_in_for="truncate/unlink/rmtree/clobber semantics of the third-party open calls")
    c = ObsCheck("read-only", "md.load, md.load_frame, md.iterload, md.open(path).read()",
                 bound=f"extensions {EXTS} x 4 read entry points x frames {frames_txt}",
                 rule="exhaustive; sha256, st_mtime_ns (pre-set to a fixed past value) and the directory listing identical afterwards; reader exceptions are observations",
                 exhaustive=True, stands_in_for="read modes of the pyx readers and third-party open functions")
    frames = [1, 3] if tier == "quick" else [1, 2, 3]
    with Scratch("c20") as d:
        for ext in EXTS:
            for nf in frames:
                for entry in ("save", "open"):
                    if entry == "open" and nf > 1 and ext in RESTART:
                        continue  # a restart file object holds one frame
                    pres = ["all", "second"] if (ext in RESTART and nf > 1 and entry == "save") else ["all"]
                    for kind in kinds:
                        for pre in pres:
                            inp = {"what": "no-overwrite", "ext": ext, "entry": entry, "kind": kind, "nf": nf, "pre": pre, "seed": seed}
                            st, det = no_overwrite_case(ext, entry, kind, nf, pre, seed, d)
                            if st == "ok":
                                a.ok(nontrivial=(ext, entry, kind, nf, pre), sample=inp)
                            elif st == "not-raised":
                                _fail(a, "no-overwrite-raises", ext, entry, nf, f"{ext}: {entry} with force_overwrite=False on an existing {kind} file did not raise", inp,
                                      "no exception", "an exception")
                            else:
                                _fail(a, "no-overwrite-unchanged", ext, entry, nf, f"{ext}: {entry} with force_overwrite=False modified existing content ({kind}): {det}", inp,
                                      det, "sha256 unchanged")
                        inp = {"what": "overwrite", "ext": ext, "entry": entry, "kind": kind, "nf": nf, "seed": seed}
                        st, det = overwrite_case(ext, entry, kind, nf, seed, d)
                        if st == "ok":
                            b.ok(nontrivial=(ext, entry, kind, nf), sample=inp)
                        elif st == "raised":
                            b.evaluations += 1
                            b.observe(f"force_overwrite=True raises [{_wc(ext, entry, nf)}; old content: {kind}]", {**inp, **det})
                        else:
                            _fail(b, "overwrite-equals-fresh", ext, entry, nf, f"{ext}: {entry} with force_overwrite=True over a {kind} file differs from a fresh save: {det}",
                                  inp, det, "same length(s) and arrays as a fresh save")
                for reader in READERS:
                    inp = {"what": "read", "ext": ext, "reader": reader, "nf": nf, "seed": seed}
                    st, det = read_case(ext, reader, nf, seed, d)
                    if det.get("error"):
                        c.observe(f"{reader} raises {det['error'].split(':')[0]} [{ext}; {'multi' if nf > 1 else 'single'}-frame]", {**inp, **det})
                    if st == "ok":
                        c.ok(nontrivial=(ext, reader, nf), sample=inp)
                    else:
                        c.fail("read-only", f"{reader}:{ext}", f"{ext}: {reader} changed {det['changed']} of the file it read", inp, observed=det, expected="unchanged")
    return [a, b, c]


def replay(payload):
    inp = payload.get("input") or payload.get("failing_input")
    with Scratch("c20r") as d:
        if inp["what"] == "no-overwrite":
            st, det = no_overwrite_case(inp["ext"], inp["entry"], inp["kind"], inp["nf"], inp["pre"], inp.get("seed", 0), d)
        elif inp["what"] == "overwrite":
            st, det = overwrite_case(inp["ext"], inp["entry"], inp["kind"], inp["nf"], inp.get("seed", 0), d)
            if st == "raised":
                st = "ok"
        else:
            st, det = read_case(inp["ext"], inp["reader"], inp["nf"], inp.get("seed", 0), d)
    return {"reproduced": st != "ok", "status": st, "detail": det}
