"""Small deterministic trajectories and scratch-file helpers for the bounded contract checks."""
import os
import shutil
import tempfile

import numpy as np


def scratch_dir(prefix="bcc"):
    # a run that hands work to child processes sets MDVC_SCRATCH_PARENT to a directory it removes at the end, so that a child killed in
    # mid-case (a crashing codec is a recorded failure mode) leaves nothing behind
    base = os.environ.get("MDVC_SCRATCH_PARENT") or ("/dev/shm" if os.path.isdir("/dev/shm") else os.environ.get("MDVC_SCRATCH", None))
    if base and not os.path.isdir(base):
        base = "/dev/shm" if os.path.isdir("/dev/shm") else None
    return tempfile.mkdtemp(prefix=f"mdvc-{prefix}-", dir=base)


class Scratch:
    def __init__(self, prefix="bcc"):
        self.prefix = prefix

    def __enter__(self):
        self.d = scratch_dir(self.prefix)
        return self.d

    def __exit__(self, *a):
        shutil.rmtree(self.d, ignore_errors=True)


def make_topology(n_atoms, n_chains=1, res_size=3):
    import mdtraj as md
    from mdtraj.core import element

    top = md.Topology()
    names = ["N", "CA", "C", "O", "CB", "H"]
    elems = {"N": element.nitrogen, "CA": element.carbon, "C": element.carbon, "O": element.oxygen,
             "CB": element.carbon, "H": element.hydrogen}
    per_chain = -(-n_atoms // n_chains)
    k = 0
    for c in range(n_chains):
        ch = top.add_chain()
        res = None
        for i in range(per_chain):
            if k >= n_atoms:
                break
            if i % res_size == 0:
                res = top.add_residue(["ALA", "GLY", "SER"][(i // res_size) % 3], ch, resSeq=i // res_size + 1)
            nm = names[i % res_size % len(names)]
            top.add_atom(nm, elems[nm], res)
            k += 1
    atoms = list(top.atoms)
    for a, b in zip(atoms[:-1], atoms[1:]):
        if a.residue.chain is b.residue.chain:
            top.add_bond(a, b)
    return top


def make_traj(n_frames=5, n_atoms=6, cell="ortho", seed=0, times="nonuniform", scale=1.0, n_chains=1):
    """coordinates are multiples of 1/64 nm (exactly representable; survive 3-decimal text formats
    only approximately -- compare with tolerances)."""
    import mdtraj as md

    rng = np.random.RandomState(seed)
    xyz = (rng.randint(-640, 640, size=(n_frames, n_atoms, 3)) / 64.0 * scale).astype(np.float32)
    # make every frame recognisable: frame index encoded in atom 0 x
    xyz[:, 0, 0] = np.arange(n_frames) + 0.5
    top = make_topology(n_atoms, n_chains)
    if times == "nonuniform":
        t = np.cumsum(1.0 + 0.5 * (np.arange(n_frames) % 3)).astype(np.float32)
    else:
        t = np.arange(n_frames, dtype=np.float32)
    kw = {}
    if cell == "ortho":
        kw["unitcell_lengths"] = np.tile([[4.0, 5.0, 6.0]], (n_frames, 1)) + 0.25 * np.arange(n_frames)[:, None]
        kw["unitcell_angles"] = np.full((n_frames, 3), 90.0)
    elif cell == "triclinic":
        kw["unitcell_lengths"] = np.tile([[4.0, 5.0, 6.0]], (n_frames, 1)) + 0.25 * np.arange(n_frames)[:, None]
        kw["unitcell_angles"] = np.tile([[80.0, 95.0, 110.0]], (n_frames, 1))
    return md.Trajectory(xyz, top, time=t, **kw)
