"""C11 bounded contract check: Trajectory.make_molecules_whole / Trajectory.image_molecules.

Oracle: specs/lattice.py (is-lattice-vector test, brute-force minimum image).  Contracts, as stated:
  lattice-move      make_molecules_whole: new - old of every atom is an integer combination of the cell vectors of its frame
  common-translation image_molecules: (new - old)_i - (new - old)_0 is a lattice vector for every atom i (one common
                    translation per frame plus lattice vectors); with make_whole=False all atoms of one molecule move
                    by the same vector (molecules placed as whole units)
  bonds-whole       afterwards every bonded pair is at its minimum-image separation (make_whole)
  mic-unchanged     md.compute_distances / angles / dihedrals (periodic=True) are unchanged (pairs inside the range in
                    which the minimum image is defined, ties excluded)
  cell-time         unitcell_lengths / unitcell_angles / time bit-identical
  copy-semantics    inplace=False: original bit-identical, result shares no memory with it; inplace=True: returns self
  rmsd-cache        (C03 cache clause) center_coordinates(); re-image; md.rmsd(t, t, 0, precentered=True) equals the
                    from-scratch md.rmsd on a fresh Trajectory with the same coordinates

Tolerance for moves: 1e-5*max(1,|box|) (float32 roundings of coordinates up to ~4 cells out, see specs.lattice.dist_tol).
"""
import itertools

import numpy as np

import mdtraj as md
from mdtraj.core import element as elem
from bcc.api import Check
from bcc.c05 import family_cells
from specs import lattice as L

FAMILIES = L.FAMILIES
SHAPES = ["chain", "ring", "branched"]
BOND_ORDERS = ["sorted", "reversed", "shuffled"]
NUMBERINGS = ["parent-first", "arbitrary"]
SF = "make_whole / wrap_mols / image_frame (image_molecules.pxi) and the Python wrappers in trajectory.py"


# ------------------------------------------------------------------------------------------------
# molecules
# ------------------------------------------------------------------------------------------------

def molecule_graph(shape, n, rng):
    """bonds of an n-atom molecule in canonical numbering (every atom k>0 has a bonded neighbour < k)"""
    if n == 1:
        return []
    if shape == "chain" or n == 2:
        return [(k, k + 1) for k in range(n - 1)]
    if shape == "ring":
        return [(k, k + 1) for k in range(n - 1)] + ([(0, n - 1)] if n >= 3 else [])
    return [(int(rng.integers(0, k)), k) for k in range(1, n)]  # random tree


def molecule_coords(n, bonds, blen, rng):
    """compact conformation: every bond has length ~blen; overall extent bounded by construction (walk with a
    restoring pull towards the origin), rings closed by placing atoms on a circle"""
    if len(bonds) == n and n >= 3:  # ring: regular polygon of edge blen, slightly puckered
        r = blen / (2 * np.sin(np.pi / n))
        ang = 2 * np.pi * np.arange(n) / n
        x = np.stack([r * np.cos(ang), r * np.sin(ang), 0.1 * blen * rng.normal(size=n)], 1)
        return x @ L.random_rotation(rng).T
    x = np.zeros((n, 3))
    parent = {b: a for a, b in bonds}
    for k in range(1, n):
        p = parent[k]
        for _ in range(50):
            d = rng.normal(size=3)
            d /= np.linalg.norm(d)
            cand = x[p] + blen * rng.uniform(0.7, 1.0) * d
            if np.linalg.norm(cand) <= 1.6 * blen and (k < 2 or np.min(np.linalg.norm(x[:k] - cand, axis=1)) > 0.3 * blen):
                break
        x[k] = cand
    return x


def build(case):
    """trajectory with `n_mol` molecules; atoms of every molecule scattered by per-atom lattice shifts in [-3,3]^3"""
    family, seed, shape, n_mol, n_at, numbering, bond_order, n_frames = (
        case[k] for k in ("family", "seed", "shape", "n_mol", "n_at", "numbering", "bond_order", "n_frames"))
    rng = np.random.default_rng([int(seed), FAMILIES.index(family), SHAPES.index(shape), n_mol, n_at, NUMBERINGS.index(numbering), BOND_ORDERS.index(bond_order)])
    sizes = list(case.get("sizes") or [n_at] + [int(rng.integers(2, n_at + 1)) for _ in range(n_mol - 1)])
    lengths, angles = family_cells(family, rng, n_frames)
    # topology
    top = md.Topology()
    ch = top.add_chain()
    mols, bonds_all = [], []
    o = 0
    graphs = []
    for s in sizes:
        g = molecule_graph(shape, s, rng)
        perm = np.arange(s) if numbering == "parent-first" else rng.permutation(s)
        res = top.add_residue("MOL", ch)
        for i in range(s):
            if len(graphs) % 2 == 1 and s >= 2 and i == s // 2:
                res = top.add_residue("MO2", ch)  # every second molecule spans TWO residues (bonded across the residue boundary)
            top.add_atom(f"C{i}", elem.carbon, res)
        graphs.append((g, perm))
        bonds_all += [(o + int(perm[a]), o + int(perm[b])) for a, b in g]
        mols.append(list(range(o, o + s)))
        o += s
    order = {"sorted": sorted(bonds_all, key=lambda b: (min(b), max(b))), "reversed": sorted(bonds_all, key=lambda b: (min(b), max(b)))[::-1],
             "shuffled": [bonds_all[i] for i in rng.permutation(len(bonds_all))]}[bond_order]
    atoms = list(top.atoms)
    for k, (a, b) in enumerate(order):
        if bond_order == "shuffled" and k % 2:
            a, b = b, a
        top.add_bond(atoms[a], atoms[b])
    N = o
    t = md.Trajectory(np.zeros((n_frames, N, 3), dtype=np.float32), top, unitcell_lengths=lengths, unitcell_angles=angles,
                      time=np.arange(n_frames, dtype=np.float32) * 2.5 + 1.0)
    box = np.asarray(t.unitcell_vectors, dtype=np.float64)
    wmin = min(L.min_width(b) for b in box)
    blen = min(0.15, 0.11 * wmin)  # extent <= 2*1.6*blen = 0.35 w  <  half the smallest width
    xyz = np.empty((n_frames, N, 3))
    whole = np.empty((n_frames, N, 3))
    for f in range(n_frames):
        o = 0
        for s, (g, perm) in zip(sizes, graphs):
            x = molecule_coords(s, g, blen, rng)
            ext = np.linalg.norm(x[:, None] - x[None, :], axis=-1).max() if s > 1 else 0.0
            assert ext < 0.5 * wmin - 1e-3, (ext, wmin)
            xp = np.empty_like(x)
            xp[perm] = x
            xp = xp + rng.uniform(0, 1, size=3) @ box[f]
            whole[f, o:o + s] = xp
            xyz[f, o:o + s] = xp + rng.integers(-3, 4, size=(s, 3)) @ box[f]
            o += s
    t.xyz = xyz.astype(np.float32)
    bonds_idx = np.array([[b0.index, b1.index] for b0, b1 in top.bonds], dtype=int).reshape(-1, 2)
    return t, mols, bonds_idx, rng


def parent_first(mols, bonds_idx):
    """every atom except the lowest-indexed one of its molecule has a bonded neighbour with a lower index"""
    has_lower = set(int(max(a, b)) for a, b in bonds_idx)
    return all((m == min(mol)) or (m in has_lower) for mol in mols for m in mol)


def snapshot(t):
    return dict(xyz=t.xyz.tobytes(), ul=t.unitcell_lengths.tobytes(), ua=t.unitcell_angles.tobytes(), time=t.time.tobytes(),
                top=(t.n_atoms, [(a.index, b.index) for a, b in t.topology.bonds]))


def same(snap, t, what=("xyz", "ul", "ua", "time")):
    cur = snapshot(t)
    return [k for k in what if cur[k] != snap[k]]


def mic_observables(t, bonds_idx, mols, rng_pairs):
    """periodic distances over bonded + sampled pairs, angles/dihedrals over bonded paths"""
    d = md.compute_distances(t, rng_pairs, periodic=True) if len(rng_pairs) else np.zeros((t.n_frames, 0))
    nb = {}
    for a, b in bonds_idx:
        nb.setdefault(int(a), []).append(int(b))
        nb.setdefault(int(b), []).append(int(a))
    trip = [(a, b, c) for b in nb for a, c in itertools.combinations(nb[b], 2)][:40]
    quart = [(a, b, c, d_) for b, c in bonds_idx for a in nb[int(b)] if a != c for d_ in nb[int(c)] if d_ != b and d_ != a][:40]
    ang = md.compute_angles(t, np.array(trip), periodic=True) if trip else np.zeros((t.n_frames, 0))
    dih = md.compute_dihedrals(t, np.array(quart), periodic=True) if quart else np.zeros((t.n_frames, 0))
    return np.asarray(d, float), np.asarray(ang, float), np.asarray(dih, float), np.array(trip).reshape(-1, 3), np.array(quart).reshape(-1, 4)


def eval_case(chks, case, records):
    t0, mols, bonds_idx, rng = build(case)
    family = case["family"]
    N, F = t0.n_atoms, t0.n_frames
    box = np.asarray(t0.unitcell_vectors, dtype=np.float64)
    pf = parent_first(mols, bonds_idx)
    # pairs for the MIC-unchanged clause: all bonded pairs + random pairs
    allp = [(i, j) for i in range(N) for j in range(i + 1, N)]
    extra = [allp[k] for k in rng.choice(len(allp), size=min(30, len(allp)), replace=False)] if allp else []
    pairs = np.array([tuple(b) for b in bonds_idx] + extra, dtype=int).reshape(-1, 2)
    top_mols = t0.topology.find_molecules()
    top_mols_sorted = sorted(top_mols, key=lambda m: -len(m))
    methods = [("make_molecules_whole", dict())]
    for mw in (True, False):
        for anchors in ("explicit-largest", "explicit-two", "guessed"):
            if anchors == "explicit-two" and len(top_mols) < 2:
                continue
            methods.append(("image_molecules", dict(make_whole=mw, anchors=anchors)))
    for method, opts in methods:
        for inplace in (False, True):
            if inplace:
                xyz_in = t0.xyz.copy()
            else:
                # the coordinates are a VIEW into a larger array (as after loading several formats, or after slicing): inplace=False must still not touch them
                big = np.zeros((F + 1, N, 3), dtype=np.float32)
                big[1:] = t0.xyz
                xyz_in = big[1:]
            t = md.Trajectory(xyz_in, t0.topology, time=t0.time.copy(), unitcell_lengths=t0.unitcell_lengths.copy(), unitcell_angles=t0.unitcell_angles.copy())
            before = snapshot(t)
            old = t.xyz.astype(np.float64)
            obs_before = mic_observables(t, bonds_idx, mols, pairs)
            kw = {}
            label = method
            if method == "image_molecules":
                kw["make_whole"] = opts["make_whole"]
                ms = sorted(t.topology.find_molecules(), key=lambda m: (-len(m), min(a.index for a in m)))
                if opts["anchors"] == "explicit-largest":
                    kw["anchor_molecules"] = ms[:1]
                elif opts["anchors"] == "explicit-two":
                    kw["anchor_molecules"] = ms[:2]
                    kw["other_molecules"] = ms[2:]
                label += f":make_whole={opts['make_whole']}"
            info = dict(case, method=method, inplace=inplace, **opts)
            try:
                res = getattr(t, method)(inplace=inplace, **kw)
            except ValueError as e:
                if method == "image_molecules" and opts["anchors"] == "guessed" and "anchor" in str(e):
                    chks["moves"].ok()  # documented refusal: no anchor molecules could be guessed (not a silent wrong answer)
                    continue
                records.append(dict(chk="moves", clause="raises", func=label, feats=_feats(case, pf, opts), what=f"{method} raised {type(e).__name__}: {e}", input=info, n=N))
                continue
            except Exception as e:
                records.append(dict(chk="moves", clause="raises", func=label, feats=_feats(case, pf, opts), what=f"{method} raised {type(e).__name__}: {e}", input=info, n=N))
                continue
            feats = _feats(case, pf, opts)

            def rec(chk, clause, what, obs=None, exp=None):
                records.append(dict(chk=chk, clause=clause, func=label, feats=feats, what=what + f" [family={family} shape={case['shape']} sizes={[len(m) for m in mols]} "
                                    f"numbering={case['numbering']} bond_order={case['bond_order']} inplace={inplace} {opts}]", input=info, n=N, observed=obs, expected=exp))

            n_bad = len(records)
            # ---- copy semantics
            if inplace:
                if res is not t:
                    rec("copy", "inplace-returns-self", f"{method}(inplace=True) did not return self")
                new_t = t
            else:
                ch = same(before, t)
                if ch:
                    rec("copy", "original-untouched", f"{method}(inplace=False) modified the original's {ch}")
                if res is t or np.shares_memory(res.xyz, t.xyz) or np.shares_memory(res.unitcell_lengths, t.unitcell_lengths) or np.shares_memory(res.time, t.time):
                    rec("copy", "no-shared-memory", f"{method}(inplace=False) result shares memory with the original")
                new_t = res
            ch = same(before, new_t, ("ul", "ua", "time"))
            if ch or snapshot(new_t)["top"] != before["top"]:
                rec("copy", "cell-time-untouched", f"{method} changed {ch or 'topology'}")
            new = new_t.xyz.astype(np.float64)
            if new.shape != old.shape:
                rec("moves", "shape", f"result shape {new.shape}")
                continue
            # ---- moves
            for f in range(F):
                tol = L.dist_tol(box[f])
                mv = new[f] - old[f]
                if method == "make_molecules_whole":
                    bad = ~L.is_lattice_vector(mv, box[f], tol)
                    if bad.any():
                        k = int(np.argmax(bad))
                        rec("moves", "lattice-move", f"atom {k} moved by {mv[k].tolist()}, not an integer combination of the cell vectors (frame {f}, tol {tol:.1e})", mv[k], None)
                        break
                else:
                    rel = mv - mv[0]
                    bad = ~L.is_lattice_vector(rel, box[f], 2 * tol)
                    if bad.any():
                        k = int(np.argmax(bad))
                        rec("moves", "common-translation-plus-lattice", f"atom {k} moved by {mv[k].tolist()}, atom 0 by {mv[0].tolist()}: difference is not a lattice vector (frame {f})", rel[k], None)
                        break
                    if not opts["make_whole"]:
                        for mol in mols:
                            spread = np.abs(mv[mol] - mv[mol[0]]).max()
                            if spread > 2 * tol:
                                rec("moves", "molecule-moved-as-unit", f"make_whole=False: atoms of molecule {mol} moved by different vectors (spread {spread:.3g}, frame {f})", spread, 0.0)
                                break
                        else:
                            continue
                        break
            # ---- bonds whole
            if method == "make_molecules_whole" or opts["make_whole"]:
                for f in range(F if len(bonds_idx) else 0):
                    tol = L.dist_tol(box[f])
                    dvec = new[f, bonds_idx[:, 1]] - new[f, bonds_idx[:, 0]]
                    eu = np.sqrt((dvec ** 2).sum(1))
                    mi = L.min_image(dvec, box[f])[1]
                    bad = eu > mi + 2 * tol
                    if bad.any():
                        k = int(np.argmax(bad))
                        rec("whole", "bonded-pairs-at-minimum-image", f"{int(bad.sum())} of {len(bonds_idx)} bonded pairs are not at their minimum-image separation afterwards, "
                            f"e.g. bond {bonds_idx[k].tolist()}: |dx|={eu[k]:.4f}, minimum image {mi[k]:.4f} (frame {f})", float(eu[k]), float(mi[k]))
                        break
            # ---- MIC observables unchanged
            obs_after = mic_observables(new_t, bonds_idx, mols, pairs)
            msg = _compare_mic(obs_before, obs_after, old, new, box, pairs, family)
            if msg:
                rec("mic", "mic-observables-unchanged", msg)
            for name in ("moves", "whole", "mic", "copy"):
                if not any(r["chk"] == name for r in records[n_bad:]):
                    chks[name].ok(nontrivial=(family, case["shape"], method, inplace, str(opts)))
    # ---- C03 cache clause
    for method, kw in (("make_molecules_whole", {}), ("image_molecules", {"make_whole": True}), ("image_molecules", {"make_whole": False})):
        for inplace in (True, False):
            if inplace:
                xyz_in = t0.xyz.copy()
            else:
                # the coordinates are a VIEW into a larger array (as after loading several formats, or after slicing): inplace=False must still not touch them
                big = np.zeros((F + 1, N, 3), dtype=np.float32)
                big[1:] = t0.xyz
                xyz_in = big[1:]
            t = md.Trajectory(xyz_in, t0.topology, time=t0.time.copy(), unitcell_lengths=t0.unitcell_lengths.copy(), unitcell_angles=t0.unitcell_angles.copy())
            t.center_coordinates()
            kw2 = dict(kw)
            if method == "image_molecules":
                kw2["anchor_molecules"] = sorted(t.topology.find_molecules(), key=lambda m: (-len(m), min(a.index for a in m)))[:1]
            try:
                r = getattr(t, method)(inplace=inplace, **kw2)
            except Exception:
                continue
            r = t if inplace else r
            if F < 2 or r is None:
                continue
            # NB md.rmsd centres the coordinates it is given in place: take the copies first
            spec = np.array([L.kabsch_rmsd(r.xyz[f], r.xyz[0]) for f in range(F)])
            fresh = md.Trajectory(r.xyz.copy(), r.topology)
            stale = r._rmsd_traces is not None
            exp = np.asarray(md.rmsd(fresh, fresh, 0), dtype=np.float64)
            got = np.asarray(md.rmsd(r, r, 0, precentered=True), dtype=np.float64)
            tol = 1e-4 + 1e-5 * float(np.abs(r.xyz).max())
            if np.abs(got - exp).max() > tol:
                records.append(dict(chk="cache", clause="rmsd-cache-fresh", func=f"{method}:inplace={inplace}", feats=("after-center_coordinates",), n=N,
                                    what=f"after center_coordinates() and {method}(inplace={inplace}), md.rmsd(precentered=True) gives {np.round(got, 4).tolist()} but a from-scratch "
                                         f"md.rmsd on the same coordinates gives {np.round(exp, 4).tolist()} (float64 Kabsch: {np.round(spec, 4).tolist()}); _rmsd_traces is "
                                         f"{'kept from before the re-imaging' if stale else 'None'} [family={family}]",
                                    input=dict(case, method=method, inplace=inplace, cache=True, **kw), observed=got, expected=exp))
            else:
                chks["cache"].ok(nontrivial=(family, method, inplace, str(kw)))


def _feats(case, pf, opts):
    f = []
    if not pf:
        f.append("atom-numbering-not-parent-first")
    if case["bond_order"] != "sorted":
        f.append("bonds-added-" + case["bond_order"])
    if case["shape"] != "chain":
        f.append(case["shape"])
    if len(case.get("sizes") or []) > 4 or opts.get("anchors") == "guessed":
        f.append("guessed-anchors" if opts.get("anchors") == "guessed" else "many-molecules")
    elif opts.get("anchors") == "explicit-two":
        f.append("two-anchors")
    if L.FAMILIES.index(case["family"]) >= 2:
        f.append("triclinic")
    return tuple(f)


def _compare_mic(before, after, old, new, box, pairs, family):
    d0, a0, h0, trip, quart = before
    d1, a1, h1, _, _ = after
    F = len(old)
    for f in range(F):
        tol = L.dist_tol(box[f])
        if len(pairs):
            diff = old[f, pairs[:, 1]] - old[f, pairs[:, 0]]
            _, sd, second = L.min_image(diff, box[f], want_second=True)
            ok = (second - sd > 1e-5 + 2 * tol)
            if family not in ("cubic", "ortho"):
                ok &= sd < 0.5 * L.min_width(box[f]) - tol
            bad = ok & (np.abs(d0[f] - d1[f]) > 2 * tol)
            if bad.any():
                k = int(np.argmax(bad))
                return f"compute_distances(periodic=True) of pair {pairs[k].tolist()} changed from {d0[f][k]:.6f} to {d1[f][k]:.6f} (frame {f})"
        dx = 4 * float(L.ulp32(max(np.abs(old[f]).max(), np.abs(new[f]).max())))
        if len(trip):
            sa, u, v = L.angles(old[f], trip, box[f])
            tol_a = 2 * L.angle_tol(u, v, dx)
            bad = np.abs(a0[f] - a1[f]) > tol_a
            if bad.any():
                k = int(np.argmax(bad))
                return f"compute_angles(periodic=True) of {trip[k].tolist()} changed from {a0[f][k]:.6f} to {a1[f][k]:.6f} (frame {f})"
        if len(quart):
            sd_, b1, b2, b3 = L.dihedrals(old[f], quart, box[f])
            tol_d = 2 * L.dihedral_tol(b1, b2, b3, dx)
            bad = (tol_d <= 0.05) & (L.angdiff(h0[f], h1[f]) > tol_d)
            if bad.any():
                k = int(np.argmax(bad))
                return f"compute_dihedrals(periodic=True) of {quart[k].tolist()} changed from {h0[f][k]:.6f} to {h1[f][k]:.6f} (frame {f})"
    return None


def assign_keys(chks, records):
    """witness class = method + the features shared by ALL failures of (check, clause, method); the witness reported is
    the one with the fewest features, then the fewest atoms (minimal witness)"""
    groups = {}
    for r in records:
        groups.setdefault((r["chk"], r["clause"], r["func"]), []).append(r)
    for (chk, clause, func), rs in groups.items():
        common = [x for x in rs[0]["feats"] if all(x in r["feats"] for r in rs)]
        r = min(rs, key=lambda r: (len(r["feats"]), r["n"]))
        wc = func + "".join(":" + x for x in common)
        chks[chk].fail(clause, wc, r["what"] + f" ({len(rs)} failing evaluations in this class)", dict(r["input"], witness_class=wc, clause=clause),
                       observed=r.get("observed"), expected=r.get("expected"))


# ------------------------------------------------------------------------------------------------

def _checks(sz):
    bound = (f"cells [{', '.join(FAMILIES)}] x molecule shapes {SHAPES} x atom numbering {NUMBERINGS} x add_bond order {BOND_ORDERS} x {sz['seeds']} seed(s); "
             f"1-4 molecules of 2-12 atoms (largest first) plus one 11-molecule system for guessed anchors; extent of every molecule < 0.35 * smallest cell width; every atom shifted by a random lattice "
             f"vector in [-3,3]^3; {sz['n_frames']} frames with per-frame cells; methods make_molecules_whole, image_molecules(make_whole in (True,False), anchors explicit largest / explicit two + explicit others / guessed) "
             "x inplace in (False,True)")
    mk = lambda name, rule: Check(name, "Trajectory.make_molecules_whole, Trajectory.image_molecules", bound, rule, stands_in_for=SF)
    return {
        "moves": mk("moves-are-lattice-vectors", "new-old of each atom is an integer combination of the frame's cell vectors (residual <= 1e-5*max(1,|box|)); image_molecules: relative to the move of atom 0 "
                    "(one common translation per frame); make_whole=False: equal moves within a molecule"),
        "whole": mk("bonded-pairs-whole", "after make_whole every bonded pair's Euclidean separation equals its brute-force minimum-image distance (+2 tol)"),
        "mic": mk("mic-observables-unchanged", "md.compute_distances/angles/dihedrals(periodic=True) before vs after on bonded pairs, 30 random pairs, bonded angle/torsion paths; pairs beyond half the smallest "
                  "width (skewed cells) or within 1e-5 of an image tie are skipped"),
        "copy": mk("copy-semantics-cell-time", "inplace=False leaves xyz/cell/time of the original bit-identical and shares no memory; inplace=True returns self; unitcell_lengths/angles, time, topology bit-identical"),
        "cache": mk("rmsd-cache-after-reimaging", "center_coordinates(); re-image (in place / copy); md.rmsd(precentered=True) == from-scratch md.rmsd on a fresh Trajectory (tol 1e-4 + 1e-5|x|max)"),
    }


def _cases(tier, seed):
    seeds = [seed] if tier == "quick" else [seed * 1000 + 100 + k for k in range(4)]
    fr = 2 if tier == "quick" else 3
    cases = []
    k = 0
    for s in seeds:
        for i1, fam in enumerate(FAMILIES):
            for i2, shape in enumerate(SHAPES):
                for i3, numbering in enumerate(NUMBERINGS):
                    for i4, bo in enumerate(BOND_ORDERS):
                        k += 1
                        if tier == "quick" and (i1 + i2 + i3 + i4 + s) % 3:
                            continue  # a third of the product per seed (Latin-square thinning: every pair of factor levels still occurs), deterministic
                        n_mol = 1 + (k % 4)
                        n_at = [2, 3, 5, 8, 12][k % 5]
                        cases.append(dict(family=fam, seed=s, shape=shape, n_mol=n_mol, n_at=n_at, numbering=numbering, bond_order=bo, n_frames=fr))
            # guessed anchors need >= 10 molecules: one large + ten small
            cases.append(dict(family=fam, seed=s, shape="branched", n_mol=11, n_at=9, numbering="parent-first", bond_order="sorted", n_frames=fr,
                              sizes=[9, 2, 1, 1, 2, 1, 3, 1, 1, 2, 1]))
    return cases, dict(seeds=len(seeds), n_frames=fr)


def run(tier, seed, hint):
    cases, sz = _cases(tier, seed)
    chks = _checks(sz)
    records = []
    for case in cases:
        eval_case(chks, case, records)
    assign_keys(chks, records)
    return list(chks.values())


def replay(payload):
    inp = payload.get("input") or payload.get("failing_input")
    chks = _checks(dict(seeds=1, n_frames=inp["n_frames"]))
    case = {k: inp[k] for k in ("family", "seed", "shape", "n_mol", "n_at", "numbering", "bond_order", "n_frames", "sizes") if k in inp}
    records = []
    eval_case(chks, case, records)
    for r in records:
        i2 = r["input"]
        if r["clause"] == inp.get("clause") and i2.get("method") == inp.get("method") and i2.get("inplace") == inp.get("inplace") \
                and i2.get("make_whole") == inp.get("make_whole") and i2.get("anchors") == inp.get("anchors"):
            chks[r["chk"]].fail(r["clause"], inp.get("witness_class", r["func"]), r["what"], r["input"], observed=r.get("observed"), expected=r.get("expected"))
    fails = [f for c in chks.values() for f in c.failures]
    return {"reproduced": bool(fails), "failures": fails}
