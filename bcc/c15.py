"""C15 bounded contract check: md.compute_dssp against the executable DSSP rules of specs/dssp_ref.py
(written from Kabsch & Sander 1983 and the DSSP 2.x rule order), fed -- as the property says -- with
mdtraj's own md.kabsch_sander hydrogen bonds and the CA coordinates of each frame.

Inputs: the protein structures under /repo/tests/data and generated helices (alpha / 3-10 / pi segments),
each taken through seeded transformations: Gaussian displacement 0.01-0.2 nm or a smooth warp of amplitude
0.05-0.3 nm (1-5 frames; the warp distorts the fold but keeps peptide bonds intact), uniform
compression (more, irregular hydrogen bonds), splitting a chain in two, deleting backbone atoms of random
residues, inserting water / ion residues between protein residues.

Contract per frame: compute_dssp(simplified=False)[f, r] == spec code for every residue on which all variants
of the spec's open points agree (see specs/dssp_ref.py); residues lacking N/CA/C/O are 'NA';
compute_dssp(simplified=True) is the fixed image H,G,I->H; E,B->E; T,S,' '->C of the full output; shape
(n_frames, n_residues).
"""
from __future__ import annotations

import os

import numpy as np

from bcc.api import Check
from specs import dssp_ref as D

DATA = "/repo/tests/data"


# --------------------------------------------------------------------------------------------------
# inputs
# --------------------------------------------------------------------------------------------------
def _base(case):
    import mdtraj as md

    if "pdb" in case:
        t = md.load(os.path.join(DATA, case["pdb"]))
        fr = case.get("frames")
        if fr is not None:
            t = t[fr]
        else:
            t = t[0]
        if case.get("protein_chains_only"):
            keep = [a.index for a in t.topology.atoms if a.residue.is_protein]
            t = t.atom_slice(keep)
        if case.get("max_residues"):
            keep = [a.index for a in t.topology.atoms if a.residue.index < case["max_residues"]]
            t = t.atom_slice(keep)
        return t
    # generated: segments of (kind, length)
    from bcc.c14 import SS_ANGLES, build_chain
    from mdtraj.core import element

    rng = np.random.RandomState(case["gen_seed"])
    top = md.Topology()
    coords = []
    for ci, segs in enumerate(case["chains"]):
        phipsi, seq = [], []
        for kind, length in segs:
            for _ in range(length):
                if kind == "random":
                    phipsi.append((rng.uniform(-180, 180), rng.uniform(-180, 180)))
                else:
                    p0, s0 = SS_ANGLES[kind]
                    phipsi.append((p0 + rng.normal(0, case.get("jitter", 3.0)), s0 + rng.normal(0, case.get("jitter", 3.0))))
                seq.append("ALA" if rng.rand() > 0.08 else "PRO")
        seq[0] = "ALA"
        atoms, _ = build_chain(seq, phipsi, rng, "plain", "plain")
        X = np.array([a[3] for a in atoms])
        X = X - X.mean(0) + np.array([2.5 * ci, 0.0, 0.0])
        ch = top.add_chain()
        res = {}
        for (nm, el, ri, _), x in zip(atoms, X):
            if ri not in res:
                res[ri] = top.add_residue(seq[ri], ch, resSeq=ri + 1)
            top.add_atom(nm, element.get_by_symbol(el), res[ri])
            coords.append(x)
    return md.Trajectory(np.array(coords, np.float32)[None], top)


def _rebuild(t, plan):
    """plan: list of chains, each a list of entries ("res", residue, [atoms kept]) | ("new", resname, [(name, symbol, xyz(F,3))])"""
    import mdtraj as md
    from mdtraj.core import element

    top = md.Topology()
    cols = []
    for chain in plan:
        ch = top.add_chain()
        for e in chain:
            if e[0] == "res":
                r = e[1]
                res = top.add_residue(r.name, ch, resSeq=r.resSeq)
                for a in e[2]:
                    top.add_atom(a.name, a.element, res)
                    cols.append(t.xyz[:, a.index, :])
            else:
                res = top.add_residue(e[1], ch, resSeq=9000)
                for nm, sym, x in e[2]:
                    top.add_atom(nm, element.get_by_symbol(sym), res)
                    cols.append(np.asarray(x, np.float32))
    xyz = np.stack(cols, axis=1) if cols else np.zeros((t.n_frames, 0, 3), np.float32)
    return md.Trajectory(xyz, top)


def build(case):
    """case -> md.Trajectory (deterministic)"""
    import mdtraj as md

    t = _base(case)
    rng = np.random.RandomState(case.get("seed", 0))
    for op in case.get("ops", []):
        kind = op[0]
        if kind == "scale":
            c = t.xyz.mean(axis=1, keepdims=True)
            t = md.Trajectory(((t.xyz - c) * op[1] + c).astype(np.float32), t.topology)
        elif kind == "perturb":
            _, sigma, n_frames = op
            x0 = np.asarray(t.xyz[0], float)
            xyz = np.array([x0 + rng.normal(0, sigma, size=x0.shape) for _ in range(n_frames)])
            t = md.Trajectory(xyz.astype(np.float32), t.topology)
        elif kind == "warp":
            # smooth random deformation (three sine waves, wavelength 1.2-3 nm): moves atoms by up to ~amplitude while
            # keeping neighbouring atoms together, so peptide bonds stay intact and the global fold is distorted
            _, amp, n_frames = op
            x0 = np.asarray(t.xyz[0], float)
            frames = []
            for _f in range(n_frames):
                x = x0.copy()
                for _k in range(3):
                    q = rng.normal(size=3)
                    q *= 2 * np.pi / rng.uniform(1.2, 3.0) / np.linalg.norm(q)
                    a = rng.normal(size=3)
                    a *= amp / np.sqrt(3.0) / np.linalg.norm(a)
                    x = x + np.sin(x0 @ q + rng.uniform(0, 2 * np.pi))[:, None] * a
                frames.append(x)
            t = md.Trajectory(np.array(frames, np.float32), t.topology)
        elif kind == "split":
            # split every chain with >= 8 protein residues at a random position
            plan = []
            for ch in t.topology.chains:
                rs = list(ch.residues)
                if len(rs) >= 8:
                    k = int(rng.randint(3, len(rs) - 3))
                    plan.append([("res", r, list(r.atoms)) for r in rs[:k]])
                    plan.append([("res", r, list(r.atoms)) for r in rs[k:]])
                else:
                    plan.append([("res", r, list(r.atoms)) for r in rs])
            t = _rebuild(t, plan)
        elif kind == "delete":
            # remove one or two backbone atoms from `op[1]` random residues
            rs = [r for r in t.topology.residues if r.is_protein]
            # mostly patterns that remove the carbonyl completely or not at all; one in eight removes only C or only O
            # (the follower's hydrogen is then built from memory outside the coordinate array -- reported under C14 -- and
            # such trajectories are skipped here, see evaluate())
            patterns = [["N"], ["CA"], ["C", "O"], ["N", "CA"], ["CA", "C", "O"], ["N", "CA", "C", "O"], ["N", "C", "O"], ["C"] if rng.rand() < 0.5 else ["O"]]
            victims = {rs[i].index: patterns[int(rng.randint(len(patterns)))]
                       for i in rng.choice(len(rs), size=min(op[1], len(rs)), replace=False)}
            for ri, pat in list(victims.items()):
                if all(a.name in pat for a in t.topology.residue(ri).atoms):
                    victims[ri] = ["N"]                       # never empty a residue completely
            plan = []
            for ch in t.topology.chains:
                plan.append([("res", r, [a for a in r.atoms if not (r.index in victims and a.name in victims[r.index])]) for r in ch.residues])
            t = _rebuild(t, plan)
        elif kind == "interleave":
            # insert water / ion residues inside the chains, after `op[1]` random residues
            rs = list(t.topology.residues)
            after = set(int(i) for i in rng.choice(len(rs), size=min(op[1], len(rs)), replace=False))
            plan = []
            for ch in t.topology.chains:
                cur = []
                for r in ch.residues:
                    cur.append(("res", r, list(r.atoms)))
                    if r.index in after:
                        at = list(r.atoms)
                        base = t.xyz[:, at[0].index, :] + rng.normal(0, 0.3, size=3).astype(np.float32)
                        if rng.rand() < 0.5:
                            cur.append(("new", "HOH", [("O", "O", base), ("H1", "H", base + np.float32([0.0957, 0, 0])), ("H2", "H", base + np.float32([-0.024, 0.0927, 0]))]))
                        else:
                            nm = str(rng.choice(["NA", "CL", "CA"]))
                            cur.append(("new", nm, [(nm, {"NA": "Na", "CL": "Cl", "CA": "Ca"}[nm], base)]))
                plan.append(cur)
            t = _rebuild(t, plan)
    return t


def frame_inputs(t):
    """-> list of D.Input, one per frame, using md.kabsch_sander for the hydrogen bonds"""
    import mdtraj as md

    top = t.topology
    idx = []
    for r in top.residues:
        d = {}
        for nm in ("N", "CA", "C", "O"):
            hits = [a.index for a in r.atoms if a.name == nm]
            d[nm] = hits[0] if hits else None
        idx.append(d)
    complete = [all(v is not None for v in d.values()) for d in idx]
    chain = [r.chain.index for r in top.residues]
    ks = md.kabsch_sander(t)
    x = np.asarray(t.xyz, float)
    n = len(idx)
    out = []
    for f in range(t.n_frames):
        coo = ks[f].tocoo()
        hb = {(int(i), int(j)) for i, j in zip(coo.row, coo.col)}
        ca = np.full((n, 3), np.nan)
        cn = np.full(max(n - 1, 0), np.nan)
        for i, d in enumerate(idx):
            if d["CA"] is not None:
                ca[i] = x[f, d["CA"]]
            if i + 1 < n and d["C"] is not None and idx[i + 1]["N"] is not None:
                cn[i] = np.linalg.norm(x[f, d["C"]] - x[f, idx[i + 1]["N"]])
        out.append(D.Input(complete, chain, hb, ca, cn))
    return out


# --------------------------------------------------------------------------------------------------
# contract
# --------------------------------------------------------------------------------------------------
def _category(s, m, r, inp, runs_detail):
    pair = {s, m}
    if "NA" in pair:
        cat = "NA:incomplete-residue"
    elif pair == {"H", "I"}:
        cat = "helix:pi-vs-alpha-priority"
    elif "I" in pair:
        cat = "helix:pi"
    elif "G" in pair:
        cat = "helix:3-10-vs-sheet-priority" if pair & {"E", "B"} else "helix:3-10"
    elif "H" in pair:
        cat = "helix:alpha-vs-sheet-priority" if pair & {"E", "B"} else "helix:alpha"
    elif pair & {"E", "B"}:
        cat = "sheet:ladder-vs-isolated-bridge" if pair == {"E", "B"} else "sheet:bridge"
        for lad in runs_detail.get("ladders", []):
            if lad.get("parts", 1) > 1:
                for key in ("i", "j"):
                    seg = lad[key]
                    if min(seg) <= r <= max(seg) and r not in seg:
                        cat = "sheet:bulge-merge"
            if lad.get("parts", 1) > 1 and (min(lad["i"]) <= r <= max(lad["i"]) or min(lad["j"]) <= r <= max(lad["j"])) and cat != "sheet:bulge-merge":
                cat = "sheet:bulge-linked-ladder"
    elif "T" in pair:
        cat = "turn"
    else:
        cat = "bend"
    lo, hi = max(0, r - 5), min(inp.n - 1, r + 5)
    if any(not inp.complete[k] for k in range(lo, hi + 1)) and "NA" not in pair:
        cat += ":near-incomplete-residue"
    elif any(inp.chain[k] != inp.chain[k + 1] for k in range(lo, hi)):
        cat += ":near-chain-boundary"
    return cat


def evaluate(case):
    """-> (violations [(clause, wc, what, observed, expected)], stats)"""
    import mdtraj as md

    t = build(case)
    n_res = t.topology.n_residues
    stats = {"n_residues": n_res, "n_frames": t.n_frames, "compared": 0, "undecided": 0, "codes": {}}
    out = {}

    def report(clause, wc, what, obs, exp):
        out.setdefault((clause, wc), (clause, wc, what, obs, exp))

    try:
        full = md.compute_dssp(t, simplified=False)
        simp = md.compute_dssp(t, simplified=True)
    except Exception as e:
        return [("compute_dssp-raises", f"compute_dssp:{type(e).__name__}", f"compute_dssp raised {type(e).__name__}: {e}", repr(e), None)], stats
    if full.shape != (t.n_frames, n_res) or simp.shape != (t.n_frames, n_res):
        report("shape", "shape:one-code-per-residue-per-frame", f"shape {full.shape} / {simp.shape} for {t.n_frames} frames x {n_res} residues",
               list(full.shape), [t.n_frames, n_res])
        return list(out.values()), stats
    # a complete residue that follows a residue with exactly one of C / O: its amide hydrogen is computed from an
    # out-of-bounds read (finding of C14), so kabsch_sander's answer is not a function of the frame: not comparable
    res = list(t.topology.residues)
    names = [{a.name for a in r.atoms} for r in res]
    half = [d for d in range(1, n_res) if ("C" in names[d - 1]) != ("O" in names[d - 1]) and {"N", "CA", "C", "O"} <= names[d]]
    if half:
        stats["skipped_half_carbonyl"] = True
        for f in range(t.n_frames):
            for r in range(n_res):
                m = str(full[f, r])
                # (two separate calls may see different memory: the simplified image is not comparable either)
                if (m == "NA") != (not {"N", "CA", "C", "O"} <= names[r]):
                    report("dssp-code", "NA:incomplete-residue", f"frame {f} residue {r} ({res[r]}): code {m!r}, backbone atoms present: "
                           f"{sorted(names[r] & {'N', 'CA', 'C', 'O'})}", m, "NA" if not {"N", "CA", "C", "O"} <= names[r] else "a DSSP code")
        return list(out.values()), stats
    inputs = frame_inputs(t)
    for f, inp in enumerate(inputs):
        codes, decided, runs = D.assign_all(inp)
        for r in range(n_res):
            m = str(full[f, r])
            if str(simp[f, r]) != D.SIMPLIFIED.get(m, "?"):
                report("simplified-image", f"simplified:{m!r}->{str(simp[f, r])!r}", f"frame {f} residue {r}: full code {m!r} but simplified code {str(simp[f, r])!r}",
                       str(simp[f, r]), D.SIMPLIFIED.get(m))
            if not decided[r]:
                stats["undecided"] += 1
                continue
            stats["compared"] += 1
            s = codes[r]
            stats["codes"][s] = stats["codes"].get(s, 0) + 1
            if m != s:
                detail = {}
                D.assign(inp, detail=detail, **D.VARIANTS[0])
                cat = _category(s, m, r, inp, detail)
                if f > 0:
                    cat_mf = cat + ":multi-frame"
                else:
                    cat_mf = cat
                lo, hi = max(0, r - 8), min(n_res, r + 9)
                report("dssp-code", cat_mf,
                       f"frame {f} of {t.n_frames}, residue {r} ({t.topology.residue(r)}): compute_dssp gives {m!r}, the DSSP rules applied to "
                       f"kabsch_sander's hydrogen bonds give {s!r}; residues {lo}..{hi - 1}: mdtraj "
                       f"{''.join(str(c) if c != 'NA' else '-' for c in full[f, lo:hi])!r} vs rules {''.join(c if c != 'NA' else '-' for c in codes[lo:hi])!r}",
                       "".join(str(c) if c != "NA" else "-" for c in full[f, lo:hi]), "".join(c if c != "NA" else "-" for c in codes[lo:hi]))
    return list(out.values()), stats


# --------------------------------------------------------------------------------------------------
PDBS_QUICK = [("native.pdb", {}), ("2koc.pdb", {"frames": [0, 1]}), ("2EQQ.pdb", {"frames": [0, 1, 2]}), ("1vii.pdb", {}), ("1bpi.pdb", {}), ("bpti.pdb", {}),
              ("aaqaa-wat.pdb", {}), ("1am7_protein.pdb", {}), ("4OH9.pdb", {}), ("1ncw.pdb.gz", {"protein_chains_only": True, "max_residues": 441}),
              ("3nch.pdb.gz", {"protein_chains_only": True, "max_residues": 200})]  # parallel ladders linked by a 4-residue bulge
PDBS_THOROUGH = PDBS_QUICK + [("1ncw.pdb.gz", {}), ("4ZUO.pdb", {}), ("1vii_sustiva_water.pdb", {"frames": [0, 2]}), ("frame0.h5", {"frames": [0, 250, 500]}),
                              ("2EQQ.pdb", {"frames": list(range(20))}), ("3nch.pdb.gz", {"max_residues": 700})]
GENERATED = [
    [[("alpha", 14)]], [[("310", 10)]], [[("pi", 14)]], [[("alpha", 8), ("pi", 7), ("alpha", 8)]], [[("alpha", 7), ("310", 5), ("alpha", 7)]],
    [[("pi", 8), ("alpha", 6), ("310", 6)]], [[("beta", 6), ("alpha", 10)], [("alpha", 12)]], [[("random", 25)]], [[("alpha", 5), ("pi", 12), ("310", 4), ("beta", 4)]],
    [[("alpha", 4), ("pi", 6), ("alpha", 4), ("pi", 6), ("alpha", 4)]],
]


def _cases(tier, seed):
    rng = np.random.RandomState(seed * 7727 + 3)
    cases = []
    pdbs = PDBS_QUICK if tier == "quick" else PDBS_THOROUGH
    n_var = 24 if tier == "quick" else 120
    for name, kw in pdbs:
        base = dict(pdb=name, **kw)
        cases.append(dict(base, ops=[]))
        big = name in ("4ZUO.pdb", "1ncw.pdb.gz", "3nch.pdb.gz", "1vii_sustiva_water.pdb", "frame0.h5") and not kw.get("max_residues")
        if "frames" in kw and len(kw["frames"]) > 5:
            continue
        for k in range((2 if tier == "quick" else 8) if big else n_var):
            ops = []
            if rng.rand() < 0.35:
                ops.append(("split",))
            if rng.rand() < 0.4:
                ops.append(("scale", float(rng.choice([0.97, 0.94, 0.9, 0.85]))))
            u = rng.rand()
            if u < 0.45:
                ops.append(("perturb", float(rng.choice([0.01, 0.02, 0.02, 0.03, 0.05, 0.1, 0.2])), int(rng.choice([1, 2, 3, 5])) if not big else 1))
            elif u < 0.85:
                ops.append(("warp", float(rng.choice([0.05, 0.1, 0.2, 0.3])), int(rng.choice([1, 2, 3, 5])) if not big else 1))
                if rng.rand() < 0.5:
                    ops.append(("perturb", float(rng.choice([0.01, 0.02])), 1 if big else int(rng.choice([1, 2]))))
            if rng.rand() < 0.4:
                ops.append(("delete", int(rng.choice([1, 2, 4]))))
            if rng.rand() < 0.35:
                ops.append(("interleave", int(rng.choice([1, 2, 4]))))
            b = dict(base)
            if "frames" in b and any(o[0] in ("perturb", "warp") for o in ops):
                b["frames"] = b["frames"][:1]
            cases.append(dict(b, ops=ops, seed=int(rng.randint(1 << 30))))
    for gi, chains in enumerate(GENERATED):
        for k in range(12 if tier == "quick" else 80):
            ops = []
            if k > 0:
                if rng.rand() < 0.5:
                    ops.append(("scale", float(rng.choice([0.97, 0.94, 0.9]))))
                if rng.rand() < 0.4:
                    ops.append(("warp", float(rng.choice([0.05, 0.1, 0.2])), int(rng.choice([1, 2, 4]))))
                else:
                    ops.append(("perturb", float(rng.choice([0.01, 0.02, 0.03, 0.05])), int(rng.choice([1, 2, 4]))))
                if rng.rand() < 0.3:
                    ops.append(("delete", 1))
                if rng.rand() < 0.3:
                    ops.append(("interleave", 1))
            cases.append({"gen_seed": int(seed * 1000 + gi * 20 + k), "chains": chains, "jitter": float(rng.choice([2.0, 5.0, 10.0])),
                          "ops": ops, "seed": int(rng.randint(1 << 30))})
    return cases


def _size(case):
    if "chains" in case:
        return sum(n for ch in case["chains"] for _, n in ch)
    return {"native.pdb": 3, "frame0.h5": 3, "2EQQ.pdb": 28, "1vii.pdb": 36, "1bpi.pdb": 58, "bpti.pdb": 58, "aaqaa-wat.pdb": 100,
            "1am7_protein.pdb": 158, "4OH9.pdb": 210, "2koc.pdb": 14}.get(case["pdb"], 2000)


def run(tier, seed, hint):
    from concurrent.futures import ProcessPoolExecutor

    cases = _cases(tier, seed)
    cases.sort(key=lambda c: (_size(c), len(c.get("ops", []))))
    chk = Check("dssp-rules", "md.compute_dssp, dssp.cpp: dssp/calculate_beta_sheets/calculate_alpha_helices/calculate_bends/_residue_test_bridge, dssp.py",
                bound=f"{len(cases)} trajectories: {len(PDBS_QUICK if tier == 'quick' else PDBS_THOROUGH)} structure files of /repo/tests/data (3-1703 residues, "
                      f"1-6 chains, with waters/ligands) and {len(GENERATED)} generated helix/strand combinations (alpha, 3-10, pi, beta, random; 1-2 chains), "
                      f"each unmodified and under seeded combinations of: chain split, compression 0.85-0.97, Gaussian displacement 0.01-0.2 nm or smooth warp of amplitude 0.05-0.3 nm x 1-5 frames, "
                      f"deletion of backbone atoms in 1-4 residues, 1-4 inserted water/ion residues; simplified in (False, True)",
                rule="every residue of every frame compared unless the variants of the spec's open points (geometric chain breaks, overlapping "
                     "bulge links, |kappa-70 deg| < 0.02) disagree on it; non-trivial = trajectory with at least 3 different codes compared",
                stands_in_for="C15 rule engine (calculate_beta_sheets / calculate_alpha_helices: std::deque/std::map/sort outside the C front-end)")
    with ProcessPoolExecutor(max_workers=min(16, os.cpu_count() or 1)) as pool:
        results = list(pool.map(evaluate, cases, chunksize=1))
    # context suffixes (":near-incomplete-residue", ":near-chain-boundary", ":multi-frame") single out defects that need that
    # context; when the same rule category also fails without the context it is the same finding
    def base(wc):
        for suf in (":multi-frame", ":near-incomplete-residue", ":near-chain-boundary"):
            wc = wc.replace(suf, "")
        return wc

    plain = {(clause, wc) for viol, _ in results for clause, wc, *_ in viol if wc == base(wc)}
    for case, (viol, stats) in zip(cases, results):
        if not viol:
            nt = None
            if len(stats.get("codes", {})) >= 3:
                nt = repr(sorted(case.items(), key=lambda kv: kv[0]))
            chk.ok(nontrivial=nt, sample={"case": case, "stats": stats})
            continue
        for clause, wc, what, obs, exp in viol:
            if (clause, base(wc)) in plain:
                wc = base(wc)
            elif wc.endswith(":multi-frame") and any(c == clause and w == wc[:-len(":multi-frame")] for v2, _ in results for c, w, *_ in v2):
                wc = wc[:-len(":multi-frame")]
            chk.fail(clause, wc, what, case, observed=obs, expected=exp)
    return [chk]


def replay(payload):
    inp = payload.get("input") or payload.get("failing_input")
    inp = dict(inp)
    inp["ops"] = [tuple(o) for o in inp.get("ops", [])]
    viol, stats = evaluate(inp)
    key = payload.get("key", "")
    def base(wc):
        for suf in (":multi-frame", ":near-incomplete-residue", ":near-chain-boundary"):
            wc = wc.replace(suf, "")
        return wc

    want = [v for v in viol if not key or v[1] in key or base(v[1]) in key] or viol
    if want:
        v = want[0]
        return {"reproduced": True, "clause": v[0], "witness_class": v[1], "what": v[2], "observed": v[3], "expected": v[4], "stats": stats}
    return {"reproduced": False, "stats": stats}
