"""C14 bounded contract check: md.baker_hubbard / md.wernet_nilsson / md.kabsch_sander against the
executable specifications in specs/hbond_ref.py (written from the docstrings, the property statement
and the cited papers).

Inputs (all generated from `seed`):
  * peptide systems: 1-2 chains of 3-9 residues built from internal coordinates (N, H, CA, C, O, CB, SER OG/HG,
    ASN OD1/ND2/HD21/HD22, PRO without H, charged or plain termini incl. OXT/H1-H3), helical / extended /
    random backbone angles, 0-4 bonded waters placed next to polar atoms, optionally a ligand with N-H, O-H, N and O;
  * 1-5 frames = independently perturbed copies (Gaussian displacement 0.003-0.04 nm), so bonds come and go;
  * cells: none / orthorhombic / triclinic, molecules shifted by whole lattice vectors (so that imaging matters);
  * kabsch_sander additionally: /repo/tests/data/2EQQ.pdb and 1bpi.pdb (and perturbed copies).
Comparison: spec `yes`  <=  mdtraj  <=  spec `yes | amb`  as sets (amb = within the stated margin of a threshold
or left open by the documentation; margins are derived in specs/hbond_ref.py).
"""
from __future__ import annotations

import os

import numpy as np

from bcc.api import Check
from specs import hbond_ref as H

DATA = "/repo/tests/data"


# --------------------------------------------------------------------------------------------------
# building peptides from internal coordinates
# --------------------------------------------------------------------------------------------------
def place(a, b, c, length, angle, torsion):
    """position of d with |cd| = length, angle(b, c, d) = angle, dihedral(a, b, c, d) = torsion (degrees)"""
    angle, torsion = np.radians(angle), np.radians(torsion)
    bc = c - b
    bc /= np.linalg.norm(bc)
    n = np.cross(b - a, bc)
    n /= np.linalg.norm(n)
    m = np.cross(n, bc)
    d2 = np.array([-length * np.cos(angle), length * np.sin(angle) * np.cos(torsion), length * np.sin(angle) * np.sin(torsion)])
    return c + d2[0] * bc + d2[1] * m + d2[2] * n


SS_ANGLES = {"alpha": (-57.0, -47.0), "310": (-49.0, -26.0), "pi": (-57.0, -70.0), "beta": (-120.0, 130.0), "ppii": (-75.0, 145.0)}


def build_chain(seq, phipsi, rng, nterm="plain", cterm="plain"):
    """-> (atoms, bonds): atoms = [(name, element, residue_number, xyz)], bonds over local atom indices"""
    n = len(seq)
    atoms, bonds = [], []
    idx = {}

    def add(res, name, elem, xyz):
        idx[(res, name)] = len(atoms)
        atoms.append((name, elem, res, np.asarray(xyz, float)))

    def bond(res1, n1, res2, n2):
        bonds.append((idx[(res1, n1)], idx[(res2, n2)]))

    def pos(res, name):
        return atoms[idx[(res, name)]][3]

    N = np.zeros(3)
    CA = np.array([0.1458, 0.0, 0.0])
    C = place(np.array([0.0, 0.1, 0.0]), N, CA, 0.1525, 111.0, phipsi[0][0])
    for i in range(n):
        phi, psi = phipsi[i]
        if i > 0:
            pN, pCA, pC = pos(i - 1, "N"), pos(i - 1, "CA"), pos(i - 1, "C")
            N = place(pN, pCA, pC, 0.1329, 116.2, phipsi[i - 1][1])
            CA = place(pCA, pC, N, 0.1458, 121.7, 180.0)
            C = place(pC, N, CA, 0.1525, 111.0, phi)
        add(i, "N", "N", N)
        add(i, "CA", "C", CA)
        add(i, "C", "C", C)
        add(i, "O", "O", place(N, CA, C, 0.1231, 120.5, psi + 180.0))
        bond(i, "N", i, "CA"), bond(i, "CA", i, "C"), bond(i, "C", i, "O")
        if i > 0:
            bond(i - 1, "C", i, "N")
        rn = seq[i]
        if i > 0 and rn != "PRO":
            u = (pos(i - 1, "C") - N) / np.linalg.norm(pos(i - 1, "C") - N) + (CA - N) / np.linalg.norm(CA - N)
            add(i, "H", "H", N - 0.101 * u / np.linalg.norm(u))
            bond(i, "N", i, "H")
        if i == 0:
            if nterm == "charged" and rn != "PRO":
                for nm, tor in (("H1", 60.0), ("H2", 180.0), ("H3", -60.0)):
                    add(i, nm, "H", place(C, CA, N, 0.101, 109.5, tor))
                    bond(i, "N", i, nm)
            elif nterm == "plain" and rn != "PRO":
                add(i, "H", "H", place(C, CA, N, 0.101, 119.0, 180.0))
                bond(i, "N", i, "H")
        if rn != "GLY":
            add(i, "CB", "C", place(C, N, CA, 0.153, 110.5, -122.5))
            bond(i, "CA", i, "CB")
        chi = rng.uniform(-180, 180, size=3)
        if rn == "SER":
            add(i, "OG", "O", place(N, CA, pos(i, "CB"), 0.1417, 111.0, chi[0]))
            add(i, "HG", "H", place(CA, pos(i, "CB"), pos(i, "OG"), 0.096, 108.5, chi[1]))
            bond(i, "CB", i, "OG"), bond(i, "OG", i, "HG")
        elif rn == "ASN":
            add(i, "CG", "C", place(N, CA, pos(i, "CB"), 0.152, 113.0, chi[0]))
            add(i, "OD1", "O", place(CA, pos(i, "CB"), pos(i, "CG"), 0.123, 120.5, chi[1]))
            add(i, "ND2", "N", place(CA, pos(i, "CB"), pos(i, "CG"), 0.133, 116.5, chi[1] + 180.0))
            add(i, "HD21", "H", place(pos(i, "CB"), pos(i, "CG"), pos(i, "ND2"), 0.101, 120.0, 0.0))
            add(i, "HD22", "H", place(pos(i, "CB"), pos(i, "CG"), pos(i, "ND2"), 0.101, 120.0, 180.0))
            bond(i, "CB", i, "CG"), bond(i, "CG", i, "OD1"), bond(i, "CG", i, "ND2"), bond(i, "ND2", i, "HD21"), bond(i, "ND2", i, "HD22")
        elif rn == "PRO":
            add(i, "CG", "C", place(N, CA, pos(i, "CB"), 0.150, 104.0, 30.0))
            add(i, "CD", "C", place(CA, pos(i, "CB"), pos(i, "CG"), 0.150, 105.0, -35.0))
            bond(i, "CB", i, "CG"), bond(i, "CG", i, "CD"), bond(i, "CD", i, "N")
        if i == n - 1 and cterm == "charged":
            add(i, "OXT", "O", place(N, CA, C, 0.125, 117.0, psi))
            bond(i, "C", i, "OXT")
    return atoms, bonds


def random_rotation(rng):
    q = rng.normal(size=4)
    q /= np.linalg.norm(q)
    a, b, c, d = q
    return np.array([[a * a + b * b - c * c - d * d, 2 * (b * c - a * d), 2 * (b * d + a * c)],
                     [2 * (b * c + a * d), a * a - b * b + c * c - d * d, 2 * (c * d - a * b)],
                     [2 * (b * d - a * c), 2 * (c * d + a * b), a * a - b * b - c * c + d * d]])


def water_at(rng, target, toward=True):
    """a water (O, H1, H2) whose oxygen sits 0.26-0.34 nm from `target`; one O-H roughly towards it if `toward`"""
    u = rng.normal(size=3)
    u /= np.linalg.norm(u)
    o = target + rng.uniform(0.26, 0.34) * u
    e1 = -u if toward else rng.normal(size=3)
    e1 = e1 + 0.25 * rng.normal(size=3)
    e1 /= np.linalg.norm(e1)
    t = np.cross(e1, rng.normal(size=3))
    t /= np.linalg.norm(t)
    ang = np.radians(104.52)
    h1 = o + 0.09572 * e1
    h2 = o + 0.09572 * (np.cos(ang) * e1 + np.sin(ang) * t)
    return [("O", "O", o), ("H1", "H", h1), ("H2", "H", h2)], [(0, 1), (0, 2)]


def ligand_at(rng, centre):
    c1 = np.zeros(3)
    c2 = np.array([0.152, 0.0, 0.0])
    ref = np.array([0.0, 0.1, 0.02])
    n1 = place(ref, c2, c1, 0.147, 110.0, rng.uniform(-180, 180))
    hn = place(c2, c1, n1, 0.101, 109.5, rng.uniform(-180, 180))
    o1 = place(ref, c2, c1, 0.143, 109.5, rng.uniform(-180, 180))
    ho = place(c2, c1, o1, 0.096, 108.5, rng.uniform(-180, 180))
    o2 = place(ref, c1, c2, 0.123, 120.0, rng.uniform(-180, 180))
    n2 = place(ref, c1, c2, 0.134, 116.0, rng.uniform(-180, 180))
    at = [("C1", "C", c1), ("C2", "C", c2), ("N1", "N", n1), ("HN1", "H", hn), ("O1", "O", o1), ("HO1", "H", ho), ("O2", "O", o2), ("N2", "N", n2)]
    Rm = random_rotation(rng)
    at = [(nm, el, centre + Rm @ x) for nm, el, x in at]
    return at, [(0, 1), (0, 2), (2, 3), (0, 4), (4, 5), (1, 6), (1, 7)]


RESNAMES = ["ALA", "GLY", "SER", "ASN", "PRO", "VAL", "LEU"]


def make_system(seed, n_chains=None, min_len=3, max_len=9, waters=None, ligand=None, ss=None):
    """-> dict(topology=md.Topology, xyz=(n_atoms,3) float64, desc=...) ; deterministic in seed.
    Chains: the peptides, plus one hetero chain (ligand, waters) that is placed last or -- in a third of the
    systems with >= 2 peptides -- between two peptide chains (so that a peptide chain follows non-protein residues)."""
    import mdtraj as md
    from mdtraj.core import element

    rng = np.random.RandomState(seed)
    n_chains = n_chains if n_chains is not None else int(rng.choice([1, 1, 2, 2, 3]))
    polar = []
    desc = {"seed": int(seed), "chains": []}
    chains = []          # each: list of residues (resname, resSeq, [(name, elem, xyz)], [(i, j)] local bonds)
    for ci in range(n_chains):
        n = int(rng.randint(min_len, max_len + 1))
        seq = [RESNAMES[k] for k in rng.choice(len(RESNAMES), size=n, p=[0.25, 0.15, 0.15, 0.1, 0.15, 0.1, 0.1])]
        kind = ss if ss is not None else rng.choice(["alpha", "beta", "random", "alpha", "ppii", "310", "pi"])
        if kind == "random":
            phipsi = [(rng.uniform(-180, 180), rng.uniform(-180, 180)) for _ in range(n)]
        else:
            phi0, psi0 = SS_ANGLES[kind]
            phipsi = [(phi0 + rng.normal(0, 6), psi0 + rng.normal(0, 6)) for _ in range(n)]
        nterm = rng.choice(["plain", "charged", "none"])
        cterm = rng.choice(["plain", "charged"])
        atoms, bonds = build_chain(seq, phipsi, rng, nterm, cterm)
        X = np.array([a[3] for a in atoms])
        X = (X - X.mean(0)) @ random_rotation(rng).T
        if ci > 0:
            u = rng.normal(size=3)
            X = X + rng.uniform(0.45, 0.85) * u / np.linalg.norm(u)
        chains.append({"kind": "peptide", "seq": seq, "atoms": [(nm, el, ri, x) for (nm, el, ri, _), x in zip(atoms, X)], "bonds": bonds})
        polar.extend(x for (nm, el, ri, _), x in zip(atoms, X) if el in ("N", "O", "H"))
        desc["chains"].append({"seq": seq, "ss": str(kind), "nterm": str(nterm), "cterm": str(cterm)})
    n_w = waters if waters is not None else int(rng.choice([0, 1, 2, 3, 4]))
    with_lig = ligand if ligand is not None else bool(rng.rand() < 0.4)
    het_atoms, het_bonds, het_names = [], [], []
    if with_lig:
        at, bd = ligand_at(rng, polar[rng.randint(len(polar))] + rng.normal(0, 0.2, size=3))
        het_names.append("LIG")
        het_atoms.extend((nm, el, 0, x) for nm, el, x in at)
        het_bonds.extend(bd)
        polar.extend(x for nm, el, x in at if el != "C")
    for w in range(n_w):
        at, bd = water_at(rng, polar[rng.randint(len(polar))], toward=rng.rand() < 0.6)
        off = len(het_atoms)
        het_names.append("HOH")
        het_atoms.extend((nm, el, len(het_names) - 1, x) for nm, el, x in at)
        het_bonds.extend((off + i, off + j) for i, j in bd)
        polar.extend(x for _, _, x in at)
    het_middle = bool(rng.rand() < 0.34) and n_chains >= 2
    if het_names:
        het = {"kind": "hetero", "seq": het_names, "atoms": het_atoms, "bonds": het_bonds}
        if het_middle:
            chains.insert(1, het)
        else:
            chains.append(het)
    top = md.Topology()
    coords = []
    for c in chains:
        ch = top.add_chain()
        res_objs, objs = {}, []
        for nm, el, ri, x in c["atoms"]:
            if ri not in res_objs:
                res_objs[ri] = top.add_residue(c["seq"][ri], ch, resSeq=(ri + 1 if c["kind"] == "peptide" else 900 + ri))
            objs.append(top.add_atom(nm, element.get_by_symbol(el), res_objs[ri]))
            coords.append(x)
        for i, j in c["bonds"]:
            top.add_bond(objs[i], objs[j])
    desc.update(waters=n_w, ligand=with_lig, hetero_between_peptides=het_middle and bool(het_names))
    return {"topology": top, "xyz": np.array(coords), "desc": desc}


CELLS = {"none": None, "ortho": ([3.0, 3.5, 4.0], [90.0, 90.0, 90.0]), "ortho-small": ([2.0, 2.2, 2.4], [90.0, 90.0, 90.0]),
         "triclinic": ([3.0, 3.2, 3.4], [80.0, 95.0, 110.0]), "triclinic-skewed": ([2.6, 2.8, 3.0], [70.0, 75.0, 65.0])}


def make_traj(sys_seed, n_frames, sigma, cell, frame_seed, shift=True, **kw):
    """trajectory of independently perturbed copies; molecules lattice-shifted when a cell is present"""
    import mdtraj as md

    s = make_system(sys_seed, **kw)
    top, x0 = s["topology"], s["xyz"]
    rng = np.random.RandomState(frame_seed)
    xyz = np.array([x0 + rng.normal(0, sigma, size=x0.shape) for _ in range(n_frames)])
    xyz += 1.5 - xyz.mean(axis=(0, 1))
    box = None
    kwargs = {}
    if CELLS[cell] is not None:
        lengths, angles = CELLS[cell]
        B = H.box_matrix(lengths, angles)
        if shift:
            mols = top.find_molecules()
            for f in range(n_frames):
                for mol in mols:
                    ii = [a.index for a in mol]
                    xyz[f, ii] += rng.randint(-1, 2, size=3) @ B
        kwargs = {"unitcell_lengths": np.tile(lengths, (n_frames, 1)), "unitcell_angles": np.tile(angles, (n_frames, 1))}
    t = md.Trajectory(xyz.astype(np.float32), top, **kwargs)
    if CELLS[cell] is not None:
        box = np.asarray(t.unitcell_vectors, float)
    return t, box, s["desc"]


def topo_table(top):
    return {"symbol": [a.element.symbol for a in top.atoms], "name": [a.name for a in top.atoms],
            "resname": [a.residue.name for a in top.atoms], "resid": [a.residue.index for a in top.atoms],
            "chain": [a.residue.chain.index for a in top.atoms], "bonds": [(b[0].index, b[1].index) for b in top.bonds]}


def residue_table(top):
    out = []
    for r in top.residues:
        d = {"pro": r.name == "PRO", "chain": r.chain.index}
        for nm in ("N", "CA", "C", "O"):
            hits = [a.index for a in r.atoms if a.name == nm]
            d[nm] = hits[0] if hits else None
        out.append(d)
    return out


# --------------------------------------------------------------------------------------------------
# Baker-Hubbard / Wernet-Nilsson
# --------------------------------------------------------------------------------------------------
def _triplet_reason(tr, topo, exclude_water, sidechain_only):
    d, h, a = tr
    sym, name, rn = topo["symbol"], topo["name"], topo["resname"]
    bonded = (d, h) in topo["_bondset"] or (h, d) in topo["_bondset"]
    if not bonded or sym[h] != "H" or sym[d] not in ("N", "O"):
        return "donor-not-a-bonded-N-H-or-O-H"
    if sym[a] not in ("N", "O"):
        return "acceptor-not-N-or-O"
    if d == a:
        return "donor-is-acceptor"
    if exclude_water and any(rn[i] in H.WATER_NAMES for i in tr):
        return "water-despite-exclude_water"
    if sidechain_only and any(rn[i] not in H.PROTEIN_NAMES or name[i] in H.BACKBONE_NAMES for i in tr):
        return "non-sidechain-despite-sidechain_only"
    return None


def _params_iter(tier, rng, n):
    freqs = [0.0, 0.3, 0.5, 1.0, 0.1]
    for k in range(n):
        yield {"freq": float(freqs[k % 5]), "exclude_water": bool(rng.rand() < 0.5), "sidechain_only": bool(rng.rand() < 0.25),
               "periodic": bool(rng.rand() < 0.7),
               "distance_cutoff": float(rng.choice([0.25, 0.25, 0.2, 0.3, 0.35])), "angle_cutoff": float(rng.choice([120.0, 120.0, 90.0, 150.0, 100.0]))}


def _case(case):
    """case dict -> (traj, box, topo_table)"""
    t, box, desc = make_traj(case["sys_seed"], case["n_frames"], case["sigma"], case["cell"], case["frame_seed"])
    topo = topo_table(t.topology)
    topo["_bondset"] = set(topo["bonds"])
    return t, box, topo


def bh_eval(case):
    """-> None | (clause, witness_class, what, observed, expected)"""
    import mdtraj as md

    t, box, topo = _case(case)
    p = case["params"]
    x = np.asarray(t.xyz, float)
    try:
        got = md.baker_hubbard(t, **p)
    except Exception as e:
        if not any(True for _ in t.topology.bonds):
            return None, {}
        return ("baker_hubbard-raises", f"baker_hubbard:{type(e).__name__}", f"baker_hubbard raised {type(e).__name__}: {e}", repr(e), None), {}
    got = {tuple(int(v) for v in r) for r in np.asarray(got).reshape(-1, 3)}
    yes, amb = H.baker_hubbard_ref(x, box, topo, **p)
    stats = {"n_yes": len(yes), "n_amb": len(amb), "n_got": len(got)}
    missing, extra = sorted(yes - got), sorted(got - yes - amb)
    if not missing and not extra:
        return None, stats
    kind, tr = ("missing", missing[0]) if missing else ("extra", extra[0])
    reason = _triplet_reason(tr, topo, p["exclude_water"], p["sidechain_only"])
    if reason is None:
        # geometry / frequency
        tt, g = H._geometry(x, box, [tr], p["periodic"])
        F = x.shape[0]
        present = (g["r_ha"][:, 0] < p["distance_cutoff"]) & (g["cos_theta"][:, 0] < np.cos(np.radians(p["angle_cutoff"])))
        k = int(present.sum())
        if abs(k / F - p["freq"]) < 1e-12:
            reason = "frequency:tie(k/n == freq)"
        elif (k / F > p["freq"]) == (kind == "missing"):
            reason = "frequency" if F > 1 else "criterion"
            if g["imaged"][:, 0].any():
                reason += ":across-periodic-boundary:" + case["cell"]
            dist_only = (g["r_ha"][:, 0] < p["distance_cutoff"])
            if F == 1:
                reason += ":distance" if not dist_only[0] == (kind == "missing") else ":angle"
        else:
            reason = "other"
    wc = f"baker_hubbard:{kind}:{reason}"
    what = (f"baker_hubbard({p}) on system {case['sys_seed']} ({case['n_frames']} frames, cell {case['cell']}): "
            f"{len(missing)} triplets required by the definition are missing, {len(extra)} reported ones do not meet it; e.g. {kind} {tr}")
    return ("baker_hubbard-set", wc, what, sorted(got)[:20], sorted(yes)[:20]), stats


def wn_eval(case):
    import mdtraj as md

    t, box, topo = _case(case)
    p = {k: case["params"][k] for k in ("exclude_water", "periodic", "sidechain_only")}
    x = np.asarray(t.xyz, float)
    try:
        got = md.wernet_nilsson(t, **p)
    except Exception as e:
        return ("wernet_nilsson-raises", f"wernet_nilsson:{type(e).__name__}", f"wernet_nilsson raised {type(e).__name__}: {e}", repr(e), None), {}
    ref = H.wernet_nilsson_ref(x, box, topo, **p)
    stats = {"n_yes": sum(len(y) for y, _ in ref), "n_amb": sum(len(a) for _, a in ref)}
    if len(got) != x.shape[0]:
        return ("wernet_nilsson-shape", "wernet_nilsson:one-list-per-frame", f"{len(got)} lists for {x.shape[0]} frames", len(got), x.shape[0]), stats
    for f, (g, (yes, amb)) in enumerate(zip(got, ref)):
        g = {tuple(int(v) for v in r) for r in np.asarray(g).reshape(-1, 3)}
        missing, extra = sorted(yes - g), sorted(g - yes - amb)
        if missing or extra:
            kind, tr = ("missing", missing[0]) if missing else ("extra", extra[0])
            reason = _triplet_reason(tr, topo, p["exclude_water"], p["sidechain_only"])
            if reason is None:
                tt, gg = H._geometry(x[f:f + 1], None if box is None else box[f:f + 1], [tr], p["periodic"])
                reason = "cone-criterion" + (":across-periodic-boundary:" + case["cell"] if gg["imaged"][0, 0] else "") \
                    + (":multi-frame" if x.shape[0] > 1 and f > 0 else "")
            what = (f"wernet_nilsson({p}) on system {case['sys_seed']} frame {f} of {case['n_frames']}, cell {case['cell']}: "
                    f"{len(missing)} missing, {len(extra)} not meeting r_DA < 0.33 - 0.000044 delta^2; e.g. {kind} {tr}")
            return ("wernet_nilsson-set", f"wernet_nilsson:{kind}:{reason}", what, sorted(g)[:20], sorted(yes)[:20]), stats
    return None, stats


# --------------------------------------------------------------------------------------------------
# Kabsch-Sander
# --------------------------------------------------------------------------------------------------
def ks_traj(case):
    import mdtraj as md

    if case.get("pdb"):
        t = md.load(os.path.join(DATA, case["pdb"]))
        if case.get("n_residues"):
            t = t.atom_slice([a.index for a in t.topology.atoms if a.residue.index < case["n_residues"]])
        rng = np.random.RandomState(case["frame_seed"])
        x0 = np.asarray(t.xyz[0], float)
        xyz = np.array([x0 + rng.normal(0, case["sigma"], size=x0.shape) for _ in range(case["n_frames"])])
        return md.Trajectory(xyz.astype(np.float32), t.topology)
    t, _, _ = make_traj(case["sys_seed"], case["n_frames"], case["sigma"], "none", case["frame_seed"],
                        **{k: case[k] for k in ("n_chains", "min_len", "max_len", "ss") if k in case})
    if case.get("delete_seed") is not None:
        # remove one backbone atom (N, CA, C or O) from one or two protein residues
        rng = np.random.RandomState(case["delete_seed"])
        prot = [r for r in t.topology.residues if r.name in H.PROTEIN_NAMES]
        drop = set()
        for r in [prot[i] for i in rng.choice(len(prot), size=min(len(prot), int(rng.randint(1, 3))), replace=False)]:
            nm = str(rng.choice(["N", "CA", "C", "O", "C", "O"]))
            drop.update(a.index for a in r.atoms if a.name == nm)
        t = t.atom_slice([i for i in range(t.n_atoms) if i not in drop])
    return t


def ks_eval(case):
    """-> (list of violations (one per witness class), stats)"""
    import mdtraj as md

    t = ks_traj(case)
    res = residue_table(t.topology)
    n = len(res)
    x = np.asarray(t.xyz, float)
    try:
        got = md.kabsch_sander(t)
    except Exception as e:
        return [("kabsch_sander-raises", f"kabsch_sander:{type(e).__name__}", f"kabsch_sander raised {type(e).__name__}: {e}", repr(e), None)], {}
    stats = {"n_bonds": 0, "n_amb_donors": 0}
    if len(got) != x.shape[0]:
        return [("kabsch_sander-shape", "kabsch_sander:one-matrix-per-frame", f"{len(got)} matrices for {x.shape[0]} frames", len(got), x.shape[0])], stats
    starts = H.chain_start_residues(res)
    src = case.get("pdb") or f"system {case.get('sys_seed')}"
    out = {}

    def report(clause, wc, what, obs, exp):
        # a read before the start of the coordinate array (frame 0) returns arbitrary memory: such a witness may not replay;
        # in later frames the same read lands in the previous frame and is deterministic -> preferred witness
        det = not ("out-of-bounds" in wc and f == 0)
        if (clause, wc) not in out or (det and not out[(clause, wc)][5]):
            out[(clause, wc)] = (clause, wc, what, obs, exp, det)

    for f in range(x.shape[0]):
        m = got[f]
        if m.shape != (n, n):
            report("kabsch_sander-shape", "kabsch_sander:matrix-shape", f"matrix {m.shape} for {n} residues", list(m.shape), [n, n])
            continue
        coo = m.tocoo()
        obs = {(int(i), int(j)): float(v) for i, j, v in zip(coo.row, coo.col, coo.data)}
        ref, amb = H.kabsch_sander_ref(x[f], res)
        stats["n_bonds"] += len(ref)
        stats["n_amb_donors"] += len(amb)
        where = f"{src}, frame {f} of {x.shape[0]}"
        mf = ":multi-frame" if f > 0 else ""
        for (a, d), e in sorted(obs.items()):
            if d in amb:
                continue
            if (a, d) not in ref:
                if d in starts:
                    wc = "kabsch_sander:extra:donor-is-first-residue-of-a-later-chain(hydrogen-built-from-previous-chain)"
                elif res[d]["pro"]:
                    wc = "kabsch_sander:extra:proline-donor"
                elif a == d - 1 or a == d:
                    wc = "kabsch_sander:extra:acceptor-is-donor-or-preceding-residue"
                elif any(res[k][nm] is None for k in (a, d) for nm in ("N", "CA", "C", "O")):
                    wc = "kabsch_sander:extra:incomplete-residue"
                elif d > 0 and (res[d - 1]["C"] is None or res[d - 1]["O"] is None):
                    wc = "kabsch_sander:extra:donor-follows-residue-lacking-C-or-O(hydrogen-built-from-out-of-bounds-read)"
                else:
                    wc = "kabsch_sander:extra:energy-or-best-two" + mf
                report("kabsch_sander-set", wc, f"{where}: reports C=O({a}) .. H-N({d}) with E = {e:.4f}; the definition gives no such bond",
                       {f"{a}->{d}": e}, {f"{k[0]}->{k[1]}": round(v, 4) for k, v in ref.items() if k[1] == d})
            elif abs(ref[(a, d)] - e) > H.E_TOL:
                report("kabsch_sander-energy", "kabsch_sander:energy-value" + mf,
                       f"{where}: E(C=O({a}) .. H-N({d})) = {e:.4f}, formula gives {ref[(a, d)]:.4f}", e, ref[(a, d)])
        for (a, d), e in sorted(ref.items()):
            if (a, d) not in obs:
                report("kabsch_sander-set", "kabsch_sander:missing" + mf,
                       f"{where}: bond C=O({a}) .. H-N({d}) with E = {e:.4f} < -0.5 (among the best two of donor {d}) is not reported",
                       {f"{k[0]}->{k[1]}": round(v, 4) for k, v in obs.items() if k[1] == d}, {f"{a}->{d}": round(e, 4)})
    return list(out.values()), stats


# --------------------------------------------------------------------------------------------------
def _cases(tier, seed):
    rng = np.random.RandomState(seed * 9973 + 17)
    n_sys = 400 if tier == "quick" else 4000
    bh = []
    for k in range(n_sys):
        sys_seed = int(seed * 100000 + k)
        n_frames = int(rng.choice([1, 2, 3, 4, 5]))
        base = {"sys_seed": sys_seed, "n_frames": n_frames, "sigma": float(rng.choice([0.003, 0.01, 0.02, 0.04])),
                "cell": str(rng.choice(["none", "ortho", "triclinic", "ortho-small", "triclinic-skewed"])), "frame_seed": int(rng.randint(1 << 30))}
        for p in _params_iter(tier, rng, 3 if tier == "quick" else 5):
            bh.append(dict(base, params=p))
    ks = []
    for k in range(300 if tier == "quick" else 3000):
        ks.append({"sys_seed": int(seed * 100000 + 50000 + k), "n_frames": int(rng.choice([1, 2, 3, 5])),
                   "sigma": float(rng.choice([0.0, 0.005, 0.02, 0.05])), "frame_seed": int(rng.randint(1 << 30)),
                   "n_chains": int(rng.choice([1, 2, 2, 3])), "min_len": 4, "max_len": 12,
                   "ss": str(rng.choice(["alpha", "alpha", "310", "pi", "beta", "random"])),
                   "delete_seed": int(rng.randint(1 << 30)) if k % 4 == 3 else None})
    ks.sort(key=lambda c: (c["n_frames"], c["n_chains"]))          # small witnesses first
    for pdb in ("2EQQ.pdb", "1bpi.pdb"):
        for sigma in ([0.0, 0.02] if tier == "quick" else [0.0, 0.005, 0.01, 0.02, 0.05, 0.1]):
            ks.append({"pdb": pdb, "n_frames": 1 if sigma == 0 else (2 if tier == "quick" else 4), "sigma": sigma, "frame_seed": int(rng.randint(1 << 30))})
    return bh, ks


def _run(fn, cases, chk, pool, nontrivial_key):
    results = list(pool.map(fn, cases, chunksize=4)) if pool is not None else [fn(c) for c in cases]
    # witnesses that depend on memory outside the coordinate array are reported only if no deterministic one exists
    order = sorted(range(len(cases)), key=lambda i: any(len(x) > 5 and not x[5] for x in results[i][0]) if isinstance(results[i][0], list) else False)
    cases, results = [cases[i] for i in order], [results[i] for i in order]
    for case, (v, stats) in zip(cases, results):
        if isinstance(v, list):
            for clause, wc, what, obs, exp, *_ in v:
                # ":multi-frame" marks a defect seen only in later frames; the same class already seen in a first frame is the same finding
                if wc.endswith(":multi-frame") and f"bcc:{clause}:{wc[:-len(':multi-frame')]}" in chk._fail_keys:
                    wc = wc[:-len(":multi-frame")]
                chk.fail(clause, wc, what, case, observed=obs, expected=exp)
            if v:
                continue
            v = None
        if v is None:
            nt = None
            if stats.get(nontrivial_key, 0) > 0:
                nt = (case.get("sys_seed", case.get("pdb")), case["frame_seed"], repr(sorted(case.get("params", {}).items())))
            chk.ok(nontrivial=nt, sample={k: case[k] for k in case if k != "params"} | {"stats": stats})
        else:
            clause, wc, what, obs, exp = v
            chk.fail(clause, wc, what, case, observed=obs, expected=exp)


def run(tier, seed, hint):
    from concurrent.futures import ProcessPoolExecutor

    bh_cases, ks_cases = _cases(tier, seed)
    n_sys = len({c["sys_seed"] for c in bh_cases})
    space = (f"{n_sys} generated systems (1-3 chains of 3-9 residues incl. PRO/SER/ASN/GLY, termini plain/charged/none, 0-4 waters, "
             f"ligand in 40%) x 1-5 independently perturbed frames (sigma 0.003-0.04 nm) x cell in none / 2 orthorhombic / 2 triclinic (incl. 70,75,65 deg) with "
             f"lattice-shifted molecules")
    c1 = Check("baker-hubbard", "md.baker_hubbard, hbond._get_bond_triplets, hbond._compute_bounded_geometry, compute_distances",
               bound=space + f" x {len(bh_cases) // n_sys} parameter sets each (freq in 0,0.1,0.3,0.5,1; distance_cutoff in 0.2-0.35; "
                             f"angle_cutoff in 90-150; exclude_water, sidechain_only, periodic random) = {len(bh_cases)} calls",
               rule="seeded random generation; triplets within DIST_MARGIN=1e-5 nm / COS_MARGIN=5e-4 of a threshold in a frame are "
                    "three-valued; non-trivial = at least one hydrogen bond required by the definition",
               stands_in_for="C14 Baker-Hubbard obligations (float32 kernels behind compute_distances)")
    c2 = Check("wernet-nilsson", "md.wernet_nilsson, hbond._get_bond_triplets, hbond._compute_bounded_geometry",
               bound=space + f"; exclude_water, sidechain_only, periodic as drawn for baker-hubbard = {len(bh_cases)} calls",
               rule="per frame set comparison; WN_MARGIN=2e-4 nm on (0.33 - 0.000044 delta^2 - r_DA); triplets with delta >= 44.9 deg are "
                    "three-valued (the 45 degree limit is not in the docstring); non-trivial = at least one bond",
               stands_in_for="C14 Wernet-Nilsson obligations")
    c3 = Check("kabsch-sander", "md.kabsch_sander, geometry.cpp:kabsch_sander/ks_assign_hydrogens/ks_donor_acceptor/store_energies",
               bound=f"{sum(1 for c in ks_cases if 'pdb' not in c)} generated systems (1-3 chains of 4-12 residues, alpha/3-10/pi/beta/random "
                     f"backbones, prolines, waters/ligand as extra residues (last or between peptide chains), a backbone atom deleted in 1-2 residues of every 4th system) x 1-5 frames x sigma 0-0.05 nm; 2EQQ.pdb and "
                     f"1bpi.pdb unperturbed and perturbed (sigma up to {'0.02' if tier == 'quick' else '0.1'} nm) = {len(ks_cases)} calls",
               rule="per frame: every reported (acceptor, donor) entry must be a bond of the definition with |dE| <= 5e-3, every definite "
                    "bond must be reported; donors with a candidate within E_MARGIN=5e-3 of -0.5 / of the third best, or beyond the "
                    "9 A CA prefilter of the DSSP program, are skipped; non-trivial = at least one bond",
               stands_in_for="C14 Kabsch-Sander obligations (SSE kernel)")
    with ProcessPoolExecutor(max_workers=min(16, os.cpu_count() or 1)) as pool:
        _run(bh_eval, bh_cases, c1, pool, "n_yes")
        _run(wn_eval, bh_cases, c2, pool, "n_yes")
        _run(ks_eval, ks_cases, c3, pool, "n_bonds")
    return [c1, c2, c3]


def replay(payload):
    inp = payload.get("input") or payload.get("failing_input")
    key = payload.get("key", "")
    out = {}
    fns = {"baker": bh_eval, "wernet": wn_eval, "kabsch": ks_eval}
    todo = [f for k, f in fns.items() if k in key] or ([ks_eval] if "params" not in inp else [bh_eval, wn_eval])
    for fn in todo:
        v, stats = fn(inp)
        if isinstance(v, list):
            want = [x for x in v if not key or x[1] in key] or v
            v = want[0] if want else None
        if v is not None:
            return {"reproduced": True, "clause": v[0], "witness_class": v[1], "what": v[2], "observed": v[3], "expected": v[4]}
        out[fn.__name__] = stats
    return {"reproduced": False, "stats": out}
