"""C09 bounded contract check: observables are unchanged by rigid motion (non-periodic systems) and by per-atom
lattice translations / whole-system translations (periodic systems).

Every observable of the statement is evaluated on the real code before and after transforming Trajectory.xyz:
  non-periodic: 20 proper rotations, each combined with a translation of 1, 50 or 300 nm in a random direction, plus
                pure translations of 1, 50 and 300 nm;  a 23-residue peptide (helix + turn + strand, backbone + H + CB,
                3 frames) so that hydrogen bonds, DSSP codes and contacts are non-trivial;
  periodic:     every C05 cell family; per-atom integer lattice shifts in [-3,3]^3, a whole-system translation by a
                random vector of up to two cell diagonals, and both together; small bonded molecules.

Tolerances.  delta = max(1e-5, 8 ulp32(|x|max)) nm is the tolerance on any interatomic distance (the transformed
coordinates are re-rounded to float32: each coordinate moves by <= ulp32/2, kernels add a few roundings of the same
size).  Derived quantities get the propagated tolerance stated next to each observable below.  Discrete outputs
(hydrogen bonds, DSSP codes, neighbour sets) are compared as sets after removing the items whose underlying continuous
quantity (computed here in float64 from the definition) lies within the propagated tolerance of a decision threshold
in the original or the transformed coordinates.
"""
import numpy as np

import mdtraj as md
from mdtraj.core import element as elem
from bcc.api import Check
from bcc import c07
from bcc.c05 import cell_class
from specs import lattice as L

PI = np.pi
SF = ("translation/rotation homogeneity of asa_frame, kabsch_sander, dssp, _compute_rg_xyz, compute_gyration_tensor, dridkernels.cpp, "
      "neighbors.cpp, neighborlist.cpp and the dist/angle/dihedral kernels (float32)")


# ------------------------------------------------------------------------------------------------
# a peptide with real secondary structure
# ------------------------------------------------------------------------------------------------

def build_peptide(seed, n_frames=3):
    rng = np.random.default_rng([int(seed), 909])
    nres = 23
    names = ["ALA"] * nres
    for k in (3, 13, 19):
        names[k] = "GLY"
    names[14] = "PRO"
    phi0 = np.array([-57.0] * 12 + [-80.0, 70.0, -70.0] + [-120.0] * 8)
    psi0 = np.array([-47.0] * 12 + [150.0, 20.0, 140.0] + [130.0] * 8)
    top = md.Topology()
    ch = top.add_chain()
    per_res = []
    for i, nm in enumerate(names):
        res = top.add_residue(nm, ch, resSeq=i + 1)
        atoms = ["N"] + (["H"] if nm != "PRO" else []) + ["CA"] + (["CB"] if nm != "GLY" else []) + ["C", "O"]
        d = {}
        for a in atoms:
            d[a] = top.add_atom(a, {"N": elem.nitrogen, "H": elem.hydrogen, "C": elem.carbon, "O": elem.oxygen}[a[0]], res)
        per_res.append(d)
    for i, d in enumerate(per_res):
        top.add_bond(d["N"], d["CA"])
        top.add_bond(d["CA"], d["C"])
        top.add_bond(d["C"], d["O"])
        if "H" in d:
            top.add_bond(d["N"], d["H"])
        if "CB" in d:
            top.add_bond(d["CA"], d["CB"])
        if i + 1 < nres:
            top.add_bond(d["C"], per_res[i + 1]["N"])
    xyz = np.zeros((n_frames, top.n_atoms, 3))
    rad = np.radians
    for f in range(n_frames):
        phi = rad(phi0 + rng.normal(0, 4.0, nres) + 6.0 * f)
        psi = rad(psi0 + rng.normal(0, 4.0, nres) - 5.0 * f)
        N = [np.array([0.0, 0.0, 0.0])]
        CA = [np.array([0.1458, 0.0, 0.0])]
        C = [c07.nerf(np.array([0.0, 0.1, 0.0]), N[0], CA[0], 0.1525, rad(111.0), phi[0])]
        for i in range(1, nres):
            N.append(c07.nerf(N[i - 1], CA[i - 1], C[i - 1], 0.1329, rad(116.2), psi[i - 1]))
            CA.append(c07.nerf(CA[i - 1], C[i - 1], N[i], 0.1458, rad(121.7), PI))
            C.append(c07.nerf(C[i - 1], N[i], CA[i], 0.1525, rad(111.0), phi[i]))
        for i, d in enumerate(per_res):
            xyz[f, d["N"].index], xyz[f, d["CA"].index], xyz[f, d["C"].index] = N[i], CA[i], C[i]
            nxt = N[i + 1] if i + 1 < nres else c07.nerf(N[i], CA[i], C[i], 0.1329, rad(116.2), psi[i])
            xyz[f, d["O"].index] = c07.nerf(nxt, CA[i], C[i], 0.1231, rad(120.8), PI)
            if "H" in d:
                prev = C[i - 1] if i else N[i] + np.array([-0.05, 0.1, 0.03])
                u = (N[i] - prev) / np.linalg.norm(N[i] - prev) + (N[i] - CA[i]) / np.linalg.norm(N[i] - CA[i])
                xyz[f, d["H"].index] = N[i] + 0.101 * u / np.linalg.norm(u)
            if "CB" in d:
                xyz[f, d["CB"].index] = c07.nerf(C[i], N[i], CA[i], 0.1521, rad(110.1), rad(-122.6))
        xyz[f] += rng.normal(0, 0.002, size=xyz[f].shape)
        xyz[f] -= xyz[f].mean(0)
    t = md.Trajectory(xyz.astype(np.float32), top)
    return t, per_res


def transformed(t, R, tvec):
    x = t.xyz.astype(np.float64) @ R.T + tvec
    kw = {}
    if t.unitcell_lengths is not None:
        kw = dict(unitcell_lengths=t.unitcell_lengths.copy(), unitcell_angles=t.unitcell_angles.copy())
    return md.Trajectory(x.astype(np.float32), t.topology, time=t.time.copy(), **kw)


# ------------------------------------------------------------------------------------------------
# float64 definitions used for margins (never as the value under test)
# ------------------------------------------------------------------------------------------------

def ks_spec(x, per_res):
    """Kabsch-Sander energies from the DSSP definition, float64: E[d, a] for donor NH of residue d, acceptor CO of
    residue a; amide H placed 0.1 nm from N along the direction O(d-1)->C(d-1).  Also the sensitivity
    S[d, a] = 2.7888 * sum 1/r^2 over the four distances (|dE| <= S * (change of a distance))."""
    n = len(per_res)
    E = np.full((n, n), np.nan)
    S = np.zeros((n, n))
    H = {}
    for d in range(1, n):
        pc, po = x[per_res[d - 1]["C"].index], x[per_res[d - 1]["O"].index]
        H[d] = x[per_res[d]["N"].index] + 0.1 * (pc - po) / np.linalg.norm(pc - po)
    for d in range(1, n):
        if per_res[d]["N"].residue.name == "PRO":
            continue
        rn = x[per_res[d]["N"].index]
        for a in range(n):
            if a == d:
                continue
            rc, ro = x[per_res[a]["C"].index], x[per_res[a]["O"].index]
            r = np.array([np.linalg.norm(ro - rn), np.linalg.norm(rc - H[d]), np.linalg.norm(ro - H[d]), np.linalg.norm(rc - rn)])
            E[d, a] = max(2.7888 * (1 / r[0] + 1 / r[1] - 1 / r[2] - 1 / r[3]), -9.9)
            S[d, a] = 2.7888 * (1 / r ** 2).sum()
    return E, S


def ca_matrix(x, per_res):
    ca = x[[d["CA"].index for d in per_res]]
    return np.linalg.norm(ca[:, None] - ca[None, :], axis=-1)


# ------------------------------------------------------------------------------------------------
# non-periodic observables
# ------------------------------------------------------------------------------------------------

class NonPeriodic:
    def __init__(self, seed):
        self.t, self.per_res = build_peptide(seed)
        t = self.t
        rng = np.random.default_rng([int(seed), 910])
        n = t.n_atoms
        self.pairs = np.array([rng.choice(n, 2, replace=False) for _ in range(80)])
        nb = {}
        for a, b in t.topology.bonds:
            nb.setdefault(a.index, []).append(b.index)
            nb.setdefault(b.index, []).append(a.index)
        self.trip = np.array([(a, b, c) for b in nb for i, a in enumerate(nb[b]) for c in nb[b][i + 1:]] + [tuple(rng.choice(n, 3, replace=False)) for _ in range(20)])
        self.quart = np.vstack([md.geometry.indices_phi(t.topology), md.geometry.indices_psi(t.topology), md.geometry.indices_omega(t.topology),
                                np.array([rng.choice(n, 4, replace=False) for _ in range(10)])])
        self.res_pairs = np.array([(i, j) for i in range(t.n_residues) for j in range(i + 3, t.n_residues)])
        self.radii = np.array([{"N": 0.155, "H": 0.12, "C": 0.17, "O": 0.152}[a.element.symbol] for a in t.topology.atoms])
        self.bond_min = 0.09

    def evaluate(self, t):
        """all observables on trajectory t (copies where the callee mutates its argument)"""
        o = {}
        o["distances"] = md.compute_distances(t, self.pairs).astype(float)
        o["angles"] = md.compute_angles(t, self.trip).astype(float)
        o["dihedrals"] = md.compute_dihedrals(t, self.quart).astype(float)
        a, b = md.Trajectory(t.xyz.copy(), t.topology), md.Trajectory(t.xyz.copy(), t.topology)
        o["rmsd"] = md.rmsd(a, b, 0).astype(float)  # md.rmsd centres its arguments in place: copies
        o["rg"] = md.compute_rg(t).astype(float)
        o["principal_moments"] = np.sort(md.principal_moments(t).astype(float), axis=1)
        o["asphericity"] = md.asphericity(t).astype(float)
        o["acylindricity"] = md.acylindricity(t).astype(float)
        o["relative_shape_antisotropy"] = md.relative_shape_antisotropy(t).astype(float)
        for scheme in ("ca", "closest", "closest-heavy"):
            d, p = md.compute_contacts(t, self.res_pairs, scheme=scheme, periodic=False)
            o["contacts:" + scheme] = d.astype(float)
            o["contacts-pairs:" + scheme] = p.tolist()
        o["baker_hubbard"] = [set(map(tuple, md.baker_hubbard(t[f], freq=0.0, periodic=False).tolist())) for f in range(t.n_frames)]
        o["kabsch_sander"] = [m.toarray().astype(float) for m in md.kabsch_sander(t)]
        o["dssp"] = md.compute_dssp(t, simplified=False)
        o["dssp-simplified"] = md.compute_dssp(t, simplified=True)
        for c in (0.35, 0.6):
            o[f"neighbors:{c}"] = [set(a.tolist()) for a in md.compute_neighbors(t, c, np.arange(0, t.n_atoms, 7))]
            o[f"neighborlist:{c}"] = [[set(a.tolist()) for a in md.compute_neighborlist(t, c, frame=f)] for f in range(t.n_frames)]
        o["drid"] = md.compute_drid(t).astype(float).reshape(t.n_frames, t.n_atoms, 3)
        o["sasa-atom"] = np.vstack([md.shrake_rupley(t[f], mode="atom") for f in range(t.n_frames)]).astype(float)
        o["sasa-residue"] = np.vstack([md.shrake_rupley(t[f], mode="residue") for f in range(t.n_frames)]).astype(float)
        return o

    def compare(self, o0, o1, t0, t1, delta, rotated):
        """list of (observable, message, observed, expected) for violated invariances"""
        bad = []
        x0, x1 = t0.xyz.astype(np.float64), t1.xyz.astype(np.float64)
        F = t0.n_frames

        def cont(name, tol, a=None, b=None):
            a = o0[name] if a is None else a
            b = o1[name] if b is None else b
            d = np.abs(a - b)
            m = d > tol
            if np.any(m):
                k = np.unravel_index(np.argmax(np.where(m, d / np.maximum(tol, 1e-300), 0)), d.shape)
                bad.append((name, f"changed by {d[k]:.3g} (allowed {np.broadcast_to(tol, d.shape)[k]:.3g}) at index {tuple(int(i) for i in k)}", float(b[k]), float(a[k])))

        cont("distances", delta)
        tol_a = np.array([2 * L.angle_tol(*L.angles(x0[f], self.trip)[1:], delta) for f in range(F)])
        cont("angles", tol_a)
        tols, defined = [], []
        for f in range(F):
            _, b1, b2, b3 = L.dihedrals(x0[f], self.quart)
            td = 2 * L.dihedral_tol(b1, b2, b3, delta)
            tols.append(td)
        td = np.array(tols)
        dd = L.angdiff(o0["dihedrals"], o1["dihedrals"])  # signed values compared modulo 2 pi: a sign flip is a change of 2|phi|
        m = (td <= 0.05) & (dd > td)
        if m.any():
            k = np.unravel_index(np.argmax(m), m.shape)
            bad.append(("dihedrals", f"changed by {dd[k]:.3g} (allowed {td[k]:.3g}) for atoms {self.quart[k[1]].tolist()}", float(o1['dihedrals'][k]), float(o0['dihedrals'][k])))
        # rmsd: |d rmsd| <= 2 delta (every atom moves by <= delta) + float32 evaluation of (Ga+Gb-2 lambda)/N: absolute
        # error E = 8e-6 * Rg^2 on the msd, i.e. sqrt(rmsd^2 + E) - rmsd on the rmsd
        rg = o0["rg"]
        E = 8e-6 * rg ** 2
        cont("rmsd", 2 * delta + np.sqrt(o0["rmsd"] ** 2 + E) - o0["rmsd"])
        cont("rg", 2 * delta)
        tol_eig = 4 * np.maximum(1.0, rg) * delta  # d(lambda) <= 2 Rg delta, doubled
        cont("principal_moments", tol_eig[:, None])
        cont("asphericity", 2 * tol_eig)
        cont("acylindricity", 2 * tol_eig)
        cont("relative_shape_antisotropy", 8 * tol_eig / o0["principal_moments"].sum(1))
        for scheme in ("ca", "closest", "closest-heavy"):
            if o0["contacts-pairs:" + scheme] != o1["contacts-pairs:" + scheme]:
                bad.append(("contacts:" + scheme, "residue pair list changed", None, None))
            cont("contacts:" + scheme, delta)
        # ---- Baker-Hubbard: d(H..A) < 0.25 nm and angle(D-H..A) > 120 deg
        for f in range(F):
            s0, s1 = o0["baker_hubbard"][f], o1["baker_hubbard"][f]
            for trip in s0 ^ s1:
                d_, h_, a_ = trip
                near = False
                for x in (x0[f], x1[f]):
                    dist = np.linalg.norm(x[h_] - x[a_])
                    u, v = x[d_] - x[h_], x[a_] - x[h_]
                    th = float(L.angle_between(u, v))
                    # law-of-cosines angle from three float32 distances: d(cos) <= 3 delta / min side, d(theta) = d(cos)/sin
                    tol_th = 2 * float(L.angle_tol(u[None], v[None], delta)[0]) + 3 * delta / (min(np.linalg.norm(u), dist) * max(np.sin(th), 0.3))
                    near |= abs(dist - 0.25) <= delta or abs(th - 2 * PI / 3) <= tol_th
                if not near:
                    bad.append(("baker_hubbard", f"hydrogen bond {trip} ({[str(t0.topology.atom(i)) for i in trip]}) is reported {'before' if trip in s0 else 'after'} but not "
                                f"{'after' if trip in s0 else 'before'} the rigid motion (frame {f}); d(H..A)={np.linalg.norm(x0[f][h_] - x0[f][a_]):.5f}", sorted(s1)[:6], sorted(s0)[:6]))
                    break
        # ---- Kabsch-Sander matrices and DSSP
        dssp_ok = np.ones(F, dtype=bool)
        for f in range(F):
            E0, S0 = ks_spec(x0[f], self.per_res)
            E1, S1 = ks_spec(x1[f], self.per_res)
            tolE = 1e-4 + 3 * np.maximum(S0, S1) * delta  # each of the four distances changes by <= delta (H placement: 2 delta)
            A, B = o0["kabsch_sander"][f], o1["kabsch_sander"][f]  # [acceptor, donor]
            ca0, ca1 = ca_matrix(x0[f], self.per_res), ca_matrix(x1[f], self.per_res)
            n = len(self.per_res)
            for don in range(n):
                for acc in range(n):
                    a, b = A[acc, don], B[acc, don]
                    if a == 0 and b == 0:
                        continue
                    te = tolE[don, acc] if np.isfinite(tolE[don, acc]) else 1e-3
                    if a != 0 and b != 0:
                        if abs(a - b) > te:
                            bad.append(("kabsch_sander", f"energy of donor {don} -> acceptor {acc} changed from {a:.5f} to {b:.5f} (allowed {te:.2g}, frame {f})", b, a))
                        continue
                    # present on one side only: excusable when a threshold or the best-two ranking is within tolerance
                    e = np.nanmin([E0[don, acc], E1[don, acc]]) if np.isfinite(E0[don, acc]) else np.nan
                    row0 = np.sort(E0[don][np.isfinite(E0[don])])
                    rank_tie = len(row0) > 2 and np.isfinite(E0[don, acc]) and abs(E0[don, acc] - row0[2]) <= 2 * np.nanmax(tolE[don]) + 1e-3 or \
                        (len(row0) > 2 and np.isfinite(E0[don, acc]) and abs(E0[don, acc] - row0[1]) <= 2 * np.nanmax(tolE[don]) + 1e-3 and E0[don, acc] >= row0[1])
                    near = (np.isfinite(e) and (abs(E0[don, acc] + 0.5) <= te or abs(E1[don, acc] + 0.5) <= te)) or abs(ca0[don, acc] - 0.9) <= delta or abs(ca1[don, acc] - 0.9) <= delta or rank_tie
                    if not near:
                        bad.append(("kabsch_sander", f"hydrogen bond donor {don} -> acceptor {acc} (E={E0[don, acc]:.4f} by the definition) is present {'before' if a else 'after'} only (frame {f})", b, a))
            # DSSP depends on the whole H-bond pattern and on the bend angle (70 deg): skip frames with any near-threshold quantity
            fin = np.isfinite(E0)
            if (fin & (np.abs(E0 + 0.5) <= tolE)).any() or (fin & (np.abs(E1 + 0.5) <= tolE)).any():
                dssp_ok[f] = False
            if ((np.abs(ca0 - 0.9) <= delta) & fin & (np.nan_to_num(E0, nan=0.0) < -0.3)).any():
                dssp_ok[f] = False
            ca = x0[f][[d["CA"].index for d in self.per_res]]
            for i in range(2, n - 2):
                u, v = ca[i] - ca[i - 2], ca[i + 2] - ca[i]
                kappa = float(L.angle_between(u, v))
                if abs(kappa - np.radians(70.0)) <= 4 * delta / min(np.linalg.norm(u), np.linalg.norm(v)) + 1e-5:
                    dssp_ok[f] = False
        for name in ("dssp", "dssp-simplified"):
            for f in range(F):
                if dssp_ok[f] and list(o0[name][f]) != list(o1[name][f]):
                    bad.append((name, f"secondary structure changed (frame {f}): {''.join(o0[name][f])} -> {''.join(o1[name][f])}", "".join(o1[name][f]), "".join(o0[name][f])))
                    break
        # ---- neighbour sets: pairs within delta of the cutoff are undecided
        for c in (0.35, 0.6):
            q = np.arange(0, t0.n_atoms, 7)
            for f in range(F):
                D0 = np.linalg.norm(x0[f][:, None] - x0[f][None, :], axis=-1)
                D1 = np.linalg.norm(x1[f][:, None] - x1[f][None, :], axis=-1)
                und = (np.abs(D0 - c) <= delta) | (np.abs(D1 - c) <= delta)
                s0, s1 = o0[f"neighbors:{c}"][f], o1[f"neighbors:{c}"][f]
                for h in s0 ^ s1:
                    if not und[h, q].any():
                        bad.append(("compute_neighbors", f"atom {h} is a neighbour (cutoff {c}) {'before' if h in s0 else 'after'} only (frame {f})", sorted(s1)[:8], sorted(s0)[:8]))
                        break
                n0, n1 = o0[f"neighborlist:{c}"][f], o1[f"neighborlist:{c}"][f]
                done = False
                for i in range(t0.n_atoms):
                    for j in n0[i] ^ n1[i]:
                        if not und[i, j]:
                            bad.append(("compute_neighborlist", f"pair ({i},{j}) at d={D0[i, j]:.5f} (cutoff {c}) is listed {'before' if j in n0[i] else 'after'} only (frame {f})", None, None))
                            done = True
                            break
                    if done:
                        break
        # ---- DRID: features are mean, sqrt(2nd central moment), cbrt(3rd central moment) of 1/d over non-bonded partners.
        # sqrt and cbrt are not Lipschitz at 0: compare the moments themselves: |d(1/d)| <= delta/d_min^2 =: e, M = max 1/d
        for f in range(F):
            D = np.linalg.norm(x0[f][:, None] - x0[f][None, :], axis=-1) + np.eye(t0.n_atoms)
            dmin = D.min()
            e_, M = delta / dmin ** 2, 1 / dmin
            a, b = o0["drid"][f], o1["drid"][f]
            for k, (pw, tol) in enumerate(((1, 2 * e_), (2, 8 * M * e_), (3, 24 * M * M * e_))):
                d = np.abs(a[:, k] ** pw - b[:, k] ** pw)
                if (d > tol + 1e-9).any():
                    i = int(np.argmax(d))
                    bad.append(("compute_drid", f"moment {k + 1} of atom {i} changed by {d[i]:.3g} (allowed {tol:.3g}, frame {f})", float(b[i, k]), float(a[i, k])))
                    break
        # ---- SASA.  Quadrature: n=960 points per sphere (quantum q_i = 4 pi R_i^2 / 960, R_i = vdW + 0.14 probe).
        # Translation only: the lab-frame point set is unchanged, a point can flip only when it lies within delta of a
        # neighbouring sphere: allowed 8 quanta per atom.  Rotation: the point set turns relative to the molecule:
        # discrepancy of a 960-point spiral on a region bounded by arcs ~ sqrt(#points along the boundary ~ 165) * 4 sigma
        # ~ 50 quanta = 5% of the full sphere.
        R = self.radii + 0.14
        q = 4 * PI * R ** 2 / 960
        tol_atom = (50 if rotated else 8) * q
        cont("sasa-atom", tol_atom[None, :])
        res_of = np.array([a.residue.index for a in t0.topology.atoms])
        tol_res = np.array([np.sqrt((tol_atom[res_of == r] ** 2).sum()) * 2 for r in range(t0.n_residues)])
        cont("sasa-residue", tol_res[None, :])
        return bad


# ------------------------------------------------------------------------------------------------
# periodic observables
# ------------------------------------------------------------------------------------------------

def periodic_eval(t, trip, quart, pairs, res_pairs, cutoff, query):
    o = {}
    o["distances"] = md.compute_distances(t, pairs, periodic=True).astype(float)
    o["distances:reference"] = md.compute_distances(t, pairs[:12], periodic=True, opt=False).astype(float)
    o["angles"] = md.compute_angles(t, trip, periodic=True).astype(float)
    o["dihedrals"] = md.compute_dihedrals(t, quart, periodic=True).astype(float)
    d, p = md.compute_contacts(t, res_pairs, scheme="closest", ignore_nonprotein=False, periodic=True)
    o["contacts"] = d.astype(float)
    o["neighbors"] = [set(a.tolist()) for a in md.compute_neighbors(t, cutoff, query, periodic=True)]
    o["neighborlist"] = [[set(a.tolist()) for a in md.compute_neighborlist(t, cutoff, frame=f, periodic=True)] for f in range(t.n_frames)]
    return o


def periodic_case(chks, case, records):
    family, seed = case["family"], case["seed"]
    t, trip, quart, atags, ttags, rng = c07.build_case(dict(family=family, placement="inside", seed=seed, n_frames=2, n_mol=case["n_mol"], n_at=4))
    N, F = t.n_atoms, t.n_frames
    box = np.asarray(t.unitcell_vectors, dtype=np.float64)
    w = min(L.min_width(b) for b in box)
    allp = [(i, j) for i in range(N) for j in range(i + 1, N)]
    pairs = np.array([allp[k] for k in rng.choice(len(allp), size=min(60, len(allp)), replace=False)])
    nres = t.n_residues
    res_pairs = np.array([(i, j) for i in range(nres) for j in range(i + 1, nres)])
    cutoff = float(np.float32(0.3 * w))
    query = np.arange(0, N, 3)
    x0 = t.xyz.astype(np.float64)
    o0 = periodic_eval(t, trip, quart, pairs, res_pairs, cutoff, query)
    mol_atoms = [[a.index for a in r.atoms] for r in t.topology.residues]
    for kind in ("per-atom-lattice-shift", "whole-system-translation", "lattice-shift-and-translation"):
        for rep in range(case["reps"]):
            x1 = x0.copy()
            for f in range(F):
                if kind != "whole-system-translation":
                    x1[f] += rng.integers(-3, 4, size=(N, 3)) @ box[f]
                if kind != "per-atom-lattice-shift":
                    x1[f] += rng.uniform(-2, 2, size=3) @ box[f]
            t1 = md.Trajectory(x1.astype(np.float32), t.topology, unitcell_lengths=t.unitcell_lengths.copy(), unitcell_angles=t.unitcell_angles.copy())
            x1 = t1.xyz.astype(np.float64)
            o1 = periodic_eval(t1, trip, quart, pairs, res_pairs, cutoff, query)
            info = dict(case, kind=kind, rep=rep, periodic_part=True)
            bad = []
            for f in range(F):
                delta = max(1e-5, 8 * float(L.ulp32(max(np.abs(x0[f]).max(), np.abs(x1[f]).max()))), L.dist_tol(box[f]))
                skew = family not in ("cubic", "ortho")

                def defined(diff):
                    _, sd, second = L.min_image(diff, box[f], want_second=True)
                    ok = second - sd > 1e-5 + 2 * delta
                    return (ok & (sd < 0.5 * L.min_width(box[f]) - delta)) if skew else ok, sd

                ok, sd = defined(x0[f, pairs[:, 1]] - x0[f, pairs[:, 0]])
                for name, sl in (("distances", slice(None)), ("distances:reference", slice(0, 12))):
                    d = np.abs(o0[name][f] - o1[name][f])
                    m = ok[sl] & (d > 2 * delta)
                    if m.any():
                        k = int(np.argmax(m))
                        bad.append(("compute_distances" + (":reference" if "ref" in name else ""), f"periodic distance of pair {pairs[k].tolist()} changed from {o0[name][f][k]:.6f} to {o1[name][f][k]:.6f} "
                                    f"(minimum image {sd[k]:.6f}, allowed {2 * delta:.1e}, frame {f})", o1[name][f][k], o0[name][f][k]))
                sa, u, v = L.angles(x0[f], trip, box[f])
                d = np.abs(o0["angles"][f] - o1["angles"][f])
                m = d > 2 * L.angle_tol(u, v, delta)
                if m.any():
                    k = int(np.argmax(m))
                    bad.append(("compute_angles", f"periodic angle of {trip[k].tolist()} changed from {o0['angles'][f][k]:.6f} to {o1['angles'][f][k]:.6f} (frame {f})", o1["angles"][f][k], o0["angles"][f][k]))
                sdh, b1, b2, b3 = L.dihedrals(x0[f], quart, box[f])
                td = 2 * L.dihedral_tol(b1, b2, b3, delta)
                d = L.angdiff(o0["dihedrals"][f], o1["dihedrals"][f])
                m = (td <= 0.05) & (d > td)
                if m.any():
                    k = int(np.argmax(m))
                    bad.append(("compute_dihedrals", f"periodic dihedral of {quart[k].tolist()} changed from {o0['dihedrals'][f][k]:.6f} to {o1['dihedrals'][f][k]:.6f} (frame {f})", o1["dihedrals"][f][k], o0["dihedrals"][f][k]))
                # residue-residue closest contacts: decided only when every atom pair of the two residues is in the defined range
                iu, ju = np.triu_indices(N, 1)
                okp, sdp = defined(x0[f, ju] - x0[f, iu])
                OK = np.zeros((N, N), bool)
                OK[iu, ju] = okp
                OK[ju, iu] = okp
                D0 = np.zeros((N, N))
                D0[iu, ju] = sdp
                D0[ju, iu] = sdp
                D1 = np.zeros((N, N))
                d1 = L.min_image(x1[f, ju] - x1[f, iu], box[f], K=1)[1]
                D1[iu, ju] = d1
                D1[ju, iu] = d1
                for k, (ra, rb) in enumerate(res_pairs):
                    blk = np.ix_(mol_atoms[ra], mol_atoms[rb])
                    if OK[blk].all() and abs(o0["contacts"][f][k] - o1["contacts"][f][k]) > 2 * delta:
                        bad.append(("compute_contacts", f"periodic closest contact of residues {(int(ra), int(rb))} changed from {o0['contacts'][f][k]:.6f} to {o1['contacts'][f][k]:.6f} (frame {f})",
                                    o1["contacts"][f][k], o0["contacts"][f][k]))
                        break
                und = (np.abs(D0 - cutoff) <= 2 * delta) | (np.abs(D1 - cutoff) <= 2 * delta)
                s0, s1 = o0["neighbors"][f], o1["neighbors"][f]
                for h in s0 ^ s1:
                    if not und[h, query].any():
                        bad.append(("compute_neighbors", f"atom {h} is a neighbour (cutoff {cutoff:.4f}) {'before' if h in s0 else 'after'} only (frame {f})", sorted(s1)[:8], sorted(s0)[:8]))
                        break
                n0, n1 = o0["neighborlist"][f], o1["neighborlist"][f]
                diffp = [(i, j) for i in range(N) for j in n0[i] ^ n1[i] if i < j and not und[i, j]]
                if diffp:
                    i, j = diffp[0]
                    truth = D0[i, j] < cutoff
                    bad.append(("compute_neighborlist", f"{len(diffp)} pairs differ, e.g. ({i},{j}) at minimum-image distance {D0[i, j]:.5f} (cutoff {cutoff:.4f}) is listed {'before' if j in n0[i] else 'after'} only "
                                f"(frame {f}); brute force says it {'is' if truth else 'is not'} a neighbour pair", len(diffp), 0))
            seen = set()
            for name, msg, obs, exp in bad:
                if name in seen:
                    continue
                seen.add(name)
                records.append(dict(chk="periodic", func=name, feats=(kind, "triclinic" if family not in ("cubic", "ortho") else "orthorhombic"), n=N,
                                    what=f"{msg} [family={family} {kind}]", input=info, observed=obs, expected=exp))
            for name in ("compute_distances", "compute_angles", "compute_dihedrals", "compute_contacts", "compute_neighbors", "compute_neighborlist"):
                if name not in seen:
                    chks["periodic"].ok(nontrivial=(family, kind, name))


# ------------------------------------------------------------------------------------------------

def transforms(seed, n_rot):
    rng = np.random.default_rng([int(seed), 911])
    out = []
    mags = [1.0, 50.0, 300.0]
    for k in range(n_rot):
        d = rng.normal(size=3)
        out.append((L.random_rotation(rng), mags[k % 3] * d / np.linalg.norm(d), ("rotation", mags[k % 3])))
    for m in mags:
        d = rng.normal(size=3)
        out.append((np.eye(3), m * d / np.linalg.norm(d), ("translation", m)))
    return out


def nonperiodic_case(chks, case, records):
    sysm = NonPeriodic(case["seed"])
    t0 = sysm.t
    o0 = sysm.evaluate(t0)
    chk = chks["rigid"]
    if case.get("baseline_only"):
        return o0
    n_hb = sum(len(s) for s in o0["baker_hubbard"])
    n_ks = sum(int((m != 0).sum()) for m in o0["kabsch_sander"])
    chk.samples.append({"baseline": {"baker_hubbard_bonds": n_hb, "kabsch_sander_bonds": n_ks, "dssp": ["".join(r) for r in o0["dssp"]]}})
    tr = transforms(case["seed"], case["n_rot"])
    if "only" in case:
        tr = [tr[case["only"]]]
    for k, (R, tv, (kind, mag)) in enumerate(tr):
        t1 = transformed(t0, R, tv)
        delta = max(1e-5, 8 * float(L.ulp32(max(np.abs(t0.xyz).max(), np.abs(t1.xyz).max()))))
        o1 = sysm.evaluate(t1)
        bad = sysm.compare(o0, o1, t0, t1, delta, rotated=(kind == "rotation"))
        seen = set()
        for name, msg, obs, exp in bad:
            if name in seen:
                continue
            seen.add(name)
            records.append(dict(chk="rigid", func=name, feats=(kind, mag), n=t0.n_atoms, what=f"{name}: {msg} [{kind}, |translation|={mag:g} nm, delta={delta:.2g}]",
                                input=dict(case, only=case.get("only", k), nonperiodic=True), observed=obs, expected=exp))
        for name in OBSERVABLES:
            if name not in seen:
                chk.ok(nontrivial=(name, kind, mag))


OBSERVABLES = ["distances", "angles", "dihedrals", "rmsd", "rg", "principal_moments", "asphericity", "acylindricity", "relative_shape_antisotropy",
               "contacts:ca", "contacts:closest", "contacts:closest-heavy", "baker_hubbard", "kabsch_sander", "dssp", "dssp-simplified", "compute_neighbors",
               "compute_neighborlist", "compute_drid", "sasa-atom", "sasa-residue"]


def assign_keys(chks, records):
    groups = {}
    for r in records:
        groups.setdefault((r["chk"], r["func"]), []).append(r)
    for (chk, func), rs in groups.items():
        if chk == "rigid":
            sfx = ""
            if all(r["feats"][0] == "rotation" for r in rs):
                pass  # every transform with a rotation also has a translation; pure translations pass
            mags = sorted({r["feats"][1] for r in rs})
            pure_t = [r for r in rs if r["feats"][0] == "translation"]
            if not pure_t:
                sfx += ":rotation"
            if mags[0] > 1.0:
                sfx += f":translation>={mags[0]:g}nm"
            r = min(rs, key=lambda r: (r["feats"][1], r["feats"][0] == "rotation"))
            wc = f"{func}:non-periodic{sfx}"
            clause = "rigid-motion-invariant"
        else:
            kinds = {r["feats"][0] for r in rs}
            cells = {r["feats"][1] for r in rs}
            sfx = (":" + kinds.pop() if len(kinds) == 1 else "") + (":" + cells.pop() if len(cells) == 1 else "")
            r = min(rs, key=lambda r: (r["feats"][1] != "orthorhombic", r["n"]))
            wc = f"{func}:periodic{sfx}"
            clause = "lattice-translation-invariant"
        chks[chk].fail(clause, wc, r["what"] + f" ({len(rs)} failing evaluations in this class)", dict(r["input"], witness_class=wc, func=func), observed=r.get("observed"), expected=r.get("expected"))


def _checks(sz):
    return {
        "rigid": Check("rigid-motion-invariance", "md.compute_distances/angles/dihedrals, md.rmsd, compute_rg, principal_moments/asphericity/acylindricity/relative_shape_antisotropy, compute_contacts(ca, closest, "
                       "closest-heavy), baker_hubbard, kabsch_sander, compute_dssp, compute_neighbors, compute_neighborlist, compute_drid, shrake_rupley(atom, residue)",
                       f"{sz['systems']} generated 23-residue peptide(s) (12-residue helix, turn with PRO/GLY, 8-residue strand; N,H,CA,CB,C,O; 3 frames) x [{sz['n_rot']} uniformly random proper rotations, each with a "
                       "translation of 1 / 50 / 300 nm, plus pure translations of 1, 50, 300 nm]",
                       "value before vs after on the same float32 pipeline; tolerance delta = max(1e-5, 8 ulp32(|x|max)) on distances and the propagated tolerance on everything else (module docstring); "
                       "discrete outputs as sets, near-threshold items removed using float64 definitions; non-trivial = (observable, kind of motion, magnitude)", stands_in_for=SF),
        "periodic": Check("lattice-translation-invariance", "md.compute_distances(opt and reference)/angles/dihedrals(periodic=True), compute_contacts(periodic=True), compute_neighbors, compute_neighborlist",
                          f"all C05 cell families x {sz['seeds']} seed(s); {sz['n_mol']} bonded 4-atom molecules inside the cell; {sz['reps']} x [per-atom lattice shifts in [-3,3]^3, whole-system translation "
                          "by up to 2 cell diagonals, both]; cutoff 0.3 x smallest width",
                          "value before vs after; pairs beyond half the smallest width (skewed cells), within 1e-5 of an image tie or within 2 delta of the cutoff are undecided", stands_in_for=SF),
    }


def _cases(tier, seed):
    if tier == "quick":
        sz = dict(systems=2, n_rot=20, seeds=2, n_mol=6, reps=2)
        np_cases = [dict(seed=seed * 1000 + k, n_rot=20) for k in range(2)]
        seeds = [seed * 1000 + k for k in range(2)]
    else:
        sz = dict(systems=4, n_rot=20, seeds=4, n_mol=8, reps=4)
        np_cases = [dict(seed=seed * 1000 + 100 + k, n_rot=20) for k in range(4)]
        seeds = [seed * 1000 + 100 + k for k in range(4)]
    p_cases = [dict(family=fam, seed=s, n_mol=sz["n_mol"], reps=sz["reps"]) for s in seeds for fam in L.FAMILIES]
    return np_cases, p_cases, sz


def run(tier, seed, hint):
    np_cases, p_cases, sz = _cases(tier, seed)
    chks = _checks(sz)
    records = []
    for case in np_cases:
        nonperiodic_case(chks, case, records)
    for case in p_cases:
        periodic_case(chks, case, records)
    assign_keys(chks, records)
    return list(chks.values())


def replay(payload):
    inp = payload.get("input") or payload.get("failing_input")
    chks = _checks(dict(systems=1, n_rot=inp.get("n_rot", 20), seeds=1, n_mol=inp.get("n_mol", 6), reps=inp.get("reps", 2)))
    records = []
    if inp.get("nonperiodic"):
        nonperiodic_case(chks, dict(seed=inp["seed"], n_rot=inp["n_rot"], only=inp["only"]), records)
    else:
        periodic_case(chks, {k: inp[k] for k in ("family", "seed", "n_mol", "reps")}, records)
    for r in records:
        if r["func"] == inp.get("func"):
            chks[r["chk"]].fail("rigid-motion-invariant" if r["chk"] == "rigid" else "lattice-translation-invariant", inp.get("witness_class", r["func"]), r["what"], r["input"],
                                observed=r.get("observed"), expected=r.get("expected"))
    fails = [f for c in chks.values() for f in c.failures]
    return {"reproduced": bool(fails), "failures": fails}
