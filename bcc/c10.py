"""C10 bounded contract check: md.compute_neighbors / md.compute_neighborlist against an md-independent
brute force (specs.lattice.min_image over all atom pairs) AND against md.compute_distances on the same frame.

Contracts (from the statement):
  compute_neighborlist(traj, cutoff, frame, periodic)[i] == { j != i : d(i,j) < cutoff }  as a set, for every i;
      hence symmetric, irreflexive, duplicate-free;
  compute_neighbors(traj, cutoff, query, haystack, periodic)[f] == [ h in haystack (in haystack order, no
      duplicates) : exists q in query, q != h, d_f(h,q) < cutoff ];
  d = minimum-image distance when a cell is present and periodic, Euclidean otherwise; cutoff <= half the
  smallest perpendicular cell width; both also agree with md.compute_distances on the same frame;
  wherever the atoms sit relative to the primary cell.

Pairs whose distance is within `margin` of the cutoff are excluded from the comparison:
  margin = max(1e-5, 8 ulp32(largest |coordinate difference component|)): the 1e-5 of the quantifier, widened only
  where float32 cannot resolve 1e-5 (atoms several cells apart: the kernels form x_i - x_j in float32).
"""
import numpy as np

import mdtraj as md
from bcc.api import Check
from bcc.c05 import Snapshot, family_cells
from bcc.fixtures import make_topology
from specs import lattice as L

FAMILIES = ["none"] + L.FAMILIES
DISTS = ["uniform", "clustered", "voxel-boundaries"]
# where the atoms sit: inside the rectangular brick [0,ax)x[0,by)x[0,cz) of the (standard-orientation) cell -- for an
# orthorhombic cell that IS the unit cell; inside the unit-cell parallelepiped (fractional coordinates in [0,1));
# shifted by random lattice vectors in [-3,3]^3
POSITIONS = ["brick", "cell", "outside"]
POS_SUFFIX = {"brick": "", "cell": ":atoms-inside-unit-cell-outside-rectangular-brick", "outside": ":atoms-outside-primary-cell"}
SF = "Voxels::getNeighbors / getVoxelIndex (voxel range search: bounded-only) and _compute_neighbors"


def cell_kind(family):
    if family == "none":
        return "no-cell"
    return "orthorhombic" if family in ("cubic", "ortho") else "triclinic"


def build(case):
    family, dist, pos, seed, n, n_frames = (case[k] for k in ("family", "dist", "pos", "seed", "n_atoms", "n_frames"))
    rng = np.random.default_rng([int(seed), FAMILIES.index(family), DISTS.index(dist), POSITIONS.index(pos), int(n)])
    top = make_topology(n)
    if family == "none":
        box = np.tile(np.diag([4.0, 5.0, 3.0]), (n_frames, 1, 1))  # only used to place points
        t = md.Trajectory(np.zeros((n_frames, n, 3), dtype=np.float32), top)
    else:
        lengths, angles = family_cells(family, rng, n_frames)
        # keep cells at <= 6 nm so that +-3 cells stay where float32 resolves ~4e-6 nm
        lengths = lengths * min(1.0, 6.0 / lengths.max())
        t = md.Trajectory(np.zeros((n_frames, n, 3), dtype=np.float32), top, unitcell_lengths=lengths, unitcell_angles=angles)
        box = np.asarray(t.unitcell_vectors, dtype=np.float64)
    w = min(L.min_width(b) for b in box)
    xyz = np.empty((n_frames, n, 3))
    for f in range(n_frames):
        if dist == "uniform":
            s = rng.uniform(0, 1, size=(n, 3))
        elif dist == "clustered":
            nc = max(1, n // 12)
            centres = rng.uniform(0, 1, size=(nc, 3))
            sig = rng.choice([0.004, 0.02, 0.08], size=nc)[:, None]
            which = rng.integers(0, nc, size=n)
            s = centres[which] + rng.normal(size=(n, 3)) * sig[which]
            s -= np.floor(s)
        else:  # on a regular grid of 1/8 .. 1/32 of the cell: atoms exactly on bin edges, many equal coordinates
            g = int(rng.choice([4, 8, 16, 32]))
            s = rng.integers(0, g, size=(n, 3)) / g
            jitter = rng.random(n) < 0.3
            s[jitter] += rng.uniform(-1e-4, 1e-4, size=(int(jitter.sum()), 3))
            s -= np.floor(s)
        if pos == "outside":
            s = s + rng.integers(-3, 4, size=(n, 3))
        xyz[f] = s @ (np.diag(np.diag(box[f])) if pos == "brick" else box[f])
    t.xyz = xyz.astype(np.float32)
    return t, w, rng


def distance_matrix(x, bx):
    """float64 (minimum-image) distance matrix of one frame"""
    n = len(x)
    iu, ju = np.triu_indices(n, 1)
    diff = x[ju] - x[iu]
    if bx is None:
        d = np.sqrt((diff ** 2).sum(1))
    else:
        d = L.min_image(diff, bx, K=1)[1] if len(diff) else np.zeros(0)
    D = np.zeros((n, n))
    D[iu, ju] = d
    D[ju, iu] = d
    return D, iu, ju


def _unreduced(bx):
    a, b, c = bx
    return max(abs(b[0]) / a[0], abs(c[0]) / a[0], abs(c[1]) / b[1]) > 0.51


def eval_case(chks, case, records):
    chk_l, chk_n = chks["list"], chks["neighbors"]
    t, w, rng = build(case)
    family, dist, pos = case["family"], case["dist"], case["pos"]
    n, n_frames = t.n_atoms, t.n_frames
    x = t.xyz.astype(np.float64)
    has_cell = family != "none"
    ck = cell_kind(family)
    for periodic in ((True, False) if has_cell else (True,)):
        use_box = has_cell and periodic
        if not use_box and pos != "brick":
            continue  # Euclidean search: nothing new
        mark = margin = None
        Ds = []
        for f in range(n_frames):
            bx = np.asarray(t.unitcell_vectors[f], dtype=np.float64) if use_box else None
            D, iu, ju = distance_matrix(x[f], bx)
            d32 = np.zeros((n, n))
            if n > 1:
                pairs = np.stack([iu, ju], 1)
                dd = md.compute_distances(t[f], pairs, periodic=periodic, opt=True)[0].astype(np.float64)
                d32[iu, ju] = dd
                d32[ju, iu] = dd
            Ds.append((D, d32))
        span = np.abs(x).max() * 2
        margin = max(1e-5, 8 * float(L.ulp32(span)))
        extent = w if use_box else max(1e-3, float(np.ptp(x, axis=1).max()))
        cutoffs = [0.11 * extent, 0.25 * extent, 0.4999 * extent] if use_box else [0.08 * extent, 0.3 * extent]
        if case.get("tiny"):
            cutoffs = [0.01] + cutoffs  # ~1e6 voxels in the list builder: only on a subset of the cases (cost)
        if case.get("cutoff_fracs"):
            cutoffs = [fr_ * extent for fr_ in case["cutoff_fracs"]]
        if case.get("cutoffs"):
            cutoffs = case["cutoffs"]
        for cutoff in cutoffs:
            cutoff = float(np.float32(cutoff))
            cls = "tiny-cutoff" if cutoff <= 0.0101 else ("cutoff-near-half-width" if use_box and cutoff > 0.45 * extent else "mid-cutoff")
            info = dict(case, periodic=periodic, cutoff=cutoff, kind="case")
            mode = "no-cell" if not has_cell else ("periodic=False" if not periodic else "periodic")
            # ---------------- compute_neighborlist, every frame
            for f in range(n_frames):
                D, d32 = Ds[f]
                snap = Snapshot(t)
                nl = md.compute_neighborlist(t, cutoff, frame=f, periodic=periodic)
                if snap.changed():
                    chk_l.fail("inputs-unchanged", "compute_neighborlist:" + ",".join(snap.changed()), "inputs modified", dict(info, frame=f))
                problems = _check_list(nl, D, d32, cutoff, margin, n)
                if problems:
                    clause, what, obs, exp = problems[:4]
                    if len(problems) > 4:  # a missing pair: does the two-atom system alone reproduce it?  (minimal witness)
                        i_, j_ = problems[4]
                        sub = t[f].atom_slice([i_, j_])
                        if len(md.compute_neighborlist(sub, cutoff, periodic=periodic)[0]) == 0:
                            what += (f"; minimal witness: 2 atoms xyz={sub.xyz[0].tolist()} unitcell_lengths={None if not has_cell else sub.unitcell_lengths[0].tolist()} "
                                     f"unitcell_angles={None if not has_cell else sub.unitcell_angles[0].tolist()} cutoff={cutoff!r} -> empty neighbour list")
                    unred = bool(use_box and ck == "triclinic" and _unreduced(np.asarray(t.unitcell_vectors[f], dtype=np.float64)))
                    records.append(dict(chk="list", func="compute_neighborlist", clause=clause, mode=mode, pos=pos, cell=ck if use_box else "none", unreduced=unred, dist=dist, cut=cls, n=n,
                                        what=f"{what} [family={family} {dist} {pos} n_atoms={n} cutoff={cutoff:.4f} ({cls}) frame={f} periodic={periodic} margin={margin:.1e}]",
                                        input=dict(info, frame=f), observed=obs, expected=exp))
                else:
                    npairs = int((D[np.triu_indices(n, 1)] < cutoff).sum())
                    chk_l.ok(nontrivial=(family, dist, pos, periodic, cls, npairs > 0), sample={"family": family, "dist": dist, "pos": pos, "n": n, "cutoff": cutoff, "pairs_within": npairs})
            # ---------------- compute_neighbors: query / haystack subsets
            for qs in _subsets(n, rng):
                query, hay = qs
                snap = Snapshot(t, query, *([hay] if hay is not None else []))
                res = md.compute_neighbors(t, cutoff, query, haystack_indices=hay, periodic=periodic)
                if snap.changed():
                    chk_n.fail("inputs-unchanged", "compute_neighbors:" + ",".join(snap.changed()), "inputs modified", info)
                hay_eff = np.arange(n) if hay is None else hay
                bad = None
                if len(res) != n_frames:
                    bad = ("length", f"{len(res)} result arrays for {n_frames} frames", len(res), n_frames)
                for f in range(n_frames if bad is None else 0):
                    bad = _check_neighbors(np.asarray(res[f]), Ds[f][0], Ds[f][1], cutoff, margin, query, hay_eff)
                    if bad:
                        break
                if bad:
                    clause, what, obs, exp = bad
                    unred = bool(use_box and ck == "triclinic" and any(_unreduced(np.asarray(b_, dtype=np.float64)) for b_ in t.unitcell_vectors))
                    records.append(dict(chk="neighbors", func="compute_neighbors", clause=clause, mode=mode, pos=pos, cell=ck if use_box else "none", unreduced=unred, dist=dist, cut=cls, n=n,
                                        what=f"{what} [family={family} {dist} {pos} n_atoms={n} cutoff={cutoff:.4f} ({cls}) periodic={periodic} query={len(query)} haystack={'all' if hay is None else len(hay)}]",
                                        input=dict(info, qh=[query.tolist(), None if hay is None else hay.tolist()]), observed=obs, expected=exp))
                else:
                    chk_n.ok(nontrivial=(family, dist, pos, periodic, cls, hay is None))


def _subsets(n, rng):
    """(query, haystack) index arrays: all/all, random subsets, permuted haystack, overlapping and disjoint"""
    out = [(np.arange(n), None)]
    if n >= 2:
        q = np.sort(rng.choice(n, size=max(1, n // 4), replace=False))
        out.append((q, None))
        h = rng.permutation(n)[: max(1, (2 * n) // 3)]  # unsorted haystack, overlaps the query
        out.append((q, h))
        rest = np.setdiff1d(np.arange(n), q)
        if len(rest):
            out.append((rng.permutation(q), rng.permutation(rest)))  # disjoint, both unsorted
        out.append((np.array([int(rng.integers(n))]), None))
    return out


def _check_list(nl, D, d32, cutoff, margin, n):
    if len(nl) != n:
        return ("length", f"{len(nl)} neighbour arrays for {n} atoms", len(nl), n)
    sets = []
    for i, a in enumerate(nl):
        a = np.asarray(a)
        if len(a) != len(set(a.tolist())):
            return ("duplicate-free", f"atom {i}: duplicate entries in its neighbour array", sorted(a.tolist())[:12], None)
        if i in set(a.tolist()):
            return ("irreflexive", f"atom {i} is listed as its own neighbour", sorted(a.tolist())[:12], None)
        if len(a) and (a.min() < 0 or a.max() >= n):
            return ("valid-indices", f"atom {i}: index out of range", a.tolist()[:12], None)
        sets.append(set(a.tolist()))
    for i in range(n):
        for j in sets[i]:
            if i not in sets[j]:
                return ("symmetric", f"{j} is a neighbour of {i} but {i} is not a neighbour of {j}", [i, j], None)
    for name, M in (("brute-force", D), ("compute_distances", d32)):
        must = M < cutoff - margin
        mustnot = M > cutoff + margin
        np.fill_diagonal(must, False)
        got = np.zeros((n, n), dtype=bool)
        for i, s_ in enumerate(sets):
            if s_:
                got[i, list(s_)] = True
        miss = must & ~got
        extra = mustnot & got
        if miss.any():
            i, j = np.argwhere(miss)[0]
            return ("exactly-atoms-within-cutoff" if name == "brute-force" else "agrees-with-compute_distances",
                    f"{int(miss.sum()) // 2} of {int(must.sum()) // 2} pairs within the cutoff ({name}) are missing, e.g. ({i},{j}) at d={M[i, j]:.6f}",
                    int(miss.sum()) // 2, 0, (int(i), int(j)))
        if extra.any():
            i, j = np.argwhere(extra)[0]
            return ("exactly-atoms-within-cutoff" if name == "brute-force" else "agrees-with-compute_distances",
                    f"{int(extra.sum()) // 2} listed pairs are beyond the cutoff ({name}), e.g. ({i},{j}) at d={M[i, j]:.6f}", int(extra.sum()) // 2, 0)
    return None


def _check_neighbors(res, D, d32, cutoff, margin, query, hay):
    rl = res.tolist()
    if len(rl) != len(set(rl)):
        return ("duplicate-free", "duplicate indices in the result", rl[:12], None)
    pos = {int(h): k for k, h in enumerate(hay.tolist())}
    if any(r not in pos for r in rl):
        return ("subset-of-haystack", "result contains an atom that is not in the haystack", rl[:12], None)
    order = [pos[r] for r in rl]
    if order != sorted(order):
        return ("haystack-order", "result is not in the order of the haystack", rl[:12], [int(h) for h in hay if int(h) in set(rl)][:12])
    got = set(rl)
    for name, M in (("brute-force", D), ("compute_distances", d32)):
        sub = M[np.ix_(hay, query)].copy()
        same = hay[:, None] == query[None, :]
        sub[same] = np.inf  # the query atom itself does not count
        dmin = sub.min(1) if sub.shape[1] else np.full(len(hay), np.inf)
        # an atom is decided when no query distance lies inside the margin band, or some distance is clearly inside
        inside = dmin < cutoff - margin
        outside = dmin > cutoff + margin
        for k, h in enumerate(hay.tolist()):
            if inside[k] and h not in got:
                return ("exactly-atoms-within-cutoff" if name == "brute-force" else "agrees-with-compute_distances",
                        f"haystack atom {h} is {dmin[k]:.6f} from a query atom ({name}) but is not returned", sorted(got)[:12], None)
            if outside[k] and h in got:
                return ("exactly-atoms-within-cutoff" if name == "brute-force" else "agrees-with-compute_distances",
                        f"atom {h} is returned but its nearest query atom is at {dmin[k]:.6f} ({name})", sorted(got)[:12], None)
    return None


def assign_keys(chks, records):
    """Order- and tier-independent witness classes: function + mode + position class + cell kind.  Failures are grouped
    by (function, clause, mode, position class, cell kind); within one position class an orthorhombic failure subsumes
    the triclinic one (same code, more special cell).  Distribution and cutoff class are reported in the message only
    (they vary with the sample).  Witness = fewest atoms."""
    groups = {}
    for r in records:
        groups.setdefault((r["chk"], r["func"], r["clause"], r["mode"], r["pos"], r["cell"]), []).append(r)
    for g, rs in sorted(groups.items(), key=lambda kv: (POSITIONS.index(kv[0][4]), kv[0][5])):
        chk_name, func, clause, mode, pos, cell = g
        if cell == "triclinic" and (g[:5] + ("orthorhombic",)) in groups:
            continue
        r = min(rs, key=lambda r: r["n"])
        wc = func + ("" if mode == "periodic" else ":" + mode) + POS_SUFFIX[pos] + (":triclinic" if cell == "triclinic" else "")
        by = {}
        for x in rs:
            by[f"{x['dist']}/{x['cut']}"] = by.get(f"{x['dist']}/{x['cut']}", 0) + 1
        chks[chk_name].fail(clause, wc, r["what"] + f" ({len(rs)} failing evaluations in this class: {by})", dict(r["input"], witness_class=wc, clause=clause),
                            observed=r["observed"], expected=r["expected"])


# ------------------------------------------------------------------------------------------------

def _checks(sz):
    bound = (f"cells [{', '.join(FAMILIES)}] (edges rescaled to <= 6 nm) x distributions {DISTS} x positions [inside the rectangular brick [0,ax)x[0,by)x[0,cz), inside the unit-cell parallelepiped, shifted by random lattice vectors in [-3,3]^3] "
             f"x atom counts {sz['n_atoms']} x {sz['seeds']} seed(s) x {sz['n_frames']} frames x periodic in (True,False); cutoffs [0.11 w, 0.25 w, 0.4999 w] (w = smallest perpendicular cell width; without a cell 0.08, 0.3 of the extent) "
             "plus 0.01 nm on the clustered sets (cluster sigma 0.004-0.08 of the cell); 120-atom stress cases at 0.4999 w in skewed cells")
    return {
        "list": Check("neighborlist-vs-bruteforce", "md.compute_neighborlist", bound,
                      "oracle: float64 brute-force minimum-image distance matrix (specs.lattice.min_image) and, separately, md.compute_distances on the same frame; "
                      "pairs within margin=max(1e-5, 8 ulp32(coordinate span)) of the cutoff excluded; plus symmetry, irreflexivity, no duplicates; non-trivial = at least one pair within the cutoff",
                      stands_in_for=SF),
        "neighbors": Check("neighbors-vs-bruteforce", "md.compute_neighbors", bound + "; query/haystack: all/all, random quarter/all, random quarter/unsorted two-thirds, disjoint unsorted, single atom/all",
                           "same oracles; result must be a duplicate-free subsequence of the haystack; atoms whose nearest query distance is within the margin of the cutoff are undecided",
                           stands_in_for=SF),
    }


def _cases(tier, seed):
    if tier == "quick":
        ns, seeds, fr = [1, 2, 7, 40, 150], [seed], 2
    else:
        ns, seeds, fr = [1, 2, 3, 11, 60, 150, 400], [seed * 1000 + 100 + k for k in range(4)], 2
    cases = []
    for pos in POSITIONS:
        for s in seeds:
            for fam in FAMILIES:
                if pos != "brick" and fam in ("none",):
                    continue
                if pos == "cell" and fam in ("cubic", "ortho"):
                    continue  # identical to the brick
                for dist in DISTS:
                    for n in ns:
                        if n >= 150 and tier == "quick" and (dist != "uniform" or fam not in ("ortho", "triclinic", "hex120", "none")):
                            continue
                        if n == 400 and dist != "uniform" and fam not in ("ortho", "triclinic", "none"):
                            continue
                        if n == 400 and pos == "cell":
                            continue
                        tiny = dist == "clustered" and n >= 7 and (tier != "quick" or fam in ("none", "cubic", "ortho", "monoclinic", "triclinic", "truncoct-amber"))
                        cases.append(dict(family=fam, dist=dist, pos=pos, seed=s, n_atoms=n, n_frames=fr, tiny=tiny))
    # targeted: skewed cells, many atoms inside the brick, cutoff at half the smallest width (few voxels per axis)
    for k in range(8 if tier == "quick" else 30):
        for fam in ("triclinic", "triclinic-unreduced", "varying", "mixed-ortho-tric"):
            cases.append(dict(family=fam, dist="uniform", pos="brick", seed=seed * 1000 + 500 + k, n_atoms=120, n_frames=fr, cutoff_fracs=[0.4999]))
    return cases, dict(n_atoms=ns + [120], seeds=len(seeds), n_frames=fr)


def run(tier, seed, hint):
    cases, sz = _cases(tier, seed)
    chks = _checks(sz)
    records = []
    if tier == "quick":
        for case in cases:
            eval_case(chks, case, records)
    else:
        from concurrent.futures import ProcessPoolExecutor

        with ProcessPoolExecutor(4) as ex:
            for ok_counts, recs in ex.map(_worker, [cases[i::16] for i in range(16)]):
                records += recs
                for name, (ev, distinct, samples) in ok_counts.items():
                    chks[name].evaluations += ev
                    chks[name]._distinct |= distinct
                    chks[name].samples = (chks[name].samples + samples)[:3]
    assign_keys(chks, records)
    return list(chks.values())


def _worker(cases):
    chks = _checks(dict(n_atoms=[], seeds=0, n_frames=0))
    records = []
    for case in cases:
        eval_case(chks, case, records)
    return {k: (c.evaluations, c._distinct, c.samples) for k, c in chks.items()}, records


def replay(payload):
    inp = payload.get("input") or payload.get("failing_input")
    chks = _checks(dict(n_atoms=[inp["n_atoms"]], seeds=1, n_frames=inp["n_frames"]))
    case = {k: inp[k] for k in ("family", "dist", "pos", "seed", "n_atoms", "n_frames")}
    case["tiny"] = inp.get("tiny", False)
    if "cutoff" in inp:
        case["cutoffs"] = [inp["cutoff"]]
    records = []
    eval_case(chks, case, records)
    if inp.get("witness_class"):  # the class was assigned from the whole run; a single case re-uses it
        for r in records:
            if r["clause"] == inp.get("clause") and inp["witness_class"].startswith(r["func"]):
                chks[r["chk"]].fail(r["clause"], inp["witness_class"], r["what"], r["input"], observed=r["observed"], expected=r["expected"])
    else:
        assign_keys(chks, records)
    fails = [f for c in chks.values() for f in c.failures]
    return {"reproduced": bool(fails), "failures": fails}
