"""C05 bounded contract check: periodic distances / displacements against a brute-force lattice search.

Oracle: specs/lattice.py (float64 brute force over lattice images, written from the definition).
Real code exercised: md.compute_distances, md.compute_displacements, md.compute_distances_t,
mdtraj.geometry.distance.compute_distances_core, md.geometry.distance.find_closest_contact.

Contracts (exactly the clauses of the property statement):
  congruent   displacement - (x_b - x_a) is an integer combination of the cell vectors of the frame
  length      distance == |displacement|
  never-below distance >= true minimum over all images
  minimum     distance == true minimum   for every separation in orthorhombic cells and, in skewed
              cells, whenever the true minimum is < half the smallest perpendicular cell width
              (width of the cell as given by Trajectory.unitcell_vectors)
  min-disp    displacement == the minimum image in that range when it is unique (runner-up image
              longer by > 1e-5 + 2 tol)
  agree       opt=True and opt=False give the same distance (outside the defined range only when the
              separation is not within 1e-4 of a wrap discontinuity, see specs.lattice.wrap_tie_margin)
  euclid      periodic=False or no cell: plain Euclidean values
  time-pair   compute_distances_t equals the brute force between atom a at t1 and atom b at t2 (constant
              cell), equals compute_distances on pairs (t,t), opt==reference, shape (n_times,n_pairs)
  unchanged   xyz / unitcell arrays / index arrays are bit-identical after every call

float32 tolerance: tol = 1e-5*max(1,|box|) (|box| = longest cell edge; derivation in specs.lattice.dist_tol).
"""
import numpy as np

import mdtraj as md
from mdtraj.geometry import distance as mdist
from bcc.api import Check
from bcc.fixtures import make_topology
from specs import lattice as L

NEAR_ORTHO_CLAUSE = "minimum-image-in-slightly-triclinic-cell"
FUNCS = "md.compute_distances, md.compute_displacements, md.compute_distances_t, compute_distances_core, find_closest_contact"
C05_FAMILIES = L.FAMILIES + ["near-ortho", "prism-c-varies"]


# ------------------------------------------------------------------------------------------------
# generators (shared with C07/C09/C10/C11 through `periodic_traj`)
# ------------------------------------------------------------------------------------------------

def family_cells(family, rng, n_frames, constant=False):
    if family == "near-ortho":
        # general triclinic cell whose angles are within 9e-4 degrees of 90 (inside the quantifier:
        # "general triclinic with angles from 45 to 135 degrees")
        l = L._lengths(rng, 3.0, 9.0)
        ang = 90.0 + rng.choice([-1, 1], size=3) * rng.uniform(5e-4, 8e-4, size=3)
        lengths, angles = np.tile(l, (n_frames, 1)), np.tile(ang, (n_frames, 1))
    elif family == "prism-c-varies":
        # constant-area ensemble: a hexagonal/monoclinic prism whose in-plane cell (a, b, gamma) is the SAME in every frame while the height c
        # fluctuates -- consecutive frames share most of their cell matrix but not all of it
        ab = float(rng.uniform(3.0, 6.0))
        gamma = float(rng.choice([60.0, 120.0, 75.0]))
        c = rng.uniform(3.5, 9.0, size=n_frames)
        lengths = np.stack([np.full(n_frames, ab), np.full(n_frames, ab), c], axis=1)
        angles = np.tile([90.0, 90.0, gamma], (n_frames, 1))
    else:
        lengths, angles = L.cells(family, rng, n_frames)
    if constant:
        lengths = np.tile(lengths[0], (n_frames, 1))
        angles = np.tile(angles[0], (n_frames, 1))
    return lengths, angles


def periodic_traj(family, pts, seed, n_atoms, n_frames, constant=False, top=None):
    """deterministic trajectory: cell of `family`, fractional point set `pts` mapped through the float32
    cell vectors mdtraj itself reports (so spec and code see the same cell)"""
    fams = C05_FAMILIES
    rng = np.random.default_rng([int(seed), fams.index(family), L.POINT_SETS.index(pts), int(n_atoms), int(n_frames), int(constant)])
    lengths, angles = family_cells(family, rng, n_frames, constant)
    t = md.Trajectory(np.zeros((n_frames, n_atoms, 3), dtype=np.float32), top if top is not None else make_topology(n_atoms),
                      unitcell_lengths=lengths, unitcell_angles=angles)
    box = np.asarray(t.unitcell_vectors, dtype=np.float64)
    xyz = np.empty((n_frames, n_atoms, 3))
    for f in range(n_frames):
        xyz[f] = L.fractional_points(pts, rng, n_atoms) @ box[f]
    t.xyz = xyz.astype(np.float32)
    return t, rng


def cell_class(family, box):
    """coarse, stable description of the cell for witness classes"""
    if family == "near-ortho":
        return "cell-angles-within-1e-3deg-of-90"
    if family in ("cubic", "ortho"):
        return "orthorhombic"
    a, b, c = np.asarray(box, dtype=np.float64)
    red = abs(b[0]) <= 0.51 * a[0] and abs(c[0]) <= 0.51 * a[0] and abs(c[1]) <= 0.51 * b[1]
    return "triclinic-reduced" if red else "triclinic-unreduced"


def pts_class(pts):
    return {"inside": "", "spread": ":atoms-outside-primary-cell", "faces": ":atoms-on-cell-faces"}[pts]


def pair_list(n_atoms, rng, m):
    """m random i!=j pairs (both orders), plus repeated rows and i==j rows"""
    allp = [(i, j) for i in range(n_atoms) for j in range(n_atoms) if i != j]
    idx = rng.choice(len(allp), size=min(m, len(allp)), replace=False)
    p = [allp[k] for k in idx]
    p += [p[0], p[0], (p[1][1], p[1][0])]          # repeated / reversed
    p += [(0, 0), (n_atoms - 1, n_atoms - 1)]    # i == j
    return np.array(p, dtype=np.int64)


def in_range(family, sdist, box, tol):
    """rows for which the statement demands equality with the true minimum"""
    if family in ("cubic", "ortho"):
        return np.ones(len(sdist), dtype=bool)
    return sdist < 0.5 * L.min_width(box) - tol


class Snapshot:
    """bit-exact copies of everything a geometry call is given"""

    def __init__(self, t, *arrays):
        self.t = t
        self.xyz = t.xyz.tobytes()
        self.xyz_obj = t._xyz
        self.ul = None if t.unitcell_lengths is None else t.unitcell_lengths.tobytes()
        self.ua = None if t.unitcell_angles is None else t.unitcell_angles.tobytes()
        self.uv = None if t.unitcell_vectors is None else t.unitcell_vectors.tobytes()
        self.time = t.time.tobytes()
        self.arrays = [(a, a.tobytes()) for a in arrays]

    def changed(self):
        t = self.t
        out = []
        if t.xyz.tobytes() != self.xyz:
            out.append("xyz")
        if (None if t.unitcell_lengths is None else t.unitcell_lengths.tobytes()) != self.ul:
            out.append("unitcell_lengths")
        if (None if t.unitcell_angles is None else t.unitcell_angles.tobytes()) != self.ua:
            out.append("unitcell_angles")
        if (None if t.unitcell_vectors is None else t.unitcell_vectors.tobytes()) != self.uv:
            out.append("unitcell_vectors")
        if t.time.tobytes() != self.time:
            out.append("time")
        for k, (a, b) in enumerate(self.arrays):
            if a.tobytes() != b:
                out.append(f"index-array-{k}")
        return out


# ------------------------------------------------------------------------------------------------
# one case = (family, point set, seed, sizes); evaluated for opt in {True, False}
# ------------------------------------------------------------------------------------------------

def _wc(func, opt, cc, pts, failed_base):
    base = f"{func}:{'opt' if opt else 'reference'}:{cc}"
    return base if (pts == "inside" or base in failed_base) else base + pts_class(pts)


def eval_mic_case(chks, case, failed_base):
    family, pts, seed, n_atoms, n_frames, m = (case[k] for k in ("family", "pts", "seed", "n_atoms", "n_frames", "n_pairs"))
    chk, chk_agree, chk_unch = chks["mic"], chks["agree"], chks["unchanged"]
    t, rng = periodic_traj(family, pts, seed, n_atoms, n_frames)
    pairs = pair_list(n_atoms, rng, m)
    box = np.asarray(t.unitcell_vectors, dtype=np.float64)
    x = t.xyz.astype(np.float64)
    res = {}
    for opt in (True, False):
        snap = Snapshot(t, pairs)
        d = md.compute_distances(t, pairs, periodic=True, opt=opt)
        v = md.compute_displacements(t, pairs, periodic=True, opt=opt)
        ch = snap.changed()
        if ch:
            chk_unch.fail("inputs-unchanged", f"compute_distances/displacements:{'opt' if opt else 'reference'}:{','.join(ch)}",
                          f"{ch} modified by compute_distances/compute_displacements(opt={opt})", dict(case, opt=opt, kind="mic"))
        else:
            chk_unch.ok()
        res[opt] = (np.asarray(d, dtype=np.float64), np.asarray(v, dtype=np.float64))
        if d.shape != (n_frames, len(pairs)) or v.shape != (n_frames, len(pairs), 3):
            chk.fail("shape", f"compute_distances:{'opt' if opt else 'reference'}", f"shapes {d.shape} {v.shape}", dict(case, opt=opt, kind="mic"))
            return
    for f in range(n_frames):
        diff = x[f, pairs[:, 1]] - x[f, pairs[:, 0]]
        sdisp, sdist, second = L.min_image(diff, box[f], want_second=True)
        tol = L.dist_tol(box[f])
        cc = cell_class(family, box[f])
        rng_mask = in_range(family, sdist, box[f], tol)
        unique = second - sdist > 1e-5 + 2 * tol
        for opt in (True, False):
            d, v = res[opt][0][f], res[opt][1][f]
            info = dict(case, opt=opt, frame=f, kind="mic")

            def bad(clause, func, mask, what, obs, exp):
                k = int(np.argmax(mask))
                wc = _wc(func, opt, cc, pts, failed_base)
                if family == "near-ortho":  # one root cause (cell dispatched to the orthorhombic kernel): one key per function
                    clause, wc = NEAR_ORTHO_CLAUSE, f"{func}:{'opt' if opt else 'reference'}:{cc}"
                if pts == "inside":
                    failed_base.add(wc)
                chk.fail(clause, wc, f"{what} [family={family} points={pts} pair={pairs[k].tolist()} frame={f} tol={tol:.2e}]",
                         dict(info, pair=pairs[k].tolist()), observed=obs[k], expected=exp[k])

            n_bad = 0
            _, resid = L.lattice_coefficients(v - diff, box[f])
            if (resid > tol).any():
                n_bad += 1
                bad("displacement-lattice-congruent", "compute_displacements", resid > tol,
                    "displacement minus coordinate difference is not an integer combination of the cell vectors", v, sdisp)
            vl = np.sqrt((v ** 2).sum(1))
            if (np.abs(vl - d) > tol).any():
                n_bad += 1
                bad("distance-is-displacement-length", "compute_distances", np.abs(vl - d) > tol,
                    "compute_distances differs from |compute_displacements|", d, vl)
            for func, val in (("compute_distances", d), ("compute_displacements", vl)):
                if (val < sdist - tol).any():
                    n_bad += 1
                    bad("never-below-minimum", func, val < sdist - tol, "reported distance is below the true minimum over all images", val, sdist)
                m_ = rng_mask & (np.abs(val - sdist) > tol)
                if m_.any():
                    n_bad += 1
                    bad("equals-minimum-image", func, m_, "reported distance is not the smallest image distance (inside the range where the minimum image is defined)", val, sdist)
            m_ = rng_mask & unique & (np.sqrt(((v - sdisp) ** 2).sum(1)) > 2 * tol)
            if m_.any() and not n_bad:
                n_bad += 1
                bad("displacement-is-minimum-image", "compute_displacements", m_, "displacement is not the (unique) minimum image", v, sdisp)
            if not n_bad:
                chk.ok(nontrivial=(family, pts, opt, f, bool((~rng_mask).any())),
                       sample={"family": family, "points": pts, "opt": opt, "n_pairs": len(pairs), "in_range": int(rng_mask.sum()),
                               "max_err": float(np.abs(d - sdist)[rng_mask].max()), "tol": tol})
        # opt vs reference
        dd = np.abs(res[True][0][f] - res[False][0][f])
        tie = L.wrap_tie_margin(diff, box[f]) < 1e-4 if family not in ("cubic", "ortho", "near-ortho") else np.zeros(len(diff), bool)
        m_ = (dd > tol) & (rng_mask | ~tie)
        if family == "near-ortho":
            continue
        if m_.any():
            k = int(np.argmax(m_))
            chk_agree.fail("opt-reference-agree", f"compute_distances:{cc}" + ("" if rng_mask[k] else ":beyond-half-width"),
                           f"opt and reference distances differ by {dd[k]:.3g} [family={family} points={pts} pair={pairs[k].tolist()}]",
                           dict(case, frame=f, kind="mic", pair=pairs[k].tolist()), observed=res[True][0][f][k], expected=res[False][0][f][k])
        else:
            chk_agree.ok(nontrivial=(family, pts, f))


def eval_euclid_case(chks, case):
    """periodic=False with a cell, and no cell at all (periodic True and False)"""
    chk = chks["euclid"]
    family, pts, seed, n_atoms, n_frames, m = (case[k] for k in ("family", "pts", "seed", "n_atoms", "n_frames", "n_pairs"))
    t, rng = periodic_traj(family, pts, seed, n_atoms, n_frames)
    pairs = pair_list(n_atoms, rng, m)
    x = t.xyz.astype(np.float64)
    diff = x[:, pairs[:, 1]] - x[:, pairs[:, 0]]
    ed = np.sqrt((diff ** 2).sum(-1))
    nocell = md.Trajectory(t.xyz.copy(), t.topology)
    times = np.array([[0, n_frames - 1], [n_frames - 1, 0], [0, 0]])
    dt = x[times[:, 1]][:, pairs[:, 1]] - x[times[:, 0]][:, pairs[:, 0]]
    edt = np.sqrt((dt ** 2).sum(-1))
    # tolerance: 4 float32 roundings at the magnitude of the largest coordinate difference
    tol = max(1e-6, 4 * float(L.ulp32(np.abs(diff).max())))
    for label, traj, periodic in (("periodic=False", t, False), ("no-cell", nocell, True), ("no-cell:periodic=False", nocell, False)):
        for opt in (True, False):
            snap = Snapshot(traj, pairs)
            d = np.asarray(md.compute_distances(traj, pairs, periodic=periodic, opt=opt), dtype=np.float64)
            v = np.asarray(md.compute_displacements(traj, pairs, periodic=periodic, opt=opt), dtype=np.float64)
            d_t = np.asarray(md.compute_distances_t(traj, pairs, times, periodic=periodic, opt=opt), dtype=np.float64)
            info = dict(case, opt=opt, label=label, kind="euclid")
            path = "opt" if opt else "reference"
            ok = True
            if snap.changed():
                ok = False
                chks["unchanged"].fail("inputs-unchanged", f"non-periodic:{path}:{','.join(snap.changed())}", "inputs modified", info)
            if d.shape != ed.shape or np.abs(d - ed).max() > tol:
                ok = False
                chk.fail("euclidean-distance", f"compute_distances:{path}:{label}", f"non-periodic distance is not the Euclidean distance (tol {tol:.1e})", info,
                         observed=d.ravel()[:6], expected=ed.ravel()[:6])
            if v.shape != diff.shape or np.abs(v - diff).max() > tol:
                ok = False
                chk.fail("euclidean-displacement", f"compute_displacements:{path}:{label}", f"non-periodic displacement is not x_b - x_a (tol {tol:.1e})", info,
                         observed=v.ravel()[:6], expected=diff.ravel()[:6])
            if d_t.shape != edt.shape or np.abs(d_t - edt).max() > tol:
                ok = False
                chk.fail("euclidean-distance-t", f"compute_distances_t:{path}:{label}", f"non-periodic time-pair distance is not Euclidean (tol {tol:.1e})", info,
                         observed=d_t.ravel()[:6], expected=edt.ravel()[:6])
            if ok:
                chk.ok(nontrivial=(family, pts, label, opt))


def eval_time_case(chks, case, failed_base):
    chk = chks["time"]
    family, pts, seed, n_atoms, n_frames, m = (case[k] for k in ("family", "pts", "seed", "n_atoms", "n_frames", "n_pairs"))
    constant = case.get("constant", True)
    t, rng = periodic_traj(family, pts, seed, n_atoms, n_frames, constant=constant)
    pairs = pair_list(n_atoms, rng, m)
    times = np.array([(a, b) for a in range(n_frames) for b in range(n_frames)] + [(0, 0)], dtype=np.int64)
    box = np.asarray(t.unitcell_vectors, dtype=np.float64)
    x = t.xyz.astype(np.float64)
    out = {}
    for opt in (True, False):
        snap = Snapshot(t, pairs, times)
        out[opt] = np.asarray(md.compute_distances_t(t, pairs, times, periodic=True, opt=opt), dtype=np.float64)
        if snap.changed():
            chks["unchanged"].fail("inputs-unchanged", f"compute_distances_t:{'opt' if opt else 'reference'}:{','.join(snap.changed())}",
                                   "inputs modified by compute_distances_t", dict(case, opt=opt, kind="time"))
        if out[opt].shape != (len(times), len(pairs)):
            chk.fail("shape", f"compute_distances_t:{'opt' if opt else 'reference'}", f"shape {out[opt].shape} != {(len(times), len(pairs))}", dict(case, opt=opt, kind="time"))
            return
    same = {opt: md.compute_distances(t, pairs, periodic=True, opt=opt).astype(np.float64) for opt in (True, False)}
    for k, (t1, t2) in enumerate(times):
        bx = box[t1]
        tol = L.dist_tol(bx)
        cc = cell_class(family, bx)
        diff = x[t2, pairs[:, 1]] - x[t1, pairs[:, 0]]
        ok = True
        if constant or t1 == t2:
            sdisp, sdist = L.min_image(diff, bx)
            rmask = in_range(family, sdist, bx, tol)
            for opt in (True, False):
                val = out[opt][k]
                info = dict(case, opt=opt, time_pair=[int(t1), int(t2)], kind="time")
                wc = _wc("compute_distances_t", opt, cc, pts, failed_base)
                if family == "near-ortho":
                    if ((val < sdist - tol) | (rmask & (np.abs(val - sdist) > tol))).any():
                        ok = False
                        j = int(np.argmax((val < sdist - tol) | (rmask & (np.abs(val - sdist) > tol))))
                        chk.fail(NEAR_ORTHO_CLAUSE, f"compute_distances_t:{'opt' if opt else 'reference'}:{cc}",
                                 f"time-pair distance is not the smallest image distance [family={family} points={pts} times={(int(t1), int(t2))}]",
                                 dict(info, pair=pairs[j].tolist()), val[j], sdist[j])
                    continue
                if (val < sdist - tol).any():
                    ok = False
                    j = int(np.argmax(val < sdist - tol))
                    chk.fail("never-below-minimum", wc, f"time-pair distance below the true minimum [family={family} points={pts}]", dict(info, pair=pairs[j].tolist()), val[j], sdist[j])
                m_ = rmask & (np.abs(val - sdist) > tol)
                if m_.any():
                    ok = False
                    j = int(np.argmax(m_))
                    if pts == "inside":
                        failed_base.add(wc)
                    chk.fail("equals-minimum-image", wc, f"time-pair distance is not the smallest image distance [family={family} points={pts} times={(int(t1), int(t2))}]",
                             dict(info, pair=pairs[j].tolist()), val[j], sdist[j])
                if t1 == t2:
                    m_ = np.abs(val - same[opt][t1]) > tol
                    # outside the defined range the two kernels need not pick the same image at a wrap tie
                    m_ &= rmask | (L.wrap_tie_margin(diff, bx) >= 1e-4 if family not in ("cubic", "ortho", "near-ortho") else True)
                    if m_.any():
                        ok = False
                        j = int(np.argmax(m_))
                        chk.fail("time-pair-agrees-with-compute_distances", wc, f"compute_distances_t on (t,t) differs from compute_distances on frame t [family={family}]",
                                 dict(info, pair=pairs[j].tolist()), val[j], same[opt][t1][j])
        else:
            rmask = np.zeros(len(pairs), bool)
        dd = np.abs(out[True][k] - out[False][k])
        tie = L.wrap_tie_margin(diff, bx) < 1e-4 if family not in ("cubic", "ortho", "near-ortho") else np.zeros(len(diff), bool)
        m_ = (dd > tol) & (rmask | ~tie)
        if m_.any() and family != "near-ortho":
            ok = False
            j = int(np.argmax(m_))
            chk.fail("opt-reference-agree", f"compute_distances_t:{cc}" + ("" if constant else ":per-frame-varying-cell"),
                     f"opt and reference time-pair distances differ by {dd[j]:.3g} [family={family} points={pts} times={(int(t1), int(t2))}]",
                     dict(case, time_pair=[int(t1), int(t2)], kind="time", pair=pairs[j].tolist()), out[True][k][j], out[False][k][j])
        if ok:
            chk.ok(nontrivial=(family, pts, int(t1 != t2), constant))


def eval_empty_case(chks, case):
    """empty pair list: shapes (n_frames,0), (n_frames,0,3), (n_times,0)"""
    chk = chks["time"]
    family, pts, seed, n_atoms, n_frames = (case[k] for k in ("family", "pts", "seed", "n_atoms", "n_frames"))
    t, rng = periodic_traj(family, pts, seed, n_atoms, n_frames)
    empty = np.zeros((0, 2), dtype=np.int64)
    times = np.array([[0, 0], [0, n_frames - 1], [n_frames - 1, 0], [0, 0], [0, 0]], dtype=np.int64)[: n_frames + 2]
    for periodic in (True, False):
        for opt in (True, False):
            path = "opt" if opt else "reference"
            info = dict(case, opt=opt, periodic=periodic, kind="empty")
            d = md.compute_distances(t, empty, periodic=periodic, opt=opt)
            v = md.compute_displacements(t, empty, periodic=periodic, opt=opt)
            if d.shape != (n_frames, 0) or v.shape != (n_frames, 0, 3):
                chk.fail("shape", f"compute_distances:{path}:empty-pair-list", f"shapes {d.shape} {v.shape}", info)
            else:
                chk.ok()
            dt = md.compute_distances_t(t, empty, times, periodic=periodic, opt=opt)
            if dt.shape != (len(times), 0):
                chk.fail("shape", "compute_distances_t:empty-pair-list", f"compute_distances_t with an empty pair list and {len(times)} time pairs on a "
                         f"{n_frames}-frame trajectory returns shape {dt.shape}, documented (num_times, num_atom_pairs) = {(len(times), 0)}", info,
                         observed=list(dt.shape), expected=[len(times), 0])
            else:
                chk.ok(nontrivial=("empty-t", periodic, opt))


def eval_core_case(chks, case):
    """compute_distances_core called directly with user-held float32 arrays (standard orientation,
    reduced or unreduced): values as above and the caller's arrays bit-identical afterwards"""
    chk_u, chk = chks["unchanged"], chks["mic"]
    family, pts, seed, n_atoms, n_frames, m = (case[k] for k in ("family", "pts", "seed", "n_atoms", "n_frames", "n_pairs"))
    t, rng = periodic_traj(family, pts, seed, n_atoms, n_frames)
    pairs = pair_list(n_atoms, rng, m).astype(np.int32)
    for opt in (True, False):
        xyz = np.ascontiguousarray(t.xyz, dtype=np.float32).copy()
        uv = np.ascontiguousarray(t.unitcell_vectors, dtype=np.float32).copy()
        p = pairs.copy()
        b_xyz, b_uv, b_p = xyz.tobytes(), uv.tobytes(), p.tobytes()
        d = np.asarray(mdist.compute_distances_core(xyz, p, unitcell_vectors=uv, periodic=True, opt=opt), dtype=np.float64)
        changed = [n for n, a, b in (("positions", xyz, b_xyz), ("unitcell_vectors", uv, b_uv), ("atom_pairs", p, b_p)) if a.tobytes() != b]
        path = "opt" if opt else "reference"
        info = dict(case, opt=opt, kind="core")
        if changed:
            chk_u.fail("inputs-unchanged", f"compute_distances_core:{path}:{','.join(changed)}-rewritten",
                       f"compute_distances_core(opt={opt}) modified the caller's {changed} (float32, C-contiguous) [family={family}]", info,
                       observed=uv[0], expected=np.frombuffer(b_uv, dtype=np.float32).reshape(uv.shape)[0])
        else:
            chk_u.ok(nontrivial=(family, opt))
        if family == "near-ortho":  # values: same root cause as compute_distances (thin wrapper), reported there
            continue
        box = np.frombuffer(b_uv, dtype=np.float32).reshape(uv.shape).astype(np.float64)
        x = np.frombuffer(b_xyz, dtype=np.float32).reshape(xyz.shape).astype(np.float64)
        for f in range(n_frames):
            diff = x[f, pairs[:, 1]] - x[f, pairs[:, 0]]
            sdisp, sdist = L.min_image(diff, box[f])
            tol = L.dist_tol(box[f])
            rmask = in_range(family, sdist, box[f], tol)
            m_ = (rmask & (np.abs(d[f] - sdist) > tol)) | (d[f] < sdist - tol)
            if m_.any():
                k = int(np.argmax(m_))
                chk.fail("equals-minimum-image", f"compute_distances_core:{path}:{cell_class(family, box[f])}" + pts_class(pts),
                         f"compute_distances_core distance is not the smallest image distance [family={family}]", dict(info, frame=f, pair=pairs[k].tolist()), d[f][k], sdist[k])
            else:
                chk.ok()


def eval_contact_case(chks, case, failed_base):
    """find_closest_contact(traj, g1, g2, frame, periodic): returned distance is an image distance of the
    returned pair, never below the true minimum over all pairs/images, and equal to it inside the
    defined range (orthorhombic: always; skewed: true minimum < half the smallest width)."""
    chk = chks["contact"]
    family, pts, seed, n_atoms, n_frames = (case[k] for k in ("family", "pts", "seed", "n_atoms", "n_frames"))
    t, rng = periodic_traj(family, pts, seed, n_atoms, n_frames)
    box = np.asarray(t.unitcell_vectors, dtype=np.float64)
    x = t.xyz.astype(np.float64)
    perm = rng.permutation(n_atoms)
    h = max(1, n_atoms // 2)
    g1, g2 = np.sort(perm[:h]), np.sort(perm[h:])
    if len(g2) == 0:
        return
    for f in range(n_frames):
        for periodic in (True, False):
            snap = Snapshot(t, g1, g2)
            i, j, d = mdist.find_closest_contact(t, g1, g2, frame=f, periodic=periodic)
            info = dict(case, frame=f, periodic=periodic, kind="contact")
            if snap.changed():
                chks["unchanged"].fail("inputs-unchanged", f"find_closest_contact:{','.join(snap.changed())}", "inputs modified", info)
            tol = L.dist_tol(box[f])
            cc = cell_class(family, box[f])
            wc = "find_closest_contact:" + (cc if periodic else "periodic=False")
            if periodic and pts != "inside" and wc not in failed_base:
                wc += pts_class(pts)
            ii, jj = np.meshgrid(g1, g2, indexing="ij")
            diff = x[f, jj.ravel()] - x[f, ii.ravel()]
            if periodic:
                sd = L.min_image(diff, box[f])[1]
            else:
                sd = np.sqrt((diff ** 2).sum(1))
            best = float(sd.min())
            if not (i in set(g1.tolist()) and j in set(g2.tolist())):
                chk.fail("returned-pair-in-groups", wc, f"returned atoms {(i, j)} are not one from each group", info)
                continue
            dij = x[f, j] - x[f, i]
            if periodic:
                # is d the length of SOME image of the returned pair?  (images within +-6 cells of the wrapped one)
                pair_min = L.min_image(dij[None], box[f])[1][0]
                ok_img = L.image_length_gap(d, dij, box[f]) <= tol
            else:
                pair_min = float(np.linalg.norm(dij))
                ok_img = abs(d - pair_min) <= tol
            defined = (not periodic) or family in ("cubic", "ortho") or best < 0.5 * L.min_width(box[f]) - tol
            bad = None
            if d < best - tol or not ok_img:
                bad = ("never-below-minimum", "closest-contact distance is below the true minimum image distance")
            elif defined and abs(d - best) > tol:
                bad = ("equals-minimum-image", "closest-contact distance is not the smallest image distance over the two groups")
            elif defined and abs(pair_min - best) > 1e-5 + 2 * tol:
                bad = ("closest-pair", "returned pair is not a closest pair")
            if bad:
                if pts == "inside":
                    failed_base.add(wc)
                chk.fail(bad[0], wc, f"{bad[1]} [family={family} points={pts} frame={f} returned={(int(i), int(j), float(d))} true minimum={best:.6f} "
                         f"half smallest width={0.5 * L.min_width(box[f]):.4f} tol={tol:.1e}]", info, observed=float(d), expected=best)
            else:
                chk.ok(nontrivial=(family, pts, periodic, defined))


# ------------------------------------------------------------------------------------------------

def _checks(tier, n_cases):
    fam = ", ".join(C05_FAMILIES)
    mk = lambda name, fn, bound, rule, **kw: Check(name, fn, bound, rule, stands_in_for="dist_mic / dist_mic_triclinic(_t) / find_closest_contact (SSE kernels, float32) and the numpy reference path", **kw)
    common = (f"cell families [{fam}] (lengths 1.5-9 nm, ratio<=6, angles 45-135, min width >= 0.25*shortest edge; per-frame rescaled; 'varying' and "
              f"'mixed-ortho-tric' change shape per frame) x point sets [inside, spread over +-5 cells, on faces/edges (half-integer fractional coordinates)] "
              f"x {n_cases['seeds']} seed(s) x opt in (True,False); {n_cases['n_atoms']} atoms, {n_cases['n_frames']} frames, {n_cases['n_pairs']}+5 pairs (incl. repeated, reversed, i==j)")
    return {
        "mic": mk("mic-vs-bruteforce", "md.compute_distances, md.compute_displacements, compute_distances_core", common,
                  "oracle = brute-force minimum over lattice images in [-K,K]^3, K>=3 (raised to the rigorous bound); one evaluation = one frame x one code path; "
                  "non-trivial = frame containing pairs beyond half the smallest width; tol = 1e-5*max(1,|box|)"),
        "agree": mk("opt-vs-reference", "md.compute_distances opt=True vs opt=False", common,
                    "distances of the two paths within tol; beyond half the smallest width pairs within 1e-4 of a wrap discontinuity are excluded (ties)"),
        "euclid": mk("non-periodic-euclidean", "compute_distances/displacements/distances_t with periodic=False or without a cell", common,
                     "plain float64 Euclidean values; tol = 4 ulp32(max |coordinate difference|)"),
        "time": mk("time-pair-variant", "md.compute_distances_t", common + "; all ordered frame pairs; empty pair list",
                   "constant-cell trajectories: brute force between atom a at t1 and atom b at t2; (t,t) pairs also on per-frame varying cells and against compute_distances; "
                   "opt vs reference on every case; result shape (n_times, n_pairs)"),
        "contact": mk("closest-contact", "mdtraj.geometry.distance.find_closest_contact", common + "; two random disjoint groups; periodic in (True,False)",
                      "returned distance is an image distance of the returned pair, >= true minimum, == true minimum inside the defined range; returned pair attains it (ties within 1e-5 excluded)"),
        "unchanged": mk("inputs-unchanged", FUNCS, common + "; plus compute_distances_core on caller-held float32 arrays",
                        "bytes of xyz, unitcell_lengths/angles/vectors, time and the index arrays before == after every call"),
    }


def _cases(tier, seed):
    if tier == "quick":
        sizes = dict(n_atoms=12, n_frames=2, n_pairs=20)
        seeds = [seed * 1000 + k for k in range(4)]
    else:
        sizes = dict(n_atoms=14, n_frames=3, n_pairs=30)
        seeds = [seed * 1000 + 100 + k for k in range(20)]
    cases = []
    for s in seeds:
        for pts in L.POINT_SETS:  # inside first: minimal witnesses
            for fam in C05_FAMILIES:
                cases.append(dict(family=fam, pts=pts, seed=s, **sizes))
    return cases, dict(sizes, seeds=len(seeds))


def run(tier, seed, hint):
    cases, n = _cases(tier, seed)
    chks = _checks(tier, n)
    fb = {"mic": set(), "time": set(), "contact": set()}
    cases.sort(key=lambda c: L.POINT_SETS.index(c["pts"]))
    for case in cases:
        eval_mic_case(chks, case, fb["mic"])
        eval_contact_case(chks, case, fb["contact"])
        eval_euclid_case(chks, case)
        tc = dict(case, n_frames=max(2, case["n_frames"]), n_pairs=max(6, case["n_pairs"] // 2))
        eval_time_case(chks, dict(tc, constant=True), fb["time"])
        if case["family"] in ("varying", "mixed-ortho-tric", "triclinic", "ortho", "prism-c-varies"):
            eval_time_case(chks, dict(tc, constant=False), fb["time"])
        if case["pts"] == "inside":
            eval_empty_case(chks, case)
            eval_core_case(chks, case)
    return list(chks.values())


def replay(payload):
    inp = payload.get("input") or payload.get("failing_input")
    chks = _checks("quick", dict(seeds=1, n_atoms=inp.get("n_atoms"), n_frames=inp.get("n_frames"), n_pairs=inp.get("n_pairs")))
    case = {k: inp[k] for k in ("family", "pts", "seed", "n_atoms", "n_frames", "n_pairs") if k in inp}
    kind = inp.get("kind", "mic")
    if kind == "mic":
        eval_mic_case(chks, case, set())
    elif kind == "euclid":
        eval_euclid_case(chks, case)
    elif kind == "time":
        eval_time_case(chks, dict(case, constant=inp.get("constant", True)), set())
    elif kind == "empty":
        eval_empty_case(chks, case)
    elif kind == "core":
        eval_core_case(chks, case)
    elif kind == "contact":
        eval_contact_case(chks, case, set())
    fails = [f for c in chks.values() for f in c.failures]
    return {"reproduced": bool(fails), "failures": fails}
