"""Bounded contract checks (BCC): the run-time stand-in of the deductive layer.

A BCC module `bcc/<cXX>.py` exposes

    run(tier, seed, hint)  -> list[Check]      # evaluate contracts on the REAL code over a stated, bounded input space
    replay(payload)        -> dict             # re-execute one recorded failing input: {"reproduced": bool, ...}
    concretise(req)        -> dict | None      # optional: solver counter-model -> concrete failing input

Everything reported by this layer is labelled *bounded* in the evidence and never counted as proved.
A failure has a `key`  "bcc:<clause>:<witness-class>"  (the specific input class / call site / history),
which is what known_findings.txt refers to, and `explains`: ids of deductive obligations that this
concrete input is a replayed witness for.
"""
from __future__ import annotations

import json


class Check:
    def __init__(self, name, function, bound, rule, stands_in_for="", exhaustive=False):
        self.name = name
        self.function = function
        self.bound = bound
        self.rule = rule
        self.stands_in_for = stands_in_for
        self.exhaustive = exhaustive
        self.evaluations = 0
        self._distinct = set()
        self.samples = []
        self.failures = []
        self._fail_keys = set()

    def ok(self, nontrivial=None, sample=None):
        """count one evaluation; `nontrivial` is a hashable description of the case when it is a
        non-trivial one (distinct values are counted)"""
        self.evaluations += 1
        if nontrivial is not None:
            self._distinct.add(nontrivial)
        if sample is not None and len(self.samples) < 3:
            self.samples.append(sample)

    def fail(self, clause, witness_class, what, input, observed=None, expected=None, explains=()):
        key = f"bcc:{clause}:{witness_class}"
        self.evaluations += 1
        if key in self._fail_keys:
            return
        self._fail_keys.add(key)
        self.failures.append({
            "key": key, "clause": clause, "witness_class": witness_class, "what": what,
            "input": input, "observed": _j(observed), "expected": _j(expected), "explains": list(explains),
        })

    def result(self):
        return {
            "name": self.name, "function": self.function, "bound": self.bound, "rule": self.rule,
            "stands_in_for": self.stands_in_for, "exhaustive": self.exhaustive,
            "evaluations": self.evaluations, "distinct_nontrivial": len(self._distinct),
            "samples": self.samples, "failures": self.failures,
        }


def _j(x):
    try:
        import numpy as np

        if isinstance(x, np.ndarray):
            return x.tolist() if x.size <= 64 else {"shape": list(x.shape), "head": x.ravel()[:16].tolist()}
        if isinstance(x, (np.floating, np.integer, np.bool_)):
            return x.item()
    except Exception:
        pass
    try:
        json.dumps(x)
        return x
    except Exception:
        return repr(x)
