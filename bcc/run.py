"""/venv/bin/python bcc/run.py <Cxx> --tier T --seed S --out FILE [--repo R] [--hint JSON] | --replay FILE | --concretise JSON"""
import argparse
import importlib
import json
import os
import sys
import time
import traceback
import warnings

HERE = os.path.dirname(os.path.abspath(__file__))
sys.path.insert(0, os.path.dirname(HERE))


def main():
    ap = argparse.ArgumentParser()
    ap.add_argument("pid")
    ap.add_argument("--tier", default="quick")
    ap.add_argument("--seed", type=int, default=0)
    ap.add_argument("--out", required=True)
    ap.add_argument("--repo", default="/repo")
    ap.add_argument("--hint")
    ap.add_argument("--replay")
    ap.add_argument("--concretise")
    a = ap.parse_args()
    warnings.simplefilter("ignore")
    res = {"checks": [], "error": None}
    try:
        from bcc import overlay

        root, info = overlay.ensure(a.repo)
        res["overlay"] = info
        if root:
            sys.path.insert(0, root)
        os.environ["MDVC_SCRATCH"] = os.path.join(os.path.dirname(HERE), "scratch")
        mod = importlib.import_module("bcc." + a.pid.lower())
        import mdtraj

        res["mdtraj_file"] = mdtraj.__file__
        if a.replay:
            payload = json.load(open(a.replay))
            res = mod.replay(payload)
        elif a.concretise:
            f = getattr(mod, "concretise", None)
            res = f(json.loads(a.concretise)) if f else None
        else:
            hint = json.loads(a.hint) if a.hint else None
            t0 = time.time()
            checks = mod.run(a.tier, a.seed, hint)
            res["checks"] = [c.result() for c in checks]
            res["time_s"] = round(time.time() - t0, 2)
    except Exception as e:
        res = {"checks": [], "error": f"{type(e).__name__}: {e}\n{traceback.format_exc()[-2500:]}"}
    with open(a.out, "w") as fh:
        json.dump(res, fh, default=str)


if __name__ == "__main__":
    main()
