"""Kernel overlay: make `import mdtraj` see extension modules built from the CURRENT C/C++ sources.

Cython is not installed, so .pyx files cannot be re-translated; the Cython-generated .c/.cpp that
sit (untracked) next to the .pyx files are reused, and the hand-written C/C++ kernels are compiled
from the current tree.  Unchanged extensions (source hash equal to the pinned baseline recorded in
overlay_baseline.json) use the in-tree .so as is.  Built objects are cached per source hash under
/verif/scratch/so-cache (git-ignored; rebuilt when missing).

Runs under /venv/bin/python.
"""
from __future__ import annotations

import glob
import hashlib
import json
import os
import shutil
import subprocess
import sys
import sysconfig

HERE = os.path.dirname(os.path.abspath(__file__))
VERIF = os.path.dirname(HERE)
PRISTINE = "/repo"  # where the untracked generated C and .so live
SUFFIX = sysconfig.get_config_var("EXT_SUFFIX")

EXTS = {
    "mdtraj/formats/xtc": dict(
        gen="mdtraj/formats/xtc/xtc.c",
        sources=["mdtraj/formats/xtc/src/xdrfile.c", "mdtraj/formats/xtc/src/xdr_seek.c", "mdtraj/formats/xtc/src/xdrfile_xtc.c"],
        include=["mdtraj/formats/xtc/include", "mdtraj/formats/xtc"], lang="c", pyx="mdtraj/formats/xtc/xtc.pyx"),
    "mdtraj/formats/trr": dict(
        gen="mdtraj/formats/xtc/trr.c",
        sources=["mdtraj/formats/xtc/src/xdrfile.c", "mdtraj/formats/xtc/src/xdr_seek.c", "mdtraj/formats/xtc/src/xdrfile_trr.c"],
        include=["mdtraj/formats/xtc/include", "mdtraj/formats/xtc"], lang="c", pyx="mdtraj/formats/xtc/trr.pyx"),
    "mdtraj/formats/dcd": dict(
        gen="mdtraj/formats/dcd/dcd.c", sources=["mdtraj/formats/dcd/src/dcdplugin.c"],
        include=["mdtraj/formats/dcd/include", "mdtraj/formats/dcd"], lang="c", pyx="mdtraj/formats/dcd/dcd.pyx"),
    "mdtraj/formats/dtr": dict(
        gen="mdtraj/formats/dtr/dtr.cpp", sources=["mdtraj/formats/dtr/src/dtrplugin.cxx"],
        include=["mdtraj/formats/dtr/include", "mdtraj/formats/dtr"], lang="c++", defines=["DESRES_READ_TIMESTEP2=1"],
        pyx="mdtraj/formats/dtr/dtr.pyx"),
    "mdtraj/_rmsd": dict(
        gen="mdtraj/rmsd/_rmsd.cpp",
        sources=["mdtraj/rmsd/src/theobald_rmsd.cpp", "mdtraj/rmsd/src/rotation.cpp", "mdtraj/rmsd/src/center.cpp"],
        include=["mdtraj/rmsd/include", "mdtraj/rmsd/src"], lang="c++", omp=True, pyx="mdtraj/rmsd/_rmsd.pyx"),
    "mdtraj/_lprmsd": dict(
        gen="mdtraj/rmsd/_lprmsd.cpp",
        sources=["mdtraj/rmsd/src/theobald_rmsd.cpp", "mdtraj/rmsd/src/rotation.cpp", "mdtraj/rmsd/src/center.cpp",
                 "mdtraj/rmsd/src/fancy_index.cpp", "mdtraj/rmsd/src/Munkres.cpp", "mdtraj/rmsd/src/euclidean_permutation.cpp"],
        include=["mdtraj/rmsd/include", "mdtraj/rmsd/src"], lang="c++", omp=True, pyx="mdtraj/rmsd/_lprmsd.pyx"),
    "mdtraj/geometry/_geometry": dict(
        gen="mdtraj/geometry/src/_geometry.cpp",
        sources=["mdtraj/geometry/src/sasa.cpp", "mdtraj/geometry/src/dssp.cpp", "mdtraj/geometry/src/geometry.cpp"],
        include=["mdtraj/geometry/include", "mdtraj/geometry/src/kernels", "mdtraj/geometry/src"], lang="c++", omp=True,
        pyx="mdtraj/geometry/src/_geometry.pyx", extra_dep=["mdtraj/geometry/src/image_molecules.pxi"]),
    "mdtraj/geometry/drid": dict(
        gen="mdtraj/geometry/drid.cpp", sources=["mdtraj/geometry/src/dridkernels.cpp", "mdtraj/geometry/src/moments.cpp"],
        include=["mdtraj/geometry/include"], lang="c++", omp=True, pyx="mdtraj/geometry/drid.pyx"),
    "mdtraj/geometry/neighbors": dict(
        gen="mdtraj/geometry/neighbors.cpp", sources=["mdtraj/geometry/src/neighbors.cpp"],
        include=["mdtraj/geometry/include"], lang="c++", omp=True, pyx="mdtraj/geometry/neighbors.pyx"),
    "mdtraj/geometry/neighborlist": dict(
        gen="mdtraj/geometry/neighborlist.cpp", sources=["mdtraj/geometry/src/neighborlist.cpp"],
        include=["mdtraj/geometry/include"], lang="c++", omp=True, pyx="mdtraj/geometry/neighborlist.pyx"),
}


def _hash_ext(repo, ext):
    h = hashlib.sha256()
    files = list(ext["sources"])
    for inc in ext["include"]:
        for pat in ("*.h", "*.hpp", "*.hxx"):
            files += sorted(glob.glob(os.path.join(repo, inc, pat)))
    for f in files:
        p = f if os.path.isabs(f) else os.path.join(repo, f)
        try:
            with open(p, "rb") as fh:
                h.update(os.path.relpath(p, repo).encode() + b"\0" + fh.read())
        except OSError:
            h.update(b"missing:" + f.encode())
    return h.hexdigest()[:20]


def source_hashes(repo):
    return {name: _hash_ext(repo, ext) for name, ext in EXTS.items()}


def pyx_hashes(repo):
    out = {}
    for name, ext in EXTS.items():
        h = hashlib.sha256()
        for f in [ext["pyx"]] + ext.get("extra_dep", []):
            try:
                h.update(open(os.path.join(repo, f), "rb").read())
            except OSError:
                h.update(b"missing")
        out[name] = h.hexdigest()[:20]
    return out


def baseline():
    with open(os.path.join(HERE, "overlay_baseline.json")) as fh:
        return json.load(fh)


def _build(repo, name, ext, out):
    import numpy

    gen = os.path.join(repo, ext["gen"])
    if not os.path.exists(gen):
        gen = os.path.join(PRISTINE, ext["gen"])
    if not os.path.exists(gen):
        return f"generated source {ext['gen']} missing (Cython is not installed)"
    cxx = ext["lang"] == "c++"
    cmd = ["g++" if cxx else "gcc", "-O2", "-fPIC", "-shared", "-w", "-msse4.1"]
    if cxx:
        cmd += ["-std=c++11"]
    if ext.get("omp"):
        cmd += ["-fopenmp"]
    for d in ext.get("defines", []):
        cmd += ["-D" + d]
    cmd += ["-I" + sysconfig.get_paths()["include"], "-I" + numpy.get_include()]
    cmd += ["-I" + os.path.join(repo, i) for i in ext["include"]]
    cmd += [gen] + [os.path.join(repo, s) for s in ext["sources"]]
    cmd += ["-o", out + ".tmp"]
    p = subprocess.run(cmd, capture_output=True, text=True)
    if p.returncode != 0:
        return "compile failed: " + p.stderr[-1500:]
    os.replace(out + ".tmp", out)
    return None


def ensure(repo="/repo", verbose=False):
    """Returns (path_to_prepend_to_sys.path or None, info dict)."""
    repo = os.path.abspath(repo)
    cur = source_hashes(repo)
    base = baseline()
    changed = [n for n in EXTS if cur[n] != base["sources"].get(n)]
    pyx_changed = [n for n in EXTS if pyx_hashes(repo)[n] != base["pyx"].get(n)]
    info = {"kernel_overlay": bool(changed) or repo != PRISTINE, "rebuilt": [], "errors": {},
            "pyx_changed_but_not_rebuildable": pyx_changed}
    have_so = all(os.path.exists(os.path.join(repo, n + SUFFIX)) for n in EXTS)
    if not changed and have_so:
        info["kernel_overlay"] = False
        return (repo if repo != PRISTINE else None), info
    cache = os.path.join(VERIF, "scratch", "so-cache")
    os.makedirs(cache, exist_ok=True)
    # the key covers the repo path, the kernel source hashes and the list of package files (symlinks follow edits)
    listing = []
    for dp, dn, fn in os.walk(os.path.join(repo, "mdtraj")):
        dn[:] = [d for d in dn if d != "__pycache__"]
        listing += [os.path.relpath(os.path.join(dp, f), repo) for f in fn if not f.endswith((".pyc", ".so"))]
    key = hashlib.sha256((repo + json.dumps(cur, sort_keys=True) + "\n".join(sorted(listing))).encode()).hexdigest()[:16]
    root = os.path.join(VERIF, "scratch", "overlay", key)
    if os.path.exists(os.path.join(root, ".ok")):
        os.utime(os.path.join(root, ".ok"))
        return root, info
    final_root = root
    root = root + f".tmp{os.getpid()}"
    if os.path.isdir(root):
        shutil.rmtree(root)
    os.makedirs(root)
    # symlink tree of the package
    subprocess.run(["cp", "-rs", os.path.join(repo, "mdtraj"), os.path.join(root, "mdtraj")], check=True)
    from concurrent.futures import ThreadPoolExecutor

    def job(n):
        ext = EXTS[n]
        target = os.path.join(root, n + SUFFIX)
        if os.path.lexists(target):
            os.unlink(target)
        if n in changed:
            so = os.path.join(cache, n.replace("/", "_") + "-" + cur[n] + SUFFIX)
            if not os.path.exists(so):
                err = _build(repo, n, ext, so)
                if err:
                    return n, err
                info["rebuilt"].append(n)
            os.symlink(so, target)
        else:
            src = os.path.join(repo, n + SUFFIX)
            if not os.path.exists(src):
                src = os.path.join(PRISTINE, n + SUFFIX)
            os.symlink(src, target)
        return n, None

    with ThreadPoolExecutor(8) as tp:
        for n, err in tp.map(job, list(EXTS)):
            if err:
                info["errors"][n] = err
                # fall back to the pristine binary for this module; recorded in evidence
                src = os.path.join(PRISTINE, n + SUFFIX)
                t = os.path.join(root, n + SUFFIX)
                if not os.path.lexists(t) and os.path.exists(src):
                    os.symlink(src, t)
    open(os.path.join(root, ".ok"), "w").close()
    try:
        os.rename(root, final_root)
    except OSError:
        shutil.rmtree(root, ignore_errors=True)  # another process won the race; use its copy
    root = final_root
    # drop overlays not used for an hour (never a fresh one: concurrent runs may be using it)
    import time

    odir = os.path.join(VERIF, "scratch", "overlay")
    for d in os.listdir(odir):
        pth = os.path.join(odir, d)
        try:
            marker = os.path.join(pth, ".ok")
            age = time.time() - os.path.getmtime(marker if os.path.exists(marker) else pth)
            if d != key and age > 3600:
                shutil.rmtree(pth, ignore_errors=True)
        except OSError:
            pass
    return root, info


if __name__ == "__main__":
    if len(sys.argv) > 1 and sys.argv[1] == "--record-baseline":
        d = {"sources": source_hashes(PRISTINE), "pyx": pyx_hashes(PRISTINE)}
        with open(os.path.join(HERE, "overlay_baseline.json"), "w") as fh:
            json.dump(d, fh, indent=1)
        print("recorded")
    else:
        print(ensure(sys.argv[1] if len(sys.argv) > 1 else "/repo", verbose=True))
