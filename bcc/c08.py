"""C08 bounded contract check: per-frame locality and thread independence.

For every per-frame analysis f (see FUNCS) and a 9-frame trajectory  T = [X0, X0, X0, X1, X2, X3, X1, X4, X5]
(three adjacent copies of one frame, one more repeated frame, distinct frames; per-frame unit cells):

  (L1)  f(T)[i]          == f(T[i])[0]                for every i           BIT-FOR-BIT
  (L2)  f(T[perm])[k]    == f(T)[perm[k]]             for a fixed non-trivial permutation
  (L3)  f(T)[0] == f(T)[1] == f(T)[2]  and f(T)[3] == f(T)[6]  (identical frames => identical results; implied by L1)
  (T1)  all of the above digests are identical across OMP_NUM_THREADS x OMP_SCHEDULE x OMP_DYNAMIC x repetitions,
        each evaluated in a FRESH subprocess of the same interpreter (environment set before `import mdtraj`;
        the subprocess gets the parent's mdtraj location first on sys.path, so it sees the same kernel overlay).

Results are compared as SHA-1 digests of the raw bytes of the per-frame result (float arrays: exact bits; neighbour
lists / hydrogen-bond lists: sorted, i.e. compared as sets, as bcc/README prescribes for discrete outputs).
No tolerances anywhere: the property says bit-for-bit.

Classification (root-cause level witness classes):
  * L1 fails under one thread while every frame computed alone agrees with its copies, and L1 holds when there are
    at least as many threads as frames  ->  "<f>:frames-sharing-a-thread"   (per-thread scratch carried between frames)
  * L1/L2 fails even with one frame per thread            ->  "<f>:frame-in-company"
  * T1 fails although L1 holds in every configuration     ->  "<f>:OMP_NUM_THREADS" / ":OMP_SCHEDULE" / ":OMP_DYNAMIC" / ":repeated-run"
  A function that already fails L1 is not reported again under T1 (which frames share a thread is a function of the
  thread count: same root cause, subsumed).
"""
import hashlib
import itertools
import json
import os
import subprocess
import sys
from concurrent.futures import ThreadPoolExecutor

import numpy as np

from bcc.api import Check

# =========================================================================================================
# synthetic system builder (also used by bcc/c16.py): peptide chains by internal coordinates + caps, water, ions
# =========================================================================================================
_DEG = np.pi / 180.0


def _place(a, b, c, bond, angle, torsion):
    """position d with |cd| = bond, angle(b,c,d) = angle, dihedral(a,b,c,d) = torsion (radians)"""
    bc = c - b
    bc /= np.linalg.norm(bc)
    n = np.cross(b - a, bc)
    n /= np.linalg.norm(n)
    m = np.cross(n, bc)
    return c + bond * (-np.cos(angle) * bc + np.sin(angle) * np.cos(torsion) * m + np.sin(angle) * np.sin(torsion) * n)


# side chains: (atom name, (ref a, ref b, ref c), bond nm, angle deg, torsion deg or 'chiN' (+offset))
_SC = {
    "GLY": [("HA2", ("N", "C", "CA"), 0.109, 109.5, 122.7), ("HA3", ("N", "C", "CA"), 0.109, 109.5, -118.0)],
    "ALA": [("HA", ("N", "C", "CA"), 0.109, 109.5, -118.0), ("CB", ("N", "C", "CA"), 0.153, 110.1, 122.7),
            ("HB1", ("N", "CA", "CB"), 0.109, 109.5, 60.0), ("HB2", ("N", "CA", "CB"), 0.109, 109.5, 180.0),
            ("HB3", ("N", "CA", "CB"), 0.109, 109.5, -60.0)],
    "SER": [("HA", ("N", "C", "CA"), 0.109, 109.5, -118.0), ("CB", ("N", "C", "CA"), 0.153, 110.1, 122.7),
            ("OG", ("N", "CA", "CB"), 0.142, 111.0, "chi1"), ("HG", ("CA", "CB", "OG"), 0.096, 108.0, "chi2"),
            ("HB2", ("N", "CA", "CB"), 0.109, 109.5, ("chi1", 120.0)), ("HB3", ("N", "CA", "CB"), 0.109, 109.5, ("chi1", -120.0))],
    "VAL": [("HA", ("N", "C", "CA"), 0.109, 109.5, -118.0), ("CB", ("N", "C", "CA"), 0.153, 110.1, 122.7),
            ("CG1", ("N", "CA", "CB"), 0.152, 110.5, "chi1"), ("CG2", ("N", "CA", "CB"), 0.152, 110.5, ("chi1", 120.0)),
            ("HB", ("N", "CA", "CB"), 0.109, 109.5, ("chi1", -120.0))],
    "LEU": [("HA", ("N", "C", "CA"), 0.109, 109.5, -118.0), ("CB", ("N", "C", "CA"), 0.153, 110.1, 122.7),
            ("CG", ("N", "CA", "CB"), 0.153, 116.0, "chi1"), ("CD1", ("CA", "CB", "CG"), 0.152, 110.5, "chi2"),
            ("CD2", ("CA", "CB", "CG"), 0.152, 110.5, ("chi2", 120.0)), ("HG", ("CA", "CB", "CG"), 0.109, 109.5, ("chi2", -120.0))],
    "ASP": [("HA", ("N", "C", "CA"), 0.109, 109.5, -118.0), ("CB", ("N", "C", "CA"), 0.153, 110.1, 122.7),
            ("CG", ("N", "CA", "CB"), 0.152, 113.0, "chi1"), ("OD1", ("CA", "CB", "CG"), 0.125, 119.0, "chi2"),
            ("OD2", ("CA", "CB", "CG"), 0.125, 118.0, ("chi2", 180.0))],
    "LYS": [("HA", ("N", "C", "CA"), 0.109, 109.5, -118.0), ("CB", ("N", "C", "CA"), 0.153, 110.1, 122.7),
            ("CG", ("N", "CA", "CB"), 0.152, 114.0, "chi1"), ("CD", ("CA", "CB", "CG"), 0.152, 111.5, "chi2"),
            ("CE", ("CB", "CG", "CD"), 0.152, 111.5, "chi3"), ("NZ", ("CG", "CD", "CE"), 0.149, 111.7, "chi4"),
            ("HZ1", ("CD", "CE", "NZ"), 0.101, 109.5, 60.0), ("HZ2", ("CD", "CE", "NZ"), 0.101, 109.5, 180.0),
            ("HZ3", ("CD", "CE", "NZ"), 0.101, 109.5, -60.0)],
    "PRO": [("HA", ("N", "C", "CA"), 0.109, 109.5, -118.0), ("CB", ("N", "C", "CA"), 0.153, 103.0, 122.7),
            ("CG", ("N", "CA", "CB"), 0.150, 104.5, 30.0), ("CD", ("CA", "CB", "CG"), 0.150, 105.5, -35.0)],
    "CYS": [("HA", ("N", "C", "CA"), 0.109, 109.5, -118.0), ("CB", ("N", "C", "CA"), 0.153, 110.1, 122.7),
            ("SG", ("N", "CA", "CB"), 0.181, 114.0, "chi1"), ("HG", ("CA", "CB", "SG"), 0.134, 96.0, "chi2")],
}
_SS = {"H": (-57.0, -47.0), "E": (-120.0, 130.0), "C": None, "P": (-75.0, 145.0)}


def _element(name):
    from mdtraj.core import element

    return {"H": element.hydrogen, "C": element.carbon, "N": element.nitrogen, "O": element.oxygen, "S": element.sulfur}[name[0]]


def build_system(chains, n_water=0, ions=(), seed=0, spacing=2.0, drop=()):
    """chains: list of (sequence, ss) with sequence a list of residue names (keys of _SC, plus 'ACE' / 'NME' caps that
    have no CA) and ss a string over 'HECP' of the same length.  drop: set of (chain, residue position, atom name)
    to leave out (e.g. a residue missing its CA).  Returns (md.Topology, xyz (n_atoms,3) float64 nm).
    Deterministic in `seed` (random chi angles / coil torsions / solvent positions)."""
    import mdtraj as md
    from mdtraj.core import element

    rng = np.random.RandomState(seed)
    top = md.Topology()
    coords = []

    def add(res, name, pos, bonded_to=None, elem=None):
        a = top.add_atom(name, elem or _element(name), res)
        coords.append(np.asarray(pos, dtype=np.float64))
        if bonded_to is not None:
            top.add_bond(bonded_to, a)
        return a

    for ci, (seq, ss) in enumerate(chains):
        ch = top.add_chain()
        origin = np.array([spacing * (ci % 3), spacing * ((ci // 3) % 3), 0.4 * ci])
        tors = []
        for k in range(len(seq)):
            t = _SS[ss[k]]
            if t is None:
                t = (rng.uniform(-160, -50), rng.uniform(-60, 170))
            tors.append((t[0] * _DEG, t[1] * _DEG))
        prev = None  # dict of previous residue's backbone positions/atoms
        for k, rn in enumerate(seq):
            res = top.add_residue(rn, ch, resSeq=k + 1)
            phi, psi = tors[k]
            pos, atoms = {}, {}
            if prev is None:
                pos["N"] = origin.copy()
                pos["CA"] = origin + [0.1458, 0.0, 0.0]
                pos["C"] = _place(origin + [0.0, 0.1, 0.0], pos["N"], pos["CA"], 0.1525, 111.0 * _DEG, phi)
            else:
                pos["N"] = _place(prev["N"], prev["CA"], prev["C"], 0.1329, 116.2 * _DEG, prev["psi"])
                pos["CA"] = _place(prev["CA"], prev["C"], pos["N"], 0.1458, 121.7 * _DEG, np.pi)
                pos["C"] = _place(prev["C"], pos["N"], pos["CA"], 0.1525, 111.0 * _DEG, phi)
            pos["O"] = _place(pos["N"], pos["CA"], pos["C"], 0.1231, 120.5 * _DEG, psi + np.pi)
            if rn == "ACE":  # CH3-C(=O)-  : no N, no CA (methyl carbon is named CH3)
                names = [("CH3", pos["CA"], None), ("C", pos["C"], "CH3"), ("O", pos["O"], "C")]
            elif rn == "NME":  # -NH-CH3 : no CA, no C
                names = [("N", pos["N"], "prevC"), ("H", None, "N"), ("CH3", pos["CA"], "N")]
            else:
                names = [("N", pos["N"], "prevC")]
                if rn != "PRO":
                    names.append(("H", None, "N"))
                names += [("CA", pos["CA"], "N"), ("C", pos["C"], "CA"), ("O", pos["O"], "C")]
            for nm, p, parent in names:
                if (ci, k, nm) in drop:
                    continue
                if nm == "H":
                    if prev is not None:
                        p = _place(prev["O"], prev["C"], pos["N"], 0.101, 119.5 * _DEG, np.pi)
                    else:
                        p = _place(pos["C"], pos["CA"], pos["N"], 0.101, 109.5 * _DEG, rng.uniform(-np.pi, np.pi))
                    pos["H"] = p
                if parent == "prevC":
                    par = prev["atoms"].get("C") if prev is not None else None
                else:
                    par = atoms.get(parent)
                atoms[nm] = add(res, nm, p, par)
            if rn in _SC:
                chis = {f"chi{j}": rng.uniform(-180, 180) for j in range(1, 5)}
                for nm, (ra, rb, rc), bond, ang, tor in _SC[rn]:
                    if isinstance(tor, tuple):
                        tor = chis[tor[0]] + tor[1]
                    elif isinstance(tor, str):
                        tor = chis[tor]
                    p = _place(pos[ra], pos[rb], pos[rc], bond, ang * _DEG, tor * _DEG)
                    pos[nm] = p
                    if (ci, k, nm) in drop:
                        continue
                    atoms[nm] = add(res, nm, p, atoms.get(rc))
                if rn == "PRO" and "CD" in atoms and "N" in atoms:
                    top.add_bond(atoms["CD"], atoms["N"])
            prev = {"N": pos["N"], "CA": pos["CA"], "C": pos["C"], "O": pos["O"], "psi": psi, "atoms": atoms}
    if n_water or ions:
        lo = np.min(coords, axis=0) - 0.3
        hi = np.max(coords, axis=0) + 0.3
        placed = []

        def free_spot():
            for _ in range(10000):
                p = rng.uniform(lo, hi)
                if np.min(np.linalg.norm(np.asarray(coords) - p, axis=1)) > 0.28 and all(np.linalg.norm(p - q) > 0.28 for q in placed):
                    placed.append(p)
                    return p
            raise RuntimeError("no room")

        ch = top.add_chain()
        for w in range(n_water):
            res = top.add_residue("HOH", ch, resSeq=w + 1)
            o = free_spot()
            u = rng.normal(size=3)
            u /= np.linalg.norm(u)
            v = np.cross(u, rng.normal(size=3))
            v /= np.linalg.norm(v)
            ao = add(res, "O", o, elem=element.oxygen)
            add(res, "H1", o + 0.09572 * u, ao, elem=element.hydrogen)
            hh = np.cos(104.52 * _DEG) * u + np.sin(104.52 * _DEG) * v
            add(res, "H2", o + 0.09572 * hh, ao, elem=element.hydrogen)
        if ions:
            ch = top.add_chain()
            for j, sym in enumerate(ions):
                res = top.add_residue({"Na": "NA", "Cl": "CL", "K": "K", "Mg": "MG"}[sym], ch, resSeq=j + 1)
                add(res, {"Na": "NA", "Cl": "CL", "K": "K", "Mg": "MG"}[sym], free_spot(), elem=element.Element.getBySymbol(sym))
    return top, np.array(coords)


def make_frames(xyz0, n_distinct, seed, sd=0.02):
    """distinct frames: base + independent gaussian displacements (sd nm); float32"""
    rng = np.random.RandomState(seed + 17)
    out = [xyz0 + (rng.normal(size=xyz0.shape) * sd if k else 0.0) for k in range(n_distinct)]
    return np.array(out, dtype=np.float32)


# =========================================================================================================
# the per-frame functions
# =========================================================================================================
LAYOUT = [0, 0, 0, 1, 2, 3, 1, 4, 5]  # which distinct frame sits at each position of T
PERM = [4, 2, 7, 0, 8, 1, 6, 3, 5]


def c08_system(seed):
    seqA = ["ACE", "ALA", "LEU", "LYS", "ALA", "ASP", "LEU", "SER", "ALA", "VAL", "LYS", "ALA", "GLY", "NME"]
    seqB = ["SER", "VAL", "GLY", "PRO", "ASP", "CYS", "LEU", "ALA"]
    top, xyz0 = build_system([(seqA, "C" + "H" * 12 + "C"), (seqB, "EEECCEEE")], n_water=6, ions=("Na", "Cl"), seed=seed, spacing=1.2)
    return top, xyz0


def make_T(top, frames6):
    import mdtraj as md

    xyz = frames6[LAYOUT]
    L = np.array([[4.0 + 0.05 * k, 4.2 + 0.03 * k, 4.5 - 0.02 * k] for k in LAYOUT], dtype=np.float32)
    A = np.full((len(LAYOUT), 3), 90.0, dtype=np.float32)
    return md.Trajectory(xyz.copy(), top, time=np.arange(len(LAYOUT), dtype=np.float32), unitcell_lengths=L, unitcell_angles=A)


def _b(x):
    x = np.ascontiguousarray(x)
    return x.tobytes() + str(x.dtype).encode() + str(x.shape).encode()


def _rows(a):
    a = np.asarray(a)
    return [_b(a[i]) for i in range(a.shape[0])]


def funcs(top, seed):
    """name -> callable(traj) -> list (one bytes object per frame)"""
    import mdtraj as md

    rng = np.random.RandomState(seed + 5)
    n = top.n_atoms
    pairs = np.array([rng.choice(n, 2, replace=False) for _ in range(60)])
    trip = np.array([rng.choice(n, 3, replace=False) for _ in range(40)])
    quad = np.array([rng.choice(n, 4, replace=False) for _ in range(40)])
    heavy = np.array([a.index for a in top.atoms if a.element.symbol != "H"])
    ca = np.array([a.index for a in top.atoms if a.name == "CA"])
    query = heavy[::3]
    F = {}

    def cp(t):
        return md.Trajectory(t.xyz.copy(), t.topology, time=t.time.copy(), unitcell_lengths=t.unitcell_lengths.copy(),
                             unitcell_angles=t.unitcell_angles.copy())

    for per, opt in itertools.product((True, False), (True, False)):
        tag = f"(periodic={per},opt={opt})"
        F["compute_distances" + tag] = lambda t, per=per, opt=opt: _rows(md.compute_distances(t, pairs, periodic=per, opt=opt))
        F["compute_displacements" + tag] = lambda t, per=per, opt=opt: _rows(md.compute_displacements(t, pairs, periodic=per, opt=opt))
        F["compute_angles" + tag] = lambda t, per=per, opt=opt: _rows(md.compute_angles(t, trip, periodic=per, opt=opt))
        F["compute_dihedrals" + tag] = lambda t, per=per, opt=opt: _rows(md.compute_dihedrals(t, quad, periodic=per, opt=opt))
    ref_holder = {}

    def ref(t):
        # fixed reference conformation, independent of the trajectory handed in
        return md.Trajectory(ref_holder["xyz"].copy(), t.topology)

    for par in (True, False):
        F[f"rmsd(parallel={par})"] = lambda t, par=par: _rows(md.rmsd(cp(t), ref(t), 0, parallel=par))
        F[f"rmsd(atom_indices,parallel={par})"] = lambda t, par=par: _rows(md.rmsd(cp(t), ref(t), 0, atom_indices=heavy, parallel=par))
        F[f"superpose(parallel={par})"] = lambda t, par=par: _rows(cp(t).superpose(ref(t), 0, atom_indices=ca, parallel=par).xyz)
    F["rmsd(precentered)"] = lambda t: _rows(md.rmsd(cp(t).center_coordinates(), ref(t).center_coordinates(), 0, precentered=True))
    F["shrake_rupley(atom)"] = lambda t: _rows(md.shrake_rupley(t, mode="atom"))
    F["shrake_rupley(residue,n=100)"] = lambda t: _rows(md.shrake_rupley(t, mode="residue", n_sphere_points=100))
    F["compute_dssp(simplified)"] = lambda t: [("".join(r)).encode() for r in md.compute_dssp(t, simplified=True)]
    F["compute_dssp(full)"] = lambda t: [("".join(r)).encode() for r in md.compute_dssp(t, simplified=False)]
    F["kabsch_sander"] = lambda t: [_b(m.toarray()) for m in md.kabsch_sander(t)]
    F["wernet_nilsson"] = lambda t: [_b(np.array(sorted(map(tuple, h)), dtype=np.int64).reshape(-1, 3)) for h in md.wernet_nilsson(t, exclude_water=False)]
    F["baker_hubbard(freq=0,per-frame)"] = None  # filled below (needs per-frame evaluation)
    for per in (True, False):
        F[f"compute_neighbors(periodic={per})"] = lambda t, per=per: [_b(np.sort(np.asarray(x))) for x in md.compute_neighbors(t, 0.45, query, haystack_indices=heavy, periodic=per)]
        F[f"compute_neighborlist(periodic={per})"] = lambda t, per=per: [
            b"|".join(_b(np.sort(np.asarray(x))) for x in md.compute_neighborlist(t, 0.4, frame=i, periodic=per)) for i in range(t.n_frames)]
    F["compute_contacts(all,closest-heavy)"] = lambda t: _rows(md.compute_contacts(t, "all", "closest-heavy")[0])
    F["compute_contacts(all,ca,soft_min)"] = lambda t: _rows(md.compute_contacts(t, "all", "ca", soft_min=True)[0])
    F["compute_contacts(pairs,sidechain,nonperiodic)"] = lambda t: _rows(md.compute_contacts(t, [[1, 5], [2, 9], [15, 20]], "sidechain", periodic=False)[0])
    F["compute_rg"] = lambda t: _rows(md.compute_rg(t))
    F["compute_drid"] = lambda t: _rows(md.compute_drid(t))
    F["compute_drid(atom_indices)"] = lambda t: _rows(md.compute_drid(t, atom_indices=ca))
    F["compute_center_of_mass"] = lambda t: _rows(md.compute_center_of_mass(t))
    F["compute_center_of_geometry"] = lambda t: _rows(md.compute_center_of_geometry(t))
    F["compute_gyration_tensor"] = lambda t: _rows(md.compute_gyration_tensor(t))
    F["compute_inertia_tensor"] = lambda t: _rows(md.compute_inertia_tensor(t))
    F["principal_moments"] = lambda t: _rows(md.principal_moments(t))
    F["asphericity"] = lambda t: _rows(md.asphericity(t))
    F["density"] = lambda t: _rows(md.density(t))
    F["compute_phi"] = lambda t: _rows(md.compute_phi(t)[1])
    F["compute_psi(nonperiodic)"] = lambda t: _rows(md.compute_psi(t, periodic=False)[1])
    F["compute_directors"] = lambda t: _rows(md.compute_directors(t, indices="chains"))

    def bh(t):
        return [_b(np.array(sorted(map(tuple, md.baker_hubbard(t[i], freq=0.0, exclude_water=False))), dtype=np.int64).reshape(-1, 3)) for i in range(t.n_frames)]

    F["baker_hubbard(freq=0,per-frame)"] = bh
    return F, ref_holder


# =========================================================================================================
# worker (runs in a fresh subprocess) and driver
# =========================================================================================================
def _digest(b):
    return hashlib.sha1(b).hexdigest()[:16]


def evaluate(npy_path, seed, only=None):
    """all digests for one process/environment: {fname: {"full": [...], "single": [...], "perm": [...]}}"""
    import warnings

    warnings.simplefilter("ignore")
    top, _ = c08_system(seed)
    frames6 = np.load(npy_path)
    T = make_T(top, frames6)
    F, ref_holder = funcs(top, seed)
    ref_holder["xyz"] = frames6[5:6] + np.float32(0.01)
    out = {}
    for name, f in F.items():
        if only and name not in only:
            continue
        try:
            full = [_digest(b) for b in f(T)]
            single = [_digest(f(T[i])[0]) for i in range(T.n_frames)]
            perm = [_digest(b) for b in f(T[np.array(PERM)])]
            out[name] = {"full": full, "single": single, "perm": perm}
        except Exception as e:  # an exception is reported by the parent, not swallowed
            out[name] = {"error": f"{type(e).__name__}: {e}"}
    return out


def _spawn(npy_path, seed, env_over, only=None):
    import mdtraj

    root = os.path.dirname(os.path.dirname(os.path.abspath(mdtraj.__file__)))
    verif = os.path.dirname(os.path.dirname(os.path.abspath(__file__)))
    code = ("import sys, json\n"
            f"sys.path.insert(0, {verif!r}); sys.path.insert(0, {root!r})\n"
            "from bcc import c08\n"
            f"r = c08.evaluate({npy_path!r}, {seed}, {only!r})\n"
            "import mdtraj\n"
            "sys.stdout.write('@@RESULT@@' + json.dumps({'r': r, 'mdtraj': mdtraj.__file__}))\n")
    env = dict(os.environ)
    env.update(env_over)
    env["OMP_WAIT_POLICY"] = "passive"  # scheduling hint only (avoid spinning when oversubscribed); no effect on results
    p = subprocess.run([sys.executable, "-c", code], env=env, capture_output=True, text=True, timeout=900)
    if "@@RESULT@@" not in p.stdout:
        return {"__error__": f"worker failed (rc={p.returncode}): {p.stderr[-800:]} {p.stdout[-300:]}"}
    d = json.loads(p.stdout.split("@@RESULT@@", 1)[1])
    return d["r"]


def configs(tier):
    if tier == "quick":
        threads, scheds, dyn, reps = [1, 2, 3, 16], ["static"], ["false"], 3
    else:
        threads, scheds, dyn, reps = [1, 2, 3, 5, 8, 16, 64], ["static", "dynamic", "guided"], ["false", "true"], 3
    out = []
    for rep in range(reps):
        for t in threads:
            for s in scheds:
                for d in dyn:
                    out.append({"OMP_NUM_THREADS": str(t), "OMP_SCHEDULE": s, "OMP_DYNAMIC": d, "rep": rep})
    return out


def _envof(cfg):
    return {k: v for k, v in cfg.items() if k != "rep"}


def _locality_violations(r):
    """list of (kind, detail) for one function's digests in one configuration"""
    n = len(LAYOUT)
    bad = []
    for i in range(n):
        if r["full"][i] != r["single"][i]:
            bad.append(("in-company-vs-alone", i))
    for k in range(n):
        if r["perm"][k] != r["full"][PERM[k]]:
            bad.append(("permuted", k))
    groups = {}
    for i, d in enumerate(LAYOUT):
        groups.setdefault(d, []).append(i)
    for d, idx in groups.items():
        if len({r["full"][i] for i in idx}) > 1:
            bad.append(("identical-frames-differ", idx))
        if len({r["single"][i] for i in idx}) > 1:
            bad.append(("identical-single-frames-differ", idx))
    return bad


def analyse(chk_loc, chk_thr, results, seed):
    """results: list of (cfg, worker output)"""
    names = [k for k in results[0][1] if not k.startswith("__")]
    n = len(LAYOUT)
    for name in names:
        loc_fail_cfgs, loc_ok_cfgs = [], []
        for cfg, out in results:
            r = out.get(name)
            if r is None:
                continue
            if "error" in r:
                chk_loc.fail("raises", f"{_base(name)}:{r['error'].split(':')[0]}", f"{name} raised {r['error']} under {_envof(cfg)}",
                             {"function": name, "env": _envof(cfg), "seed": seed})
                continue
            bad = _locality_violations(r)
            if bad:
                loc_fail_cfgs.append((cfg, bad))
            else:
                loc_ok_cfgs.append(cfg)
                chk_loc.ok(nontrivial=(name, cfg["OMP_NUM_THREADS"]), sample={"function": name, "env": _envof(cfg), "frames": n})
        if loc_fail_cfgs:
            # minimal witness: the smallest thread count that fails
            cfg, bad = min(loc_fail_cfgs, key=lambda cb: (int(cb[0]["OMP_NUM_THREADS"]), cb[0]["rep"]))
            # one frame per thread is only guaranteed with >= n threads AND OMP_DYNAMIC=false (with dynamic adjustment the
            # runtime may start fewer threads than requested)
            one = lambda c: int(c["OMP_NUM_THREADS"]) >= n and c["OMP_DYNAMIC"] == "false"
            one_per_thread_ok = any(one(c) for c in loc_ok_cfgs) and not any(one(c) for c, _ in loc_fail_cfgs)
            singles_consistent = not any(k == "identical-single-frames-differ" for k, _ in bad)
            wc = f"{_base(name)}:frames-sharing-a-thread" if (one_per_thread_ok and singles_consistent) else f"{_base(name)}:frame-in-company"
            r = [o for c, o in results if c is cfg][0][name]
            chk_loc.fail("frame-locality", wc,
                         f"{name}: the result for a frame depends on the other frames in the call ({bad[0][0]} at position {bad[0][1]}; "
                         f"trajectory layout {LAYOUT} = indices of distinct frames) under {_envof(cfg)}; "
                         f"locality holds with >= {n} threads: {one_per_thread_ok}",
                         {"function": name, "env": _envof(cfg), "seed": seed, "layout": LAYOUT},
                         observed={"full": r["full"], "single": r["single"]}, expected="full[i] == single[i] for every i")
            continue  # thread dependence of this function is subsumed
        # thread / schedule / run independence
        ref_cfg, ref_out = results[0]
        ref = ref_out.get(name)
        if ref is None or "error" in ref:
            continue
        for cfg, out in results[1:]:
            r = out.get(name)
            if r is None or "error" in r:
                continue
            if r["full"] != ref["full"] or r["single"] != ref["single"] or r["perm"] != ref["perm"]:
                diff = [k for k in ("OMP_NUM_THREADS", "OMP_SCHEDULE", "OMP_DYNAMIC") if cfg[k] != ref_cfg[k]]
                what = diff[0] if diff else "repeated-run"
                chk_thr.fail("thread-independence", f"{_base(name)}:{what}",
                             f"{name}: digests under {_envof(cfg)} (rep {cfg['rep']}) differ from {_envof(ref_cfg)} (rep {ref_cfg['rep']})",
                             {"function": name, "env": _envof(cfg), "ref_env": _envof(ref_cfg), "seed": seed},
                             observed=r["full"], expected=ref["full"])
            else:
                chk_thr.ok(nontrivial=(name, cfg["OMP_NUM_THREADS"], cfg["OMP_SCHEDULE"], cfg["OMP_DYNAMIC"]))


def _base(name):
    return name.split("(")[0]


def run(tier, seed, hint):
    from bcc.fixtures import Scratch

    cfgs = configs(tier)
    ths = sorted({int(c["OMP_NUM_THREADS"]) for c in cfgs})
    bound = (f"synthetic solvated two-chain peptide (22 residues incl. ACE/NME caps, GLY, PRO; 6 waters; Na+, Cl-), 9 frames "
             f"laid out {LAYOUT} (indices of 6 distinct conformations), permutation {PERM}; "
             f"OMP_NUM_THREADS in {ths} x OMP_SCHEDULE in {sorted({c['OMP_SCHEDULE'] for c in cfgs})} x OMP_DYNAMIC in "
             f"{sorted({c['OMP_DYNAMIC'] for c in cfgs})} x {max(c['rep'] for c in cfgs) + 1} repetitions = {len(cfgs)} fresh subprocesses; seed={seed}")
    with Scratch("c08") as d:
        top, xyz0 = c08_system(seed)
        frames6 = make_frames(xyz0, 6, seed)
        npy = os.path.join(d, "frames.npy")
        np.save(npy, frames6)
        F, _ = funcs(top, seed)
        fn = list(F)
        chk_loc = Check("frame-locality", ", ".join(sorted({_base(k) for k in fn})), bound,
                        rule="f(T)[i] == f(T[i])[0] == f(T[perm])[perm^-1(i)] bit-for-bit (SHA-1 of raw bytes; discrete lists sorted); "
                             "non-trivial = (function variant, thread count) pairs",
                        stands_in_for="frame loops of sasa/asa_frame, dist*/angle*/dihedral*, kabsch_sander, dssp, neighbour kernels, _rmsd/_drid prange loops")
        chk_thr = Check("thread-independence", chk_loc.function, bound,
                        rule="every digest identical to the first configuration's; functions already failing frame-locality are subsumed",
                        stands_in_for="OpenMP semantics assumption (private scratch, static/dynamic schedules) of the deductive layer")
        with ThreadPoolExecutor(max_workers=8) as tp:
            outs = list(tp.map(lambda c: _spawn(npy, seed, _envof(c)), cfgs))
        results = []
        for c, o in zip(cfgs, outs):
            if "__error__" in o:
                chk_thr.fail("worker-failed", f"subprocess:{_envof(c)['OMP_NUM_THREADS']}-threads", o["__error__"], {"env": _envof(c), "seed": seed})
            else:
                results.append((c, o))
        if results:
            analyse(chk_loc, chk_thr, results, seed)
    return [chk_loc, chk_thr]


def replay(payload):
    from bcc.fixtures import Scratch

    inp = payload.get("input") or payload.get("failing_input")
    seed = inp["seed"]
    name = inp["function"]
    chk_loc, chk_thr = Check("replay", "", "", ""), Check("replay", "", "", "")
    with Scratch("c08r") as d:
        top, xyz0 = c08_system(seed)
        npy = os.path.join(d, "frames.npy")
        np.save(npy, make_frames(xyz0, 6, seed))
        cfgs = []
        if "ref_env" in inp:
            cfgs.append(dict(inp["ref_env"], rep=0))
        cfgs.append(dict(inp["env"], rep=1))
        cfgs.append(dict(inp["env"], OMP_NUM_THREADS="16", rep=2))
        results = [(c, _spawn(npy, seed, _envof(c), only=[name])) for c in cfgs]
        results = [(c, o) for c, o in results if "__error__" not in o]
        analyse(chk_loc, chk_thr, results, seed)
    fails = chk_loc.failures + chk_thr.failures
    return {"reproduced": bool(fails), "failures": fails}
