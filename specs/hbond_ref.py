"""Executable specifications of the three hydrogen-bond definitions (float64 NumPy).

Written from the property statement (C14), the docstrings of md.baker_hubbard / md.wernet_nilsson /
md.kabsch_sander and the cited papers -- not from mdtraj's implementation.

Every function returns a *three-valued* answer: `yes` (definitely a hydrogen bond), `amb` (within
the stated margin of a decision threshold, or a case the documentation leaves open) -- everything
else is definitely not one.  The check compares   yes  <=  mdtraj's set  <=  yes | amb.

Topology description used here (plain Python, no mdtraj objects):
    topo = {"symbol": [..], "name": [..], "resname": [..], "resid": [..], "chain": [..], "bonds": [(i, j), ..]}

Margins (derived; inputs are float32 coordinates of magnitude <= 8 nm, the spec works in float64 on
the same float32 numbers, mdtraj's kernels work in float32):
  * a float32 displacement component carries <= 2 * 8 nm * 2^-24 ~ 1e-6 nm rounding, a distance ~ 2e-6 nm:
    DIST_MARGIN = 1e-5 nm (the property's own exclusion width).
  * Baker-Hubbard angle from the law of cosines in float32: d(cos) <= sum |dcos/dr| * 2e-6 nm with
    |dcos/dr| <= 1/a + 1/b <= 2 / 0.05 nm  =>  d(cos) <= 2.5e-4 for bonded D-H >= 0.05 nm;
    COS_MARGIN = 5e-4 on cos(theta) (about 0.03 degrees at 120 degrees).
  * Wernet-Nilsson: the cut-off term 0.000044 * delta^2 has d/d(cos) = 0.000088 * delta(deg) * (180/pi) / sin(delta)
    <= 0.000088 * 57.3 * 57.3 * 1.6 ~ 0.46 nm per unit cosine for delta <= 90 deg (delta/sin(delta) <= 1.6 * 57.3),
    times d(cos) 2.5e-4 => 1.2e-4 nm;  WN_MARGIN = 2e-4 nm on (cutoff - r_DA).
  * Kabsch-Sander energy: four terms 2.7888 / r with r >= 0.1 nm: dE <= 4 * 2.7888 / r^2 * 2e-6 + float32
    summation 4 * 28 * 6e-8 ~ 2.3e-3 worst case, typically 1e-4;  E_MARGIN = 5e-3 kcal/mol around -0.5 and between
    the 2nd and 3rd best acceptor of a donor;  reported energies are compared with E_TOL = 5e-3.
"""
from __future__ import annotations

import itertools

import numpy as np

DIST_MARGIN = 1e-5
COS_MARGIN = 5e-4
WN_MARGIN = 2e-4
E_MARGIN = 5e-3
E_TOL = 5e-3

WATER_NAMES = {"HOH", "WAT", "H2O", "TIP3", "SOL"}
PROTEIN_NAMES = {"ALA", "ARG", "ASN", "ASP", "CYS", "GLN", "GLU", "GLY", "HIS", "ILE", "LEU", "LYS", "MET", "PHE", "PRO",
                 "SER", "THR", "TRP", "TYR", "VAL"}
BACKBONE_NAMES = {"N", "CA", "C", "O", "H", "HA"}
# atoms of a protein residue whose backbone / side-chain status the documentation does not settle
AMBIGUOUS_SIDECHAIN_NAMES = {"OXT", "H1", "H2", "H3", "HA2", "HA3", "HN", "HXT", "OT1", "OT2"}


# ----------------------------------------------------------------------------------------------
def box_matrix(lengths, angles):
    """unit-cell vectors (rows) from lengths (nm) and angles (degrees), standard crystallographic convention"""
    a, b, c = (float(x) for x in lengths)
    al, be, ga = (np.radians(float(x)) for x in angles)
    va = np.array([a, 0.0, 0.0])
    vb = np.array([b * np.cos(ga), b * np.sin(ga), 0.0])
    cx = c * np.cos(be)
    cy = c * (np.cos(al) - np.cos(be) * np.cos(ga)) / np.sin(ga)
    cz = np.sqrt(max(c * c - cx * cx - cy * cy, 0.0))
    return np.array([va, vb, [cx, cy, cz]])


_SHIFTS = np.array(list(itertools.product((-2, -1, 0, 1, 2), repeat=3)), dtype=float)


def min_image(d, box):
    """minimum-image displacement(s): d (..., 3) float64, box (3, 3) rows = cell vectors or None.
    First reduced to fractional coordinates in [-1/2, 1/2], then brute force over the 125 neighbouring images
    (exact for any cell in which the nearest image lies within two lattice steps of the reduced one)."""
    d = np.asarray(d, float)
    if box is None:
        return d
    frac = d @ np.linalg.inv(box)
    d = (frac - np.round(frac)) @ box
    imgs = _SHIFTS @ box                                   # (125, 3)
    cand = d[..., None, :] + imgs                          # (..., 125, 3)
    k = np.argmin((cand ** 2).sum(-1), axis=-1)
    return np.take_along_axis(cand, k[..., None, None], axis=-2)[..., 0, :]


# ----------------------------------------------------------------------------------------------
# candidate triplets
# ----------------------------------------------------------------------------------------------
def candidate_triplets(topo, exclude_water, sidechain_only):
    """-> (triplets, ambiguous): lists of (d, h, a).
    Donors: every topology bond whose elements are {N, H} or {O, H}, heavy atom first.  Acceptors: every N or O atom.
    exclude_water: no atom of a water residue takes part.  sidechain_only: donor, hydrogen and acceptor must all be
    side-chain atoms of protein residues (backbone = N, CA, C, O and their hydrogens H, HA)."""
    sym, name, resname = topo["symbol"], topo["name"], topo["resname"]
    n = len(sym)

    def status(i):
        """True participates / False does not / None undocumented"""
        if exclude_water and resname[i] in WATER_NAMES:
            return False
        if sidechain_only:
            if resname[i] not in PROTEIN_NAMES:
                return False
            if name[i] in BACKBONE_NAMES:
                return False
            if name[i] in AMBIGUOUS_SIDECHAIN_NAMES:
                return None
        return True

    st = [status(i) for i in range(n)]
    donors = []
    seen = set()
    for i, j in topo["bonds"]:
        for d, h in ((i, j), (j, i)):
            if sym[d] in ("N", "O") and sym[h] == "H" and (d, h) not in seen:
                seen.add((d, h))
                donors.append((d, h))
    acceptors = [i for i in range(n) if sym[i] in ("N", "O")]
    trip, amb = [], []
    for d, h in donors:
        if st[d] is False or st[h] is False:
            continue
        for a in acceptors:
            if a == d or st[a] is False:
                continue
            (amb if None in (st[d], st[h], st[a]) else trip).append((d, h, a))
    return trip, amb


def _geometry(xyz, box, trip, periodic):
    """per frame: r_HA, r_DA, cos(theta D-H..A), cos(delta H-D..A) for triplets (T, 3); xyz (F, N, 3) float64"""
    t = np.asarray(trip, int).reshape(-1, 3)
    F = xyz.shape[0]
    out = {k: np.zeros((F, len(t))) for k in ("r_ha", "r_da", "cos_theta", "cos_delta", "r_dh", "inconsistent", "imaged")}
    for f in range(F):
        b = box[f] if (periodic and box is not None) else None
        x = xyz[f]
        hd = min_image(x[t[:, 0]] - x[t[:, 1]], b)      # H -> D
        ha = min_image(x[t[:, 2]] - x[t[:, 1]], b)      # H -> A
        da = min_image(x[t[:, 2]] - x[t[:, 0]], b)      # D -> A
        r_hd, r_ha, r_da = (np.linalg.norm(v, axis=1) for v in (hd, ha, da))
        with np.errstate(divide="ignore", invalid="ignore"):
            out["cos_theta"][f] = (hd * ha).sum(1) / (r_hd * r_ha)
            out["cos_delta"][f] = (-hd * da).sum(1) / (r_hd * r_da)
        out["r_ha"][f], out["r_da"][f], out["r_dh"][f] = r_ha, r_da, r_hd
        # the three minimum images must describe one triangle, otherwise "the angle across the boundary" is not defined
        out["inconsistent"][f] = np.linalg.norm(da - (ha - hd), axis=1) > 1e-6
        out["imaged"][f] = (np.linalg.norm(ha - (x[t[:, 2]] - x[t[:, 1]]), axis=1) > 1e-6) | \
                           (np.linalg.norm(hd - (x[t[:, 0]] - x[t[:, 1]]), axis=1) > 1e-6)
    return t, out


def baker_hubbard_ref(xyz, box, topo, freq=0.1, exclude_water=True, periodic=True, sidechain_only=False,
                      distance_cutoff=0.25, angle_cutoff=120.0):
    """-> (yes, amb) sets of (d, h, a).
    present in a frame  <=>  r(H..A) < distance_cutoff  and  theta(D-H..A) > angle_cutoff (degrees);
    reported  <=>  present in MORE than `freq` of the frames (strict)."""
    trip, amb_t = candidate_triplets(topo, exclude_water, sidechain_only)
    yes, amb = set(), set()
    F = xyz.shape[0]
    for group, force_amb in ((trip, False), (amb_t, True)):
        if not group:
            continue
        t, g = _geometry(xyz, box, group, periodic)
        cos_cut = np.cos(np.radians(angle_cutoff))
        dist_ok = g["r_ha"] < distance_cutoff - DIST_MARGIN
        dist_no = g["r_ha"] > distance_cutoff + DIST_MARGIN
        ang_ok = g["cos_theta"] < cos_cut - COS_MARGIN          # theta > cutoff  <=>  cos(theta) < cos(cutoff)
        ang_no = g["cos_theta"] > cos_cut + COS_MARGIN
        degenerate = ~np.isfinite(g["cos_theta"]) | (g["r_dh"] < 0.05) | (g["r_ha"] < 0.01) | (g["inconsistent"] > 0)
        sure_yes = dist_ok & ang_ok & ~degenerate
        sure_no = dist_no | (ang_no & ~degenerate)               # too far is too far, whatever the angle
        k_yes = sure_yes.sum(0)
        k_maybe = F - sure_no.sum(0)                            # frames that are present or undecided
        for k in range(len(t)):
            key = tuple(int(v) for v in t[k])
            lo, hi = k_yes[k] / F > freq, k_maybe[k] / F > freq
            if force_amb:
                if hi:
                    amb.add(key)
            elif lo:
                yes.add(key)
            elif hi:
                amb.add(key)
    return yes, amb


def wernet_nilsson_ref(xyz, box, topo, exclude_water=True, periodic=True, sidechain_only=False):
    """-> list over frames of (yes, amb).   r_DA < 0.33 nm - 0.000044 nm/deg^2 * delta_HDA^2  (delta in degrees).
    The docstring states only the cone formula; mdtraj's source also names a 45 degree limit.  Triplets with
    delta >= 45 deg - 0.1 that satisfy the formula are therefore reported as `amb` (needs r_DA < 0.241 nm)."""
    trip, amb_t = candidate_triplets(topo, exclude_water, sidechain_only)
    F = xyz.shape[0]
    res = [(set(), set()) for _ in range(F)]
    for group, force_amb in ((trip, False), (amb_t, True)):
        if not group:
            continue
        t, g = _geometry(xyz, box, group, periodic)
        delta = np.degrees(np.arccos(np.clip(g["cos_delta"], -1, 1)))
        slack = 0.33 - 0.000044 * delta ** 2 - g["r_da"]
        degenerate = ~np.isfinite(g["cos_delta"]) | (g["r_dh"] < 0.05) | (g["r_da"] < 0.01) | (g["inconsistent"] > 0)
        for f in range(F):
            # the cut-off never exceeds 0.33 nm: beyond that a triplet is out whatever the angle
            for k in np.nonzero((slack[f] > -WN_MARGIN) | (degenerate[f] & (g["r_da"][f] < 0.33 + WN_MARGIN)))[0]:
                key = tuple(int(v) for v in t[k])
                sure = slack[f, k] > WN_MARGIN and not degenerate[f, k] and delta[f, k] < 44.9 and not force_amb
                (res[f][0] if sure else res[f][1]).add(key)
    return res


# ----------------------------------------------------------------------------------------------
# Kabsch-Sander
# ----------------------------------------------------------------------------------------------
COUPLING = 0.42 * 0.20 * 332.0 / 10.0        # q1 q2 f: 0.084 e^2 * 332 kcal A / (mol e^2) = 27.888 kcal A/mol = 2.7888 kcal nm/mol
E_CLAMP = -9.9
E_CUT = -0.5
CA_PREFILTER = 0.9                           # nm; DSSP (the program) skips residue pairs with CA-CA >= 9 A: not part of the formula


def kabsch_sander_ref(x, residues):
    """one frame.  x (N, 3) float64; residues: list of {"N","CA","C","O": atom index or None, "pro": bool, "chain": int}.
    -> (bonds, amb_donors):  bonds[(acceptor_residue, donor_residue)] = E for the definite bonds;
       amb_donors = donor residues whose bond list is not decidable within the margins / by the documentation.

    H(i) = N(i) + 0.1 nm * unit(C(i-1) - O(i-1)), residue i-1 being the preceding residue of the same chain;
    the first residue of a chain has no amide hydrogen from a peptide bond (DSSP sets H = N, giving E = 0): never a donor;
    likewise a residue whose predecessor lacks C or O (DSSP drops incomplete residues, the follower starts a new segment).
    E = 2.7888 (1/r_ON + 1/r_CH - 1/r_OH - 1/r_CN) kcal/mol (nm), clamped at -9.9;  bond iff E < -0.5;
    prolines do not donate;  C=O(i) -> N-H(i+1) is not considered;  the two lowest energies per donor are kept."""
    n = len(residues)
    complete = [all(r[k] is not None for k in ("N", "CA", "C", "O")) for r in residues]
    bonds, amb = {}, set()
    for d in range(n):
        rd = residues[d]
        if not complete[d] or rd["pro"]:
            continue
        if d == 0:
            continue
        rp = residues[d - 1]
        if rp["C"] is None or rp["O"] is None:
            continue                                     # no complete carbonyl to build the hydrogen from: no amide H, no bonds
        chain_start = rp["chain"] != rd["chain"]
        co = x[rp["C"]] - x[rp["O"]]
        nco = np.linalg.norm(co)
        if nco < 1e-3:
            amb.add(d)
            continue
        h = x[rd["N"]] + 0.1 * co / nco
        cand = []
        unsure = False
        for a in range(n):
            if a == d or not complete[a]:
                continue
            ra = residues[a]
            r_on = np.linalg.norm(x[ra["O"]] - x[rd["N"]])
            r_ch = np.linalg.norm(x[ra["C"]] - h)
            r_oh = np.linalg.norm(x[ra["O"]] - h)
            r_cn = np.linalg.norm(x[ra["C"]] - x[rd["N"]])
            if min(r_on, r_ch, r_oh, r_cn) < 0.02:
                unsure = True
                continue
            e = COUPLING * (1 / r_on + 1 / r_ch - 1 / r_oh - 1 / r_cn)
            e = max(e, E_CLAMP)
            if e > E_CUT + E_MARGIN:
                continue
            if a == d - 1:
                continue                                 # C=O(i) .. H-N(i+1): the hydrogen was built from this carbonyl
            ca = np.linalg.norm(x[ra["CA"]] - x[rd["CA"]])
            if e > E_CUT - E_MARGIN or ca > CA_PREFILTER - 1e-4:
                unsure = True                            # near the energy threshold, or beyond the program's CA prefilter
                continue
            cand.append((e, a))
        if chain_start:
            # as documented this residue has no amide hydrogen: definitely no bonds -- recorded by the caller as
            # `chain_start` class if mdtraj reports some
            continue
        cand.sort()
        if unsure:
            amb.add(d)
            continue
        if len(cand) > 2 and cand[2][0] - cand[1][0] < E_MARGIN:
            amb.add(d)
            continue
        if len(cand) > 1 and abs(cand[0][0] - E_CLAMP) < 1e-9 and abs(cand[1][0] - E_CLAMP) < 1e-9 and len(cand) > 2:
            amb.add(d)
            continue
        for e, a in cand[:2]:
            bonds[(a, d)] = e
    return bonds, amb


def no_carbonyl_donors(residues):
    """complete residues whose predecessor lacks C or O (exactly one of them: `half`): no hydrogen can be built"""
    out, half = set(), set()
    for d in range(1, len(residues)):
        rp = residues[d - 1]
        if rp["C"] is None or rp["O"] is None:
            out.add(d)
            if (rp["C"] is None) != (rp["O"] is None):
                half.add(d)
    return out, half


def chain_start_residues(residues):
    """complete residues that start a chain after another residue (index > 0): as documented they carry no amide H"""
    return {d for d in range(1, len(residues)) if residues[d]["chain"] != residues[d - 1]["chain"]}
